/-
C01 / Dispatch — `validate` driver: every task-level event logged by the instrumented runtime (harness/c01/disp.cpp,
translated by checks/c01.py) must be an ENABLED transition of `Dispatch.step` with the same observable outcome
(which unit starts, whether it is executed or cancelled, which side frees an emptied proxy).

The driver only adds what the log cannot contain: failed look-ups (`miss`) are inserted automatically — at most one
round of the dispatch order — to bring the thread's `look` position to the source the event names.

Lines (ids are model ids: units, groups, contexts, proxies are numbered in the order of their creation):
  init <narenas> <nthreads> <look-up order: 7 source names> | <arena of slot 0> <arena of slot 1> …
  grp <t>                      newGroup            -> ok g=<id>
  ctx                          newCtx              -> ok c=<id>
  cancel <c>
  enter <t> <slot> / leave <t>
  bw <t> <g|-1> <iso>          beginWait
  wr <t>                       waitReturn (misses inserted until `continue_execution` is evaluated)
  sub <t> <g> <c> <iso> spawn | mail <dst> | stream <arena> <kind> | bypass     -> ok u=<id> [p=<id>]
  respawn <t>
  grab <t> pool <v> <u> | box <u> | stream <kind> <u>     the unit leaves the container and is in the dispatcher's hand
  take <t> bypass <u>          the dispatcher calls execute()/cancel() of the unit in its hand   -> ok exec | ok cancel
  free <t> <p>                 the thread found proxy p emptied and freed it (side decided by the tag; a proxy left in
                               another slot's mailbox is freed by arena teardown: drainBox)
  complete <t> <u> / ret <t> <u>
  zero <g>                     the runtime's counter of g's wait_context reached 0: no unit of g may hold a reference
  state                        summary
-/
import TbbVerif.Model.C01Dispatch

namespace TbbVerif.C01.Dispatch
open Proto

def showOpt : Option Nat → String
  | none => "-"
  | some v => toString v

def showFrame : Frame → String
  | .attach k => s!"A{k}"
  | .wait g w => s!"W{showOpt g}/{w}"
  | .exec u => s!"X{u}"

def showEntry : Entry → String
  | .task u => s!"t{u}"
  | .proxy p => s!"p{p}"

/-- apply `miss` until `ok` holds (at most 8 times) -/
def advance (s : St) (t : Tid) (ok : St → Bool) : Nat → Option St
  | 0 => if ok s then some s else none
  | n + 1 => if ok s then some s else
      match step s (.miss t) with
      | none => none
      | some s' => advance s' t ok n

def lookIs (t : Tid) (l : Src) (s : St) : Bool := s.look[t]? == some l

def findIdx? {α : Type} (l : List α) (p : α → Bool) : Option Nat :=
  let i := l.findIdx p
  if i < l.length then some i else none

/-- index of unit `u` in pool `v`: as a plain task, or through a live proxy -/
def poolIndex (s : St) (v u : Nat) : Option Nat :=
  match s.pools[v]? with
  | none => none
  | some P => findIdx? P (fun e => match e with
      | .task w => w == u
      | .proxy p => match s.proxies[p]? with
                    | some X => X.tag == .shared && X.unit == u
                    | none => false)

def boxIndex (s : St) (k u : Nat) : Option Nat :=
  match s.boxes[k]? with
  | none => none
  | some B => findIdx? B (fun p => match s.proxies[p]? with
      | some X => X.tag == .shared && X.unit == u
      | none => false)

/-- what the last step did to unit `u` -/
def outcome (s s' : St) (u : Nat) : String :=
  match s.units[u]?, s'.units[u]? with
  | some x, some y =>
      if y.ncancel > x.ncancel then "cancel" else if y.nexec > x.nexec then "exec" else "none"
  | _, _ => "none"

def why (s : St) (t : Tid) : String :=
  let stk := s.stacks.getD t []
  s!"stack=[{" ".intercalate (stk.map showFrame)}] look={match s.look[t]? with | some l => l.name | none => "?"} bypass={match s.bypass[t]? with | some b => showOpt b | none => "?"}"

def whyUnit (s : St) (u : Nat) : String :=
  match s.units[u]? with
  | none => s!"unit {u} does not exist"
  | some x => s!"unit {u}: grp={x.grp} st={repr x.st} occ={occ s u} frames={frameCount s u} nexec={x.nexec} ncancel={x.ncancel}"

def ok1 (r : Option St) (s : St) (msg : String) (extra : String := "") : St × String :=
  match r with
  | some s' => (s', if extra == "" then "ok" else s!"ok {extra}")
  | none => (s, s!"rej {msg}")

def parseTarget : List String → Option Target
  | ["spawn"] => some .spawn
  | ["mail", d] => (nat? d).map .mail
  | ["stream", a, k] => match nat? a, nat? k with | some a, some k => some (.stream a k) | _, _ => none
  | ["bypass"] => some .bypass
  | _ => none

def takeWith (s : St) (t u : Nat) (pre : St → Bool) (act : St → Option Act) (exec : Bool := true) : St × String :=
  match advance s t pre 8 with
  | none => (s, s!"rej take: thread {t} cannot reach that source: {why s t}")
  | some s1 =>
    match act s1 with
    | none => (s, s!"rej take: {whyUnit s u}; it is not in the named container")
    | some a =>
      match step s1 a with
      | none => (s, s!"rej take: not enabled: {why s1 t}; {whyUnit s1 u}")
      | some s2 =>
        if exec then
          if topFrame s2 t == some (.exec u) then (s2, s!"ok {outcome s1 s2 u}")
          else (s, s!"rej take: the step did not start unit {u}")
        else
          if s2.bypass[t]? == some (some u) then (s2, "ok")
          else (s, s!"rej grab: the step did not hand unit {u} to thread {t}")

def drive (s : St) (ws : List String) : St × String :=
  match ws with
  | "init" :: na :: nt :: rest =>
      let ordw := rest.takeWhile (· != "|")
      let sl := (rest.dropWhile (· != "|")).drop 1
      match nat? na, nat? nt, nats? sl, ordw.mapM Src.ofName with
      | some na, some nt, some sl, some ord =>
          if ord.length = 7 ∧ ord.head? = some .bypass then (init sl na nt ord, "ok") else (s, "rej init: the look-up order must name the 7 sources, bypass first")
      | _, _, _, _ => (s, "bad-op")
  | ["grp", t] =>
      match nat? t with
      | some t => ok1 (step s (.newGroup t)) s s!"grp: no thread {t}" s!"g={s.groups.length}"
      | none => (s, "bad-op")
  | ["ctx"] => ok1 (step s .newCtx) s "ctx" s!"c={s.ctxs.length}"
  | ["cancel", c] =>
      match nat? c with
      | some c => ok1 (step s (.cancel c)) s s!"cancel: no context {c}"
      | none => (s, "bad-op")
  | ["enter", t, k] =>
      match nat? t, nat? k with
      | some t, some k => ok1 (step s (.enter t k)) s s!"enter: slot {k} occupied={occupied s k} or no such slot/thread; {why s t}"
      | _, _ => (s, "bad-op")
  | ["leave", t] =>
      match nat? t with
      | some t => ok1 (step s (.leave t)) s s!"leave: {why s t}"
      | none => (s, "bad-op")
  | ["bw", t, g, iso] =>
      match nat? t, g.toInt?, nat? iso with
      | some t, some g, some iso =>
          let g' : Option Nat := if g < 0 then none else some g.toNat
          ok1 (step s (.beginWait t g' iso)) s s!"bw: group {g} (owner/closed/began?) {why s t}"
      | _, _, _ => (s, "bad-op")
  | ["wr", t] =>
      match nat? t with
      | some t =>
          match advance s t (fun s => canLeaveLoop s t) 8 with
          | none => (s, s!"rej wr: the loop cannot be left here (a bypass task is pending?): {why s t}")
          | some s1 =>
            match step s1 (.waitReturn t) with
            | some s2 => (s2, "ok")
            | none =>
              let g := match s1.stacks.getD t [] with | .wait (some g) _ :: _ => some g | _ => none
              (s, s!"rej wr: the wait returned but {match g with | some g => s!"group {g} still has refs={(s1.groups[g]?.map (fun (G : Group) => G.refs)).getD 0} (units that are pending or running)" | none => "the top frame is not a wait"}: {why s1 t}")
      | none => (s, "bad-op")
  | "sub" :: t :: g :: c :: iso :: tg =>
      match nat? t, nat? g, nat? c, nat? iso, parseTarget tg with
      | some t, some g, some c, some iso, some tg =>
          let extra := match tg with | .mail _ => s!"u={s.units.length} p={s.proxies.length}" | _ => s!"u={s.units.length}"
          ok1 (step s (.submit t g c iso tg)) s s!"sub: thread {t} may not submit to group {g} there: {why s t}" extra
      | _, _, _, _, _ => (s, "bad-op")
  | ["respawn", t] =>
      match nat? t with
      | some t => ok1 (step s (.respawn t)) s s!"respawn: {why s t}"
      | none => (s, "bad-op")
  | ["take", t, "bypass", u] =>
      match nat? t, nat? u with
      | some t, some u =>
          if s.bypass[t]? == some (some u) then takeWith s t u (lookIs t .bypass) (fun _ => some (.takeBypass t))
          else (s, s!"rej take: unit {u} is not the bypass task of thread {t}: {why s t}; {whyUnit s u}")
      | _, _ => (s, "bad-op")
  | ["grab", t, "pool", v, u] =>
      match nat? t, nat? v, nat? u with
      | some t, some v, some u =>
          let own := curSlot (s.stacks.getD t []) == some v
          takeWith s t u (lookIs t (if own then .localPool else .steal)) (fun s1 => (poolIndex s1 v u).map (.takePool t v)) false
      | _, _, _ => (s, "bad-op")
  | ["grab", t, "box", u] =>
      match nat? t, nat? u with
      | some t, some u =>
          match curSlot (s.stacks.getD t []) with
          | none => (s, s!"rej take: thread {t} occupies no slot")
          | some k => takeWith s t u (lookIs t .mailbox) (fun s1 => (boxIndex s1 k u).map (.takeBox t)) false
      | _, _ => (s, "bad-op")
  | ["grab", t, "stream", kind, u] =>
      match nat? t, nat? kind, nat? u with
      | some t, some kind, some u =>
          let want : Src := if kind == 0 then .resume else if kind == 1 then .fifo else .critical
          let pre := fun (s1 : St) => kind ≥ 2 || lookIs t want s1
          takeWith s t u pre (fun s1 =>
            match curSlot (s1.stacks.getD t []) with
            | none => none
            | some k => match s1.slotArena[k]? with
              | none => none
              | some a => match s1.streams[3 * a + kind]? with
                | none => none
                | some S => (findIdx? S (· == u)).map (.takeStream t kind)) false
      | _, _, _ => (s, "bad-op")
  | ["free", t, p] =>
      match nat? t, nat? p with
      | some t, some p =>
          match s.proxies[p]? with
          | none => (s, s!"rej free: no proxy {p}")
          | some X =>
            match X.tag with
            | .poolCleans =>
                -- the pool side (owner or thief) frees it: find the pool cell
                match findIdx? s.pools (fun P => P.contains (.proxy p)) with
                | none => (s, s!"rej free: proxy {p} is in no pool")
                | some v =>
                  let own := curSlot (s.stacks.getD t []) == some v
                  match advance s t (lookIs t (if own then .localPool else .steal)) 8 with
                  | none => (s, s!"rej free: {why s t}")
                  | some s1 =>
                    match findIdx? (s1.pools.getD v []) (· == .proxy p) with
                    | none => (s, "rej free: cell not found")
                    | some i => ok1 (step s1 (.takePool t v i)) s s!"free: pool side of proxy {p} not enabled for thread {t}: {why s1 t}" "side=pool"
            | .mboxCleans =>
                match findIdx? s.boxes (fun B => B.contains p) with
                | none => (s, s!"rej free: proxy {p} is in no mailbox")
                | some k =>
                  if curSlot (s.stacks.getD t []) == some k ∧ (s.stacks.getD t []).head?.any (fun f => match f with | .wait _ _ => true | _ => false) then
                    match advance s t (lookIs t .mailbox) 8 with
                    | none => (s, s!"rej free: {why s t}")
                    | some s1 =>
                      match findIdx? (s1.boxes.getD k []) (· == p) with
                      | none => (s, s!"rej free: proxy {p} is not in the mailbox of slot {k}")
                      | some i => ok1 (step s1 (.takeBox t i)) s s!"free: mailbox side of proxy {p} not enabled: {why s1 t}" "side=mailbox"
                  else
                    match findIdx? (s.boxes.getD k []) (· == p) with
                    | none => (s, s!"rej free: proxy {p} is not in the mailbox of slot {k}")
                    | some i => ok1 (step s (.drainBox k i)) s s!"free: drain of proxy {p} not enabled" "side=drain"
            | .shared => (s, s!"rej free: proxy {p} was freed while it still carries its task (unit {X.unit} would be lost)")
            | .freed => (s, s!"rej free: proxy {p} freed twice")
      | _, _ => (s, "bad-op")
  | ["complete", t, u] =>
      match nat? t, nat? u with
      | some t, some u =>
          if topFrame s t == some (.exec u) then ok1 (step s (.complete t)) s s!"complete: {whyUnit s u}"
          else (s, s!"rej complete: unit {u} is not the innermost frame of thread {t}: {why s t}")
      | _, _ => (s, "bad-op")
  | ["ret", t, u] =>
      match nat? t, nat? u with
      | some t, some u =>
          if topFrame s t == some (.exec u) then ok1 (step s (.ret t)) s s!"ret: {whyUnit s u}"
          else (s, s!"rej ret: unit {u} is not the innermost frame of thread {t}: {why s t}")
      | _, _ => (s, "bad-op")
  | ["zero", g] =>
      match nat? g with
      | some g =>
          match s.groups[g]? with
          | none => (s, s!"rej zero: no group {g}")
          | some G => if G.refs = 0 then (s, "ok") else
              (s, s!"rej zero: the runtime's wait counter of group {g} reached 0 while {G.refs} of its units are still pending or running")
      | none => (s, "bad-op")
  | ["state"] =>
      let pend := (List.range s.units.length).filter (fun u => (s.units[u]?.map (fun x => x.st == .pending)).getD false)
      let run := (List.range s.units.length).filter (fun u => (s.units[u]?.map (fun x => x.st == .running || x.st == .released)).getD false)
      let nex := (s.units.map (·.nexec)).sum
      let ncan := (s.units.map (·.ncancel)).sum
      let bad := (List.range s.units.length).filter (fun u => (s.units[u]?.map (fun (x : UnitR) => decide (x.nexec + x.ncancel > 1))).getD false)
      (s, s!"units={s.units.length} exec={nex} cancel={ncan} pending=[{showNats pend}] running=[{showNats run}] twice=[{showNats bad}] " ++
          s!"proxies={s.proxies.length} freed={s.proxies.countP (·.tag == .freed)} pools=[{" | ".intercalate (s.pools.map (fun P => " ".intercalate (P.map showEntry)))}]")
  | _ => (s, "bad-op")

def driverDispatch : Proto.Driver := { σ := St, init := {}, step := drive }

end TbbVerif.C01.Dispatch
