/-
C16 — isolation as a STACK discipline (`isolate_within_arena`, nested at will), per task dispatcher.

Code modelled (one model step per serialised operation on a task container / per call or return of a scoping construct):
* `r1::isolate_within_arena(d, isolation)` (arena.cpp): `previous_isolation` is initialised, the body lambda computes the new tag
  (`isolation ? isolation : &d`), installs it with `set_isolation` (assigning the old word to `previous_isolation`), runs `d()`;
  the `on_completion` guard restores `previous_isolation` — on normal return and when `d()` throws.  WHAT is saved, WHEN, how the
  completion lambda captures it and on which paths it runs is a *generated* program (`Generated.C16.isoPrevInit`,
  `isoBodyAssignsPrev`, `isoCompletionByRef`, `isoRestoreOnReturn`, `isoRestoreOnThrow`), interpreted by `isolateCaptured` /
  the `endIsolate` step.  The tag is an address: the model takes it as an argument of the operation, subject to the environment
  assumption that the address of a live local differs from every tag that is live at that moment (`tagFree`); after the region
  has ended the same value may come again (address re-use) — also while tasks carrying it are still pending.
* `nested_arena_context` (task_arena::execute; the same-arena path): saves the whole execute data, sets `isolation = no_isolation`
  (`nestedArenaIso`), restores on exit.
* a dispatch loop (`local_wait_for_all`) reads its constant `isolation` from the execute data at entry and restores the execute
  data at exit; after every take `ed.isolation = isolation(*t)`.  Take points and filters are those of `Model/C16Iso.lean` (the scans
  are re-used), plus: the *resume* stream (`get_stream_or_critical_task(.., resume_stream, ..)` → `arena::get_stream_task`: no
  isolation argument at all, `resumeFiltered`), *bypassed* tasks (returned by `execute`: run without any filter and without
  `ed.isolation` being reassigned), the critical task that *displaces* a held task in `get_critical_task(t, ..)` (the held task is
  re-spawned with the dispatcher's current word, before or after `ed.isolation` is overwritten: `critRespawnBeforeEd`), and the
  initial task of `execute_and_wait` (`execWaitTag`).
* task dispatchers: every coroutine (`task::suspend`) has its own `task_dispatcher` with its own `m_execute_data_ext`; a thread is
  attached to one dispatcher at a time (`cur`); a fresh dispatcher starts with `baseIso` (`isolation_type isolation{}`).  Taking a
  resume task and switching stacks are two operations (`popResume`, `attach`); `attach` is unconstrained (any thread may be
  attached to any dispatcher: the safety theorems hold a fortiori for the switches the code performs).

Ghost state: every `isolate` call gets a fresh region id (`tagOf.length`); `tagOf[r]` is the tag word of region `r`; a task carries
the region it was spawned in; a dispatcher the region of the code it runs.  A region is *live* while its frame is on some stack.
-/
import TbbVerif.Model.C16Iso

namespace TbbVerif.C16.Nest
open TbbVerif.Generated.C16
open TbbVerif.C16.Iso (Task PEntry Entry Pool ownScan stealScan mailScan claim argOwn argMail argSteal argFifo argCrit)

inductive Fr where
  /-- a dispatch loop: its `isolation` constant, the ghost region it waits in, the saved execute data (word, ghost region), and the tag
  of the task it is running (the last one it took; initially the word it was entered with), whether that is a resume task -/
  | loop (iso ghost savedEd savedReg cur : Nat) (res : Bool)
  /-- `isolate_within_arena`: what the completion guard will restore, the ghost region to restore, the region id, the installed tag,
  whether the tag was passed explicitly (`isolated_task_group`, `collaborative_call_once`) -/
  | region (prev savedReg rid tag : Nat) (expl : Bool)
  /-- `nested_arena_context`: `m_orig_execute_data_ext` -/
  | exec (savedEd savedReg : Nat)
  deriving Repr, DecidableEq

/-- The isolation word that is in force on top of a frame stack: the tag of the innermost region; `no_isolation` inside a
`task_arena::execute`; inside a task run by a dispatch loop, that task's tag; `no_isolation` at the bottom of a dispatcher. -/
def ctxTag : List Fr → Nat
  | [] => 0
  | .loop _ _ _ _ cur _ :: _ => cur
  | .region _ _ _ tag _ :: _ => tag
  | .exec _ _ :: _ => 0

structure Disp where
  ed : Nat := 0            -- m_execute_data_ext.isolation
  reg : Nat := 0           -- ghost: region of the running code
  stack : List Fr := []
  deriving Repr, DecidableEq

structure LogE where
  thread : Nat
  disp : Nat
  task : Task
  iso : Nat                -- the dispatch loop's isolation constant
  ghost : Nat              -- the ghost region the loop waits in
  edAt : Nat               -- m_execute_data_ext.isolation while the task runs
  below : List Fr          -- the frames under the dispatch loop at that moment
  resume : Bool := false   -- a resume task (exempt from isolation: it continues another stack)
  bypass : Bool := false   -- returned by the previous task's `execute`, run without a take
  tLive : Bool := false    -- ghost: the task's region was live at that moment
  gLive : Bool := false    -- ghost: the loop's region was live at that moment
  bothExpl : Bool := false -- ghost: both regions were entered with an explicit tag
  deriving Repr, DecidableEq

structure NSt where
  pools : List Pool
  mail : List (List PEntry)
  idle : List Bool
  claimed : List Nat := []
  fifo : List Task := []
  crit : List Task := []
  resume : List Nat := []          -- my_resume_task_stream: target dispatchers
  disps : List Disp
  cur : List Nat                   -- thread (= slot) → the dispatcher it is attached to
  next : Nat := 0
  tagOf : List Nat := [0]          -- ghost: region id → tag word (region 0 = no region)
  log : List LogE := []
  spawned : List Task := []
  proxies : List PEntry := []
  deriving Repr, DecidableEq

/-- `n` slots, each thread attached to its slot's default dispatcher -/
def NSt.init (n : Nat) : NSt :=
  { pools := List.replicate n [], mail := List.replicate n [], idle := List.replicate n false,
    disps := List.replicate n { ed := baseIso }, cur := List.range n }

/-! ### liveness of regions (ghost) -/

def Fr.hasRid (r : Nat) : Fr → Bool
  | .region _ _ rid _ _ => rid == r
  | _ => false

def Fr.hasTag (τ : Nat) : Fr → Bool
  | .region _ _ _ tag _ => tag == τ
  | _ => false

def Fr.hasAddrTag (τ : Nat) : Fr → Bool
  | .region _ _ _ tag e => tag == τ && !e
  | _ => false

def Fr.isExplRid (r : Nat) : Fr → Bool
  | .region _ _ rid _ e => rid == r && e
  | _ => false

def NSt.liveRid (s : NSt) (r : Nat) : Bool := s.disps.any (fun dp => dp.stack.any (Fr.hasRid r))
def NSt.explRid (s : NSt) (r : Nat) : Bool := s.disps.any (fun dp => dp.stack.any (Fr.isExplRid r))

/-- Environment assumption of `isolate`: the address of the delegate object (a live local) is not the tag of any live region; an
explicit tag (the address of a live `isolated_task_group` / `collaborative_once_flag`) is not the address-tag of a live region. -/
def NSt.tagFree (s : NSt) (explicit : Bool) (τ : Nat) : Bool :=
  s.disps.all (fun dp => dp.stack.all (fun f => if explicit then !f.hasAddrTag τ else !f.hasTag τ))

/-! ### the generated `isolate_within_arena` program -/

/-- the value the completion guard will hand to `set_isolation`, as a function of the dispatcher's word at the call -/
def isolateCaptured (edAtCall : Nat) : Nat :=
  let prevInit := isoPrevInit edAtCall
  let prevAfterBody := if isoBodyAssignsPrev then edAtCall else prevInit       -- `previous_isolation = set_isolation(..)` returns the old word
  if isoCompletionByRef then prevAfterBody else prevInit                      -- a by-value copy is taken when the lambda object is built: before the body runs

/-! ### dispatchers -/

def NSt.dispOf (s : NSt) (t : Nat) : Option (Nat × Disp) :=
  match s.cur[t]? with
  | some d => (s.disps[d]?).map (fun dp => (d, dp))
  | none => none

def NSt.setDisp (s : NSt) (d : Nat) (dp : Disp) : NSt := { s with disps := s.disps.set d dp }

/-- the innermost dispatch loop, if it is on top of the stack: (isolation, ghost, frames below) -/
def Disp.curLoop (dp : Disp) : Option (Nat × Nat × List Fr) :=
  match dp.stack with
  | .loop i g _ _ _ _ :: rest => some (i, g, rest)
  | _ => none

/-- the loop on top is running a resume task (`resume_task::execute` returns no task: nothing can be bypassed) -/
def Disp.runsResume (dp : Disp) : Bool :=
  match dp.stack with
  | .loop _ _ _ _ _ r :: _ => r
  | _ => false

/-- replace the `cur` field of the loop on top -/
def setCur (c : Nat) (r : Bool) : List Fr → List Fr
  | .loop i g se sr _ _ :: rest => .loop i g se sr c r :: rest
  | st => st

/-- thread `t` on dispatcher `d` starts task `x`: the execute data become `edNew` -/
def NSt.exec (s : NSt) (t d : Nat) (dp : Disp) (x : Task) (i g : Nat) (below : List Fr) (edNew : Nat) (resume : Bool) : NSt :=
  { s with disps := s.disps.set d { ed := edNew, reg := x.region, stack := setCur edNew resume dp.stack },
           log := s.log ++ [{ thread := t, disp := d, task := x, iso := i, ghost := g, edAt := edNew, below := below, resume := resume,
                              tLive := s.liveRid x.region, gLive := s.liveRid g, bothExpl := s.explRid x.region && s.explRid g }] }

/-- would `get_critical_task` hand the `k`-th critical task to a loop with isolation `i`? -/
def critTakes (s : NSt) (i k : Nat) : Bool :=
  match s.crit[k]? with
  | some x => !isoCritSpecific (isoArgCrit1 i) || isoCritMatch true (argCrit i) x.tag
  | none => false

def critTagAt (s : NSt) (k : Nat) : Nat :=
  match s.crit[k]? with
  | some c => c.tag
  | none => 0

inductive NOp where
  | wait (t : Nat)
  | endWait (t : Nat)
  | isolate (t : Nat) (explicit fresh : Nat)     -- isolate_within_arena(d, explicit) with `&d = fresh`
  | endIsolate (t : Nat) (thrown : Bool)         -- `d()` returned / threw
  | execBegin (t : Nat)                          -- nested_arena_context (task_arena::execute)
  | execEnd (t : Nat)
  | spawn (t : Nat)
  | spawnAff (t : Nat) (dest : Nat)
  | enqueue (t : Nat)
  | critical (t : Nat)
  | setIdle (t : Nat) (b : Bool)
  | own (t : Nat)
  | steal (t : Nat) (v : Nat)
  | stealCrit (t : Nat) (v : Nat) (k : Nat)      -- steal_or_get_critical: the stolen task is displaced by the k-th critical task
  | mailbox (t : Nat)
  | popFifo (t : Nat) (fifoAllowed : Bool) (k : Nat)
  | popCrit (t : Nat) (k : Nat)
  | resumeReq (d : Nat)                          -- r1::resume(suspend point of dispatcher d): a resume task enters the resume stream
  | popResume (t : Nat) (k : Nat)                -- get_stream_or_critical_task(.., resume_stream, ..)
  | bypass (t : Nat) (k : Option Nat)            -- the running task returns a new task; `get_critical_task(t, ..)` may displace it
  | waitWith (t : Nat) (k : Option Nat)          -- execute_and_wait(t, ..): a loop entered with an initial task
  | newDisp                                      -- create_coroutine: a fresh task_dispatcher
  | attach (t : Nat) (d : Nat)                   -- the thread switches to dispatcher d (suspend / resume / recall)
  deriving Repr, DecidableEq

/-- `r1::spawn(t, ctx)` of a fresh task by the code running on `dp` (slot `t`) -/
def NSt.doSpawn (s : NSt) (t : Nat) (dp : Disp) (pool : Pool) (tag : Nat) : NSt :=
  let x : Task := { id := s.next, tag := tag, region := dp.reg }
  { s with pools := s.pools.set t (pool ++ [some (.plain x)]), next := s.next + 1, spawned := s.spawned ++ [x] }

/-- take the `k`-th critical task in a loop (i, g, below) on dispatcher `d` -/
def NSt.doPopCrit (s : NSt) (t d : Nat) (dp : Disp) (i g : Nat) (below : List Fr) (k : Nat) : NSt :=
  match s.crit[k]? with
  | some x =>
    if !isoCritSpecific (isoArgCrit1 i) || isoCritMatch true (argCrit i) x.tag then
      ({ s with crit := s.crit.eraseIdx k }).exec t d dp x i g below (edAfterCrit x.tag) false
    else s
  | none => s

def NSt.step (s : NSt) : NOp → NSt
  | .wait t =>
    match s.dispOf t with
    | some (d, dp) => s.setDisp d { dp with stack := .loop (isoLoop dp.ed) dp.reg dp.ed dp.reg dp.ed false :: dp.stack }
    | none => s
  | .endWait t =>
    match s.dispOf t with
    | some (d, dp) =>
      match dp.stack with
      | .loop _ _ se sr _ _ :: st => s.setDisp d { ed := se, reg := sr, stack := st }
      | _ => s
    | none => s
  | .isolate t explicit fresh =>
    match s.dispOf t with
    | some (d, dp) =>
      let tag := isolateSet (isolateTag explicit fresh)
      if fresh = 0 ∨ tag = 0 ∨ s.tagFree (explicit != 0) tag = false then s
      else
        { s with disps := s.disps.set d { ed := tag, reg := s.tagOf.length,
                                           stack := .region (isolateCaptured dp.ed) dp.reg s.tagOf.length tag (explicit != 0) :: dp.stack },
                 tagOf := s.tagOf ++ [tag] }
    | none => s
  | .endIsolate t thrown =>
    match s.dispOf t with
    | some (d, dp) =>
      match dp.stack with
      | .region prev sr _ _ _ :: st =>
        -- the completion guard: `dispatcher->set_isolation(previous_isolation)`, if it runs on this path
        let ed' := if (if thrown then isoRestoreOnThrow else isoRestoreOnReturn) then isolateRestore prev else dp.ed
        s.setDisp d { ed := ed', reg := sr, stack := st }
      | _ => s
    | none => s
  | .execBegin t =>
    match s.dispOf t with
    | some (d, dp) => s.setDisp d { ed := nestedArenaIso, reg := 0, stack := .exec dp.ed dp.reg :: dp.stack }
    | none => s
  | .execEnd t =>
    match s.dispOf t with
    | some (d, dp) =>
      match dp.stack with
      | .exec se sr :: st => s.setDisp d { ed := se, reg := sr, stack := st }
      | _ => s
    | none => s
  | .spawn t =>
    match s.dispOf t, s.pools[t]? with
    | some (_, dp), some pool => s.doSpawn t dp pool (tagSpawn dp.ed)
    | _, _ => s
  | .spawnAff t dest =>
    match s.dispOf t, s.pools[t]? with
    | some (_, dp), some pool =>
      let x : Task := { id := s.next, tag := tagSpawnAff dp.ed, region := dp.reg }
      match (if dest = t then none else s.mail[dest]?) with
      | some box =>
        let p : PEntry := { pid := s.next, ptag := tagProxy dp.ed, task := x, dest := dest }
        { s with pools := s.pools.set t (pool ++ [some (.proxy p)]), mail := s.mail.set dest (box ++ [p]),
                 next := s.next + 1, spawned := s.spawned ++ [x], proxies := s.proxies ++ [p] }
      | none => { s with pools := s.pools.set t (pool ++ [some (.plain x)]), next := s.next + 1, spawned := s.spawned ++ [x] }
    | _, _ => s
  | .enqueue t =>
    match s.dispOf t with
    | some (_, dp) =>
      let x : Task := { id := s.next, tag := tagEnqueue dp.ed, region := 0 }
      { s with fifo := s.fifo ++ [x], next := s.next + 1, spawned := s.spawned ++ [x] }
    | none => s
  | .critical t =>
    match s.dispOf t with
    | some (_, dp) =>
      let x : Task := { id := s.next, tag := tagCritical dp.ed, region := dp.reg }
      { s with crit := s.crit ++ [x], next := s.next + 1, spawned := s.spawned ++ [x] }
    | none => s
  | .setIdle t b => if t < s.idle.length then { s with idle := s.idle.set t b } else s
  | .own t =>
    match s.dispOf t, s.pools[t]? with
    | some (d, dp), some pool =>
      match dp.curLoop with
      | some (i, g, below) =>
        let r := ownScan (argOwn i) s.claimed pool.reverse false
        let s1 := { s with pools := s.pools.set t r.1.reverse, claimed := claim s.claimed r.2.2 }
        match r.2.1 with
        | some x => s1.exec t d dp x i g below (edAfterOwn x.tag) false
        | none => s1
      | none => s
    | _, _ => s
  | .steal t v =>
    match s.dispOf t, s.pools[v]? with
    | some (d, dp), some pool =>
      match dp.curLoop with
      | some (i, g, below) =>
        if v = t then s else
        let r := stealScan (argSteal i) s.claimed (fun x => s.idle.getD x false) (s.idle.getD v false) pool false
        let s1 := { s with pools := s.pools.set v r.1 }
        match r.2 with
        | some (.plain x) => s1.exec t d dp x i g below (edAfterIdle x.tag) false
        | some (.proxy p) =>
          if p.pid ∈ s.claimed then s1
          else ({ s1 with claimed := p.pid :: s.claimed }).exec t d dp p.task i g below (edAfterIdle p.task.tag) false
        | none => s1
      | none => s
    | _, _ => s
  | .stealCrit t v k =>
    -- `steal_or_get_critical`: after a successful steal `ed.isolation = isolation(*t)`, then `get_critical_task(t, ed, isolation, ..)`:
    -- a critical task that passes the loop's filter displaces the stolen task, which is re-spawned into the thief's own pool
    match s.dispOf t, s.pools[v]?, s.pools[t]? with
    | some (d, dp), some pool, some _ =>
      match dp.curLoop with
      | some (i, g, below) =>
        if v = t then s else
        let r := stealScan (argSteal i) s.claimed (fun x => s.idle.getD x false) (s.idle.getD v false) pool false
        let held : Option (Task × List Nat) := match r.2 with
          | some (.plain x) => some (x, s.claimed)
          | some (.proxy p) => if p.pid ∈ s.claimed then none else some (p.task, p.pid :: s.claimed)
          | none => none
        match held, s.crit[k]? with
        | some (x, cl), some c =>
          if critTakes s i k then
            let edHeld := edAfterIdle x.tag
            let x' : Task := { x with tag := if critRespawnBeforeEd then tagSpawn edHeld else tagSpawn (edAfterCrit c.tag) }
            let pools1 := s.pools.set v r.1
            let s1 := { s with pools := pools1.set t ((pools1.getD t []) ++ [some (Entry.plain x')]), claimed := cl }
            s1.doPopCrit t d dp i g below k
          else s
        | _, _ => s
      | none => s
    | _, _, _ => s
  | .mailbox t =>
    match s.dispOf t, s.mail[t]? with
    | some (d, dp), some box =>
      match dp.curLoop with
      | some (i, g, below) =>
        let r := mailScan (argMail i) s.claimed box
        let s1 := { s with mail := s.mail.set t r.1, claimed := claim s.claimed r.2 }
        match r.2 with
        | some p => s1.exec t d dp p.task i g below (edAfterIdle p.task.tag) false
        | none => s1
      | none => s
    | _, _ => s
  | .popFifo t fa k =>
    match s.dispOf t, s.fifo[k]? with
    | some (d, dp), some x =>
      match dp.curLoop with
      | some (i, g, below) =>
        if isoFifoOk fa (argFifo i) then ({ s with fifo := s.fifo.eraseIdx k }).exec t d dp x i g below (edAfterIdle x.tag) false else s
      | none => s
    | _, _ => s
  | .popCrit t k =>
    match s.dispOf t with
    | some (d, dp) =>
      match dp.curLoop with
      | some (i, g, below) => s.doPopCrit t d dp i g below k
      | none => s
    | none => s
  | .resumeReq d => { s with resume := s.resume ++ [d] }
  | .popResume t k =>
    match s.dispOf t, s.resume[k]? with
    | some (d, dp), some target =>
      match dp.curLoop with
      | some (i, g, below) =>
        -- no isolation argument reaches `arena::get_stream_task`; were the stream filtered, a resume task (tag `resumeTag`) would have to match
        if !resumeFiltered || i == 0 || i == resumeTag then
          ({ s with resume := s.resume.eraseIdx k }).exec t d dp { id := target, tag := resumeTag, region := 0 } i g below (edAfterIdle resumeTag) true
        else s
      | none => s
    | _, _ => s
  | .bypass t k =>
    match s.dispOf t, s.pools[t]? with
    | some (d, dp), some pool =>
      match dp.curLoop with
      | some (i, g, below) =>
        if dp.runsResume && resumeReturnsNoTask then s else
        match k with
        | some k =>
          if critTakes s i k then
            -- `r1::spawn(*t, *ed.context)` with the dispatcher's current word, then the critical task
            let s1 := s.doSpawn t dp pool (if critRespawnBeforeEd then tagSpawn dp.ed else tagSpawn (edAfterCrit (critTagAt s k)))
            s1.doPopCrit t d dp i g below k
          else s
        | none =>
          -- run at once: no filter; `ed.isolation` is not reassigned in the bypass loop (were it, the bypassed task's own tag word —
          -- never written by a spawn — would replace it)
          let edB := if bypassKeepsEd then dp.ed else 0
          let y : Task := { id := s.next, tag := edB, region := dp.reg }
          { s with disps := s.disps.set d { dp with ed := edB, stack := setCur edB false dp.stack },
                   next := s.next + 1, spawned := s.spawned ++ [y],
                   log := s.log ++ [{ thread := t, disp := d, task := y, iso := i, ghost := g, edAt := edB, below := below, bypass := true,
                                      tLive := s.liveRid y.region, gLive := s.liveRid g, bothExpl := s.explRid y.region && s.explRid g }] }
      | none => s
    | _, _ => s
  | .waitWith t k =>
    match s.dispOf t, s.pools[t]? with
    | some (d, dp), some pool =>
      let i := isoLoop dp.ed
      let dpL : Disp := { dp with stack := .loop i dp.reg dp.ed dp.reg dp.ed false :: dp.stack }
      let s0 := s.setDisp d dpL
      match k with
      | some k =>
        if critTakes s i k then
          let s1 := s0.doSpawn t dpL pool (if critRespawnBeforeEd then tagSpawn (execWaitTag dp.ed) else tagSpawn (edAfterCrit (critTagAt s k)))
          s1.doPopCrit t d dpL i dp.reg dp.stack k
        else s
      | none =>
        let y : Task := { id := s.next, tag := execWaitTag dp.ed, region := dp.reg }
        { s0 with next := s.next + 1, spawned := s.spawned ++ [y],
                  log := s.log ++ [{ thread := t, disp := d, task := y, iso := i, ghost := dp.reg, edAt := dp.ed, below := dp.stack,
                                     tLive := s.liveRid y.region, gLive := s.liveRid dp.reg, bothExpl := s.explRid y.region && s.explRid dp.reg }] }
    | _, _ => s
  | .newDisp => { s with disps := s.disps ++ [{ ed := baseIso }] }
  | .attach t d => if t < s.cur.length ∧ d < s.disps.length then { s with cur := s.cur.set t d } else s

def NSt.run (s : NSt) (ops : List NOp) : NSt := ops.foldl NSt.step s

end TbbVerif.C16.Nest
