/-
C20 — the configurations of the `Sleep` and `Disp` models assembled from the facts regenerated from `/repo` on every
run (`Generated/C20.lean`).  The theorems of `Props/C20.lean` are stated for these, so a deviating fact breaks them.
-/
import TbbVerif.Model.C20Sleep
import TbbVerif.Model.C20Disp
import TbbVerif.Model.C20Pool
import TbbVerif.Model.C20Wait
import TbbVerif.Generated.C20

namespace TbbVerif.C20

open Generated.C20

def genSleepCfg : Sleep.Cfg :=
  { pred := coWakeupPred, scanSeesResume := hasTasksScansResume, advertises := resumeAdvertises,
    pushFirst := resumePushFirst, recallNotifies := recallNotifies }

def genDispCfg : Disp.Cfg :=
  { coInit := coInit, omitLocal := omitLocal, stealOk := stealOk, mailSkip := mailSkip, fifoOk := fifoOk,
    critAny := fun l => !critSpecific l }

/-- the skeleton of the switch / post-resume-action / co-cache code as extracted from the source on this run -/
def genPoolSkel : Pool.Skel :=
  { popClears := poolPopClears, finalizeFirst := poolFinalizeFirst, recallChecked := poolRecallChecked,
    actionBeforeSwitch := poolActionBeforeSwitch, clearsAction := poolClearsAction, cleanupCaches := poolCleanupCaches,
    recallPointGuard := poolRecallPointGuard, xchgThenPush := poolXchgThenPush, selfRecallChecked := poolSelfRecallChecked }

/-- the facts the `Wait` model is configured with -/
def genWaitCfg : Wait.Cfg := { releaseAfterBody := waitReleaseAfterBody, recallGuard := poolRecallPointGuard }

end TbbVerif.C20
