/-
C20 — the configurations of the `Sleep` and `Disp` models assembled from the facts regenerated from `/repo` on every
run (`Generated/C20.lean`).  The theorems of `Props/C20.lean` are stated for these, so a deviating fact breaks them.
-/
import TbbVerif.Model.C20Sleep
import TbbVerif.Model.C20Disp
import TbbVerif.Generated.C20

namespace TbbVerif.C20

open Generated.C20

def genSleepCfg : Sleep.Cfg :=
  { pred := coWakeupPred, scanSeesResume := hasTasksScansResume, advertises := resumeAdvertises,
    pushFirst := resumePushFirst, recallNotifies := recallNotifies }

def genDispCfg : Disp.Cfg :=
  { coInit := coInit, omitLocal := omitLocal, stealOk := stealOk, mailSkip := mailSkip, fifoOk := fifoOk,
    critAny := fun l => !critSpecific l }

end TbbVerif.C20
