/-
C20 — validation of an observed E-SHIM trace of the sleep path against the `Sleep` model (driver `c20slv`).

Input: the accesses of the sleeping thread (`S ...`) and of the resumer threads (`N <id> ...`) to the arena's
`my_pool_state` (`pool`), the resume stream's population word (`rts`), the waiting-threads monitor's `my_epoch` (`mep`)
and wait-set size (`wsz`), the owner-recall flag (`rc`), futex waits / wake-ups, in execution order, with the values
read and written.  Every such access must be the access the model's thread performs at its current step, with the same
value; model steps that have no access on these words (the semaphore operations, `cancel_wait`'s look at the node) are
taken as late as possible, and only if they are enabled.  Encoding of the pool state: 0 UNSET, 1 SET, anything else is a
`busy` value.
-/
import TbbVerif.Model.C20Sleep

namespace TbbVerif.C20.Sleep

open Proto

structure VSt where
  s : St := {}
  ids : List Nat := []            -- implementation thread id of notifier j
  base : Nat := 0                 -- my_epoch at the start of the window
  fail : Option String := none
  n : Nat := 0                    -- events validated
  deriving Repr

def encPool : Pool → Nat
  | .unset => 0 | .set => 1 | .busy k => k

def bit (b : Bool) : Nat := if b then 1 else 0

def vfail (d : VSt) (why : String) : VSt × String :=
  ({ d with fail := some why }, "MISMATCH " ++ why)

def vok (d : VSt) (what : String) : VSt × String := ({ d with n := d.n + 1 }, "ok " ++ what)

/-- post the V that notifier `j` still owes (its `semaphore().V()` is not among the observed words) -/
def flushV (cfg : Cfg) (s : St) : St :=
  match s.vOwner with
  | none => s
  | some j =>
      match s.ns[j]? with
      | some n => if n.pc = .ntfV then stepN cfg s j n else s
      | none => s

/-- silent steps of the sleeper: what `cancel_wait` / the semaphore do (no access to the observed words).  `rcLoad`: the
next observed access is the load of the recall flag (so `predRc` is not silent). -/
def advS (cfg : Cfg) (rcLoad : Bool) : Nat → St → St
  | 0, s => s
  | fuel + 1, s =>
      match s.sl with
      | .predRc => if rcLoad then s else advS cfg rcLoad fuel (stepS cfg s)
      | .cancelLd => advS cfg rcLoad fuel (stepS cfg s)
      | .cancelLk => if s.inList then s else advS cfg rcLoad fuel (stepS cfg s)
      | .parked | .drain =>
          let s1 := if s.sem = 0 then flushV cfg s else s
          if 0 < s1.sem then advS cfg rcLoad fuel (stepS cfg s1) else s
      | _ => s

def startOp (s : St) (op : SOp) : St := { s with ops := op :: s.ops }

def findN (d : VSt) (id : Nat) : Option (Nat × Nt) :=
  match d.ids.idxOf? id with
  | none => none
  | some j => (d.s.ns[j]?).map (fun n => (j, n))

/-- most recent notifier of implementation thread `id` -/
def findLast (d : VSt) (id : Nat) : Option (Nat × Nt) :=
  let idx := (List.range d.ids.length).reverse.find? (fun j => d.ids[j]? = some id)
  idx.bind (fun j => (d.s.ns[j]?).map (fun n => (j, n)))

def showS (s : St) : String :=
  s!"sl={repr s.sl} pool={showPool s.pool} stream={s.stream} rc={showBool s.recalled} inList={showBool s.inList} epoch={s.epoch} sem={s.sem}"

def sleeperEv (cfg : Cfg) (d : VSt) (ws : List String) : VSt × String :=
  let rcLoad := ws = ["load", "rc", "0"] ∨ ws = ["load", "rc", "1"]
  let s := advS cfg rcLoad 8 d.s
  let d := { d with s := s }
  match ws with
  | ["load", "pool", v] =>
      match nat? v with
      | none => (d, "bad-op")
      | some v =>
        -- out_of_work() that was not followed by sleep(): the operation was SOp.clear
        let s := if s.sl = .prepare ∧ s.retry = false then { s with sl := .idle } else s
        let s := if s.sl = .idle then stepS cfg (startOp s (.sleep 0)) else s
        if s.sl = .ldPool ∨ s.sl = .pred then
          if v = encPool s.pool then vok { d with s := stepS cfg s } s!"load pool {v}"
          else vfail d s!"sleeper loads pool = {v}, model has {showPool s.pool} ({showS s})"
        else vfail d s!"sleeper loads the pool state but the model's thread is at {repr s.sl}"
  | ["cas", "pool", e, w, ok] =>
      match nat? e, nat? w, nat? ok with
      | some e, some w, some ok =>
        -- `w` is the desired value of a successful CAS and the value observed by a failed one
        if s.sl = .casBusy then
          let s := if ok = 1 then { s with tag := w } else s
          if e = 1 ∧ ok = bit (s.pool = .set) ∧ (ok = 1 ∨ w = encPool s.pool) then vok { d with s := stepS cfg s } "cas SET->busy"
          else vfail d s!"sleeper CAS({e}->{w}) ok={ok}, model: casBusy with {showPool s.pool}"
        else if s.sl = .casClear then
          if e = s.tag ∧ ok = bit (s.pool = .busy s.tag) ∧ (if ok = 1 then w = bit s.found else w = encPool s.pool) then
            vok { d with s := stepS cfg s } s!"cas busy->{w} ok={ok}"
          else vfail d s!"sleeper CAS({e}->{w}) ok={ok}, model: casClear tag={s.tag} found={showBool s.found} pool={showPool s.pool}"
        else vfail d s!"sleeper CAS on the pool state but the model's thread is at {repr s.sl}"
      | _, _, _ => (d, "bad-op")
  | ["load", "rts", v] =>
      match nat? v with
      | none => (d, "bad-op")
      | some v =>
        if s.sl = .scan then
          let s' := stepS cfg s
          if decide (v ≠ 0) = s'.found then vok { d with s := s' } s!"scan {v}"
          else vfail d s!"has_tasks read population {v}, model finds {showBool s'.found} (stream={s.stream})"
        else (d, "ignored")
  | ["take"] =>
      let s := if s.sl = .prepare ∧ s.retry = false then { s with sl := .idle } else s
      if s.sl = .idle ∧ 0 < s.stream then vok { d with s := stepS cfg (startOp s .take) } "take"
      else vfail d s!"sleeper pops the resume stream, model: {showS s}"
  | ["store", "rc", "0"] =>
      let s := if s.sl = .prepare ∧ s.retry = false then { s with sl := .idle } else s
      if s.sl = .idle then vok { d with s := stepS cfg (startOp s .home) } "home" else (d, "ignored")
  | ["store", "wsz", nw, od] =>
      match nat? nw, nat? od with
      | some nw, some od =>
        if nw = od + 1 then
          if s.sl = .prepare ∧ s.inList = false then vok { d with s := stepS cfg s } "prepare_wait"
          else vfail d s!"sleeper enters the wait set, model: {showS s}"
        else if s.sl = .cancelLk ∧ s.inList then vok { d with s := stepS cfg s } "cancel_wait removes"
        else vfail d s!"sleeper removes its node from the wait set, model: {showS s}"
      | _, _ => (d, "bad-op")
  | ["load", "rc", v] =>
      if s.sl = .predRc then
        if v = showBool s.recalled then vok { d with s := stepS cfg s } s!"pred rc {v}"
        else vfail d s!"wake-up condition reads recalled = {v}, model has {showBool s.recalled}"
      else (d, "ignored")
  | ["load", "mep", v] =>
      match nat? v with
      | none => (d, "bad-op")
      | some v =>
        if s.sl = .commit then
          if v = d.base + s.epoch then vok { d with s := stepS cfg s } s!"commit epoch {v}"
          else vfail d s!"commit_wait reads epoch {v}, model has {d.base + s.epoch}"
        else (d, "ignored")
  | ["fwait"] =>
      if (s.sl = .parked ∨ s.sl = .drain) ∧ s.sem = 0 then vok d "blocks"
      else vfail d s!"sleeper blocks in futex_wait, model: {showS s}"
  | ["end"] =>
      let s := if s.sl = .prepare ∧ s.retry = false then { s with sl := .idle } else s
      if s.sl = .idle then vok { d with s := s } "continuation" else vfail d s!"the suspended code continued, model's thread is at {repr s.sl} ({showS s})"
  | _ => (d, "bad-op")

def notifierEv (cfg : Cfg) (d : VSt) (id : Nat) (ws : List String) : VSt × String :=
  match ws with
  | ["call"] => vok { d with s := { d.s with ns := d.s.ns ++ [{ kind := .resume }] }, ids := d.ids ++ [id] } "resume()"
  | ["recall"] =>
      let j := d.s.ns.length
      let s := { d.s with ns := d.s.ns ++ [{ kind := .recall }] }
      vok { d with s := stepN cfg s j { kind := .recall }, ids := d.ids ++ [id] } "recall_owner"
  | _ =>
    match findLast d id with
    | none => vfail d s!"thread {id} touches the hand-shake words outside resume()"
    | some (j, n) =>
      let s := d.s
      let go := fun (what : String) => vok { d with s := stepN cfg s j n } what
      match ws with
      | ["push"] => if n.pc = .start then go "push" else vfail d s!"resumer pushes, model: {repr n.pc}"
      | ["load", "pool", v] =>
          if n.pc = .tasLoad ∧ v = toString (encPool s.pool) then go s!"tas load {v}"
          else vfail d s!"resumer loads pool = {v}, model: {repr n.pc} pool={showPool s.pool}"
      | ["cas", "pool", e, w, ok] =>
          match nat? e, nat? w, nat? ok with
          | some e, some w, some ok =>
            if n.pc = .tasCasBusy ∧ e = n.seen ∧ ok = bit (s.pool = .busy n.seen) ∧ (if ok = 1 then w = 1 else w = encPool s.pool) then
              go s!"tas cas busy->SET ok={ok}"
            else if n.pc = .tasCasUnset ∧ e = 0 ∧ ok = bit (s.pool = .unset) ∧ (if ok = 1 then w = 1 else w = encPool s.pool) then
              go s!"tas cas UNSET->SET ok={ok}"
            else vfail d s!"resumer CAS({e}->{w}) ok={ok}, model: {repr n.pc} seen={n.seen} pool={showPool s.pool}"
          | _, _, _ => (d, "bad-op")
      | ["load", "wsz", v] =>
          if n.pc = .ntfV then (d, "ignored")      -- my_waitset.remove(): count.load() inside the locked region
          else if n.pc = .ntfEmpty ∧ (v ≠ "0") = (s.inList = true) then go s!"notify: wait set size {v}"
          else vfail d s!"notify reads wait-set size {v}, model: {repr n.pc} inList={showBool s.inList}"
      | ["store", "mep", nw, od] =>
          match nat? nw, nat? od with
          | some nw, some od =>
            if n.pc = .ntfLocked ∧ od = d.base + s.epoch ∧ nw = od + 1 then go "notify: new epoch"
            else vfail d s!"notify stores epoch {od}->{nw}, model: {repr n.pc} epoch={d.base + s.epoch}"
          | _, _ => (d, "bad-op")
      | ["store", "wsz", _, _] =>
          if n.pc = .ntfV then vok d "notify: node removed" else vfail d s!"notifier removes a node, model: {repr n.pc}"
      | ["fwake"] => if n.pc = .ntfV then go "V" else (d, "ignored")
      | ["ret"] =>
          let s := if n.pc = .ntfV then stepN cfg s j n else s
          match s.ns[j]? with
          | some n' =>
              if n'.pc = .done then vok { d with s := s } "returned"
              else vfail d s!"resume() returned, the model's resumer is at {repr n'.pc} (it still has to advertise / notify)"
          | none => (d, "bad-op")
      | _ => (d, "bad-op")

/-- Protocol: `init <pool> <stream> <epoch>` | `S <event>` | `N <id> <event>` | `end` -/
def vdrive (cfg : Cfg) (d : VSt) (ws : List String) : VSt × String :=
  match ws with
  | ["init", p, st, ep] =>
      match nat? p, nat? st, nat? ep with
      | some p, some st, some ep =>
          ({ s := { pool := if p = 0 then .unset else if p = 1 then .set else .busy p, stream := st }, base := ep }, "ok")
      | _, _, _ => (d, "bad-op")
  | ["end"] =>
      let s := d.s
      (d, s!"summary fail={showBool d.fail.isSome} events={d.n} quiet={showBool (quiet s)} blocked={showBool (blocked s)} " ++
          s!"lost={showBool (blocked s && quiet s && (decide (0 < s.stream) || s.recalled))} {showS s}")
  | "S" :: rest => if d.fail.isSome then (d, "skipped") else sleeperEv cfg d rest
  | "N" :: id :: rest =>
      if d.fail.isSome then (d, "skipped") else
      match nat? id with
      | some id => notifierEv cfg d id rest
      | none => (d, "bad-op")
  | _ => (d, "bad-op")

def vdriver (cfg : Cfg) : Proto.Driver := { σ := VSt, init := {}, step := vdrive cfg }

end TbbVerif.C20.Sleep
