/-
C17 — tbbmalloc BACK-REFERENCE table (src/tbbmalloc/backref.cpp): executable model, core Lean only.

State = the code's words: `lastUsed` (= number of registered leaves - 1), `backRefBl[]`, `active`, `listForUse`, and per
leaf (`BackRefBlock`) the slot words, the head of the free list (`freeList`, a pointer to a slot or null; the list is
threaded THROUGH the slot words), `bumpPtr`, `allocatedCount`, `addedToForUse`.  Addresses are kept as numbers (the leaf's
base address is part of the leaf) because a freed slot holds a pointer to the next free slot, and `getBackRef` of a stale
index returns exactly that word.  Ghost: per leaf the list of free offsets (what the chain through the words should be).
One model step per operation (`newBackRef`, `setBackRef`, `getBackRef`, `removeBackRef` are serialised by `blockMutex` /
`mainMutex` in the code; `getBackRef` is lock-free but reads one word).
Environment: raw memory for new leaves (`requestNewSpace`).
-/
import TbbVerif.Core.Sched
import TbbVerif.Core.Proto
import TbbVerif.Generated.C17Backend

namespace TbbVerif.C17.BR
open TbbVerif.Generated.C17Backend

structure Idx where
  main : Nat
  off : Nat
  large : Bool
  deriving DecidableEq, Repr

def Idx.invalid : Idx := ⟨brInvalidMain, 0, false⟩

structure Leaf where
  base : Nat
  /-- slot words, `brMaxCnt` of them -/
  slots : List Nat
  /-- `freeList`: address of a slot, 0 = null -/
  freeHead : Nat
  /-- `bumpPtr` as a slot offset (`-1`: one word below the first slot, i.e. inside the leaf header); `none`: null -/
  bump : Option Int
  cnt : Nat
  added : Bool
  /-- ghost: offsets on the free list, head first -/
  free : List Nat
  deriving DecidableEq, Repr

structure Tab where
  leaves : List Leaf
  active : Nat
  forUse : List Nat
  /-- the code would have handed out a word of a leaf header, or followed a free-list pointer out of the slot area -/
  bad : Bool := false
  deriving DecidableEq, Repr

def slotAddr (base off : Nat) : Nat := base + brSizeofBackRefBlock + off * 8

/-- offset of the slot a pointer points to (`(toUse - (block + sizeof(BackRefBlock))) / sizeof(void*)`) -/
def slotOff (base addr : Nat) : Nat := (addr - (base + brSizeofBackRefBlock)) / 8

def emptyLeaf (base : Nat) : Leaf :=
  { base := base, slots := List.replicate brMaxCnt 0, freeHead := 0, bump := some ((brMaxCnt : Int) - 1), cnt := 0, added := false, free := [] }

def Tab.lastUsed (t : Tab) : Int := (t.leaves.length : Int) - 1

/-- the bounds test of `getBackRef` (main table present): `true` = return nullptr -/
def getBackRefReject (lastUsed : Int) (main off : Nat) : Bool := decide ((main : Int) > lastUsed) || decide (off ≥ brMaxCnt)

/-- the word `getBackRef(idx)` reads: `(leaf number, byte offset inside the leaf)`; `none`: rejected by the bounds test -/
def getBackRefAccess (t : Tab) (i : Idx) : Option (Nat × Nat) :=
  if getBackRefReject t.lastUsed i.main i.off then none else some (i.main, brSizeofBackRefBlock + i.off * 8)

/-- `getBackRef(idx)`: 0 = nullptr -/
def getBackRef (t : Tab) (i : Idx) : Nat :=
  match getBackRefAccess t i with
  | none => 0
  | some (l, _) => match t.leaves[l]? with
    | some lf => lf.slots.getD i.off 0
    | none => 0

/-- a slot that is handed out now: not on the free list and above the bump pointer -/
def Leaf.allocated (l : Leaf) (off : Nat) : Bool :=
  off < brMaxCnt && !l.free.contains off && (match l.bump with | some b => (off : Int) > b | none => true)

def Tab.live (t : Tab) (i : Idx) : Bool :=
  match t.leaves[i.main]? with
  | some l => l.allocated i.off
  | none => false

/-- `setBackRef(idx, ptr)` (only for an index that is handed out: anything else is not a legal request) -/
def setBackRef (t : Tab) (i : Idx) (v : Nat) : Option Tab :=
  if !t.live i then none else
  match t.leaves[i.main]? with
  | some l => some { t with leaves := t.leaves.set i.main { l with slots := l.slots.set i.off v } }
  | none => none

/-- `BackRefMain::addToForUseList` -/
def addToForUse (t : Tab) (n : Nat) : Tab :=
  match t.leaves[n]? with
  | some l => { t with forUse := n :: t.forUse, leaves := t.leaves.set n { l with added := true } }
  | none => t

/-- `removeBackRef(idx)` -/
def removeBackRef (t : Tab) (i : Idx) : Option Tab :=
  if !t.live i then none else
  match t.leaves[i.main]? with
  | none => none
  | some l =>
    let l' : Leaf := { l with slots := l.slots.set i.off l.freeHead, freeHead := slotAddr l.base i.off, cnt := l.cnt - 1, free := i.off :: l.free }
    let t := { t with leaves := t.leaves.set i.main l' }
    some (if !l'.added && i.main ≠ t.active then addToForUse t i.main else t)

/-- the loop of `requestNewSpace` that registers the new leaves: the first one becomes the active leaf if the active
leaf is full, the others go to `listForUse` -/
def addLeaves (t : Tab) : Nat → Nat → Tab
  | 0, _ => t
  | k + 1, a =>
    let n := t.leaves.length
    let t := { t with leaves := t.leaves ++ [emptyLeaf a] }
    let actFull := match t.leaves[t.active]? with | some l => l.cnt == brMaxCnt | none => false
    let t := if actFull then { t with active := n } else addToForUse t n
    addLeaves t k (a + brBlockBytes)

/-- `BackRefMain::requestNewSpace()`; `raw`: address of the new 64K of leaves (`none`: no memory) -/
def requestNewSpace (t : Tab) (raw : Option Nat) : Tab × Bool × Nat :=
  if (brDataSz : Int) ≤ t.lastUsed + 1 then (t, false, 0)
  else if !t.forUse.isEmpty then (t, true, 0)
  else match raw with
    | none => (t, false, 1)
    | some addr =>
      let numUnused := brDataSz - t.leaves.length
      let blocksToUse := min numUnused (brBlockSpaceSize / brBlockBytes)
      (addLeaves t blocksToUse addr, true, 1)

/-- `BackRefMain::findFreeBlock()`: the leaf to allocate from -/
def findFreeBlock (t : Tab) (raw : Option Nat) : Tab × Option Nat × Nat :=
  match t.leaves[t.active]? with
  | none => (t, none, 0)
  | some a =>
    if a.cnt < brMaxCnt then (t, some t.active, 0)
    else match t.forUse with
      | n :: rest =>
        match t.leaves[n]? with
        | some l => let t := { t with active := n, forUse := rest, leaves := t.leaves.set n { l with added := false } }
                    (t, some n, 0)
        | none => (t, none, 0)
      | [] =>
        let (t, ok, used) := requestNewSpace t raw
        if ok then (t, some t.active, used) else (t, none, used)

/-- the locked section of `newBackRef`: a slot of the leaf — from its free list, else from the bump pointer.
`(offset, leaf after, ok)`; `ok = false`: the code would have handed out a word that is not a slot of this leaf -/
def leafPick (l : Leaf) : Option (Nat × Leaf × Bool) :=
  if l.freeHead ≠ 0 then
    let off := slotOff l.base l.freeHead
    -- a pointer that is not a slot of this leaf: the code would read / hand out foreign memory
    let ok := decide (slotAddr l.base off = l.freeHead) && decide (off < brMaxCnt)
    some (off, { l with freeHead := l.slots.getD off 0, free := l.free.drop 1 }, ok)
  else if l.cnt < brMaxCnt then
    match l.bump with
    | some b => some (b.toNat, { l with bump := if l.cnt = brMaxCnt - 1 then none else some (b - 1) }, decide (0 ≤ b))
    | none => none
  else none

/-- the `do … while (!toUse)` loop of `newBackRef` -/
def newLoop (large : Bool) : Nat → Tab → List (Option Nat) → Nat → Tab × Option Idx × Nat
  | 0, t, _, used => (t, none, used)
  | fuel + 1, t, raws, used =>
    let (t, blk, u) := findFreeBlock t raws.head?.join
    let raws := raws.drop u
    let used := used + u
    match blk with
    | none => (t, none, used)
    | some n =>
      match t.leaves[n]? with
      | none => (t, none, used)
      | some l =>
        -- the block is locked to find a reference
        match leafPick l with
        | none => newLoop large fuel t raws used
        | some (off, l', ok) =>
          let t := if ok then t else { t with bad := true }
          let lastBlockFirstUsed := l.cnt == 0 && t.forUse.isEmpty
          let t := { t with leaves := t.leaves.set n { l' with cnt := l.cnt + 1 } }
          let (t, used) := if lastBlockFirstUsed then
              let (t, _, u) := requestNewSpace t raws.head?.join
              (t, used + u)
            else (t, used)
          (t, some ⟨n, off, large⟩, used)

/-- `BackRefIdx::newBackRef(largeObj)`; `raws`: answers of the raw allocator, in call order -/
def newBackRef (t : Tab) (large : Bool) (raws : List (Option Nat)) : Tab × Option Idx × Nat :=
  newLoop large 4 t raws 0

/-- `initBackRefMain`: four leaves behind the main table; leaf 0 active, the others on `listForUse` -/
def initTab (mainAddr : Nat) : Tab :=
  let leaf (i : Nat) := emptyLeaf (mainAddr + brMainBytes + i * brBlockBytes)
  let t : Tab := { leaves := [leaf 0, leaf 1, leaf 2, leaf 3], active := 0, forUse := [] }
  addToForUse (addToForUse (addToForUse t 1) 2) 3

/-! ### recognising a pointer (`isLargeObject`, `isSmallObject` of frontend.cpp) -/

/-- what the code reads in front of / at the start of a candidate object: `(memoryBlock, backRefIdx)` of a
`LargeObjectHdr`, the `backRefIdx` of a `Block` header -/
structure Mem where
  hdr : Nat → Nat × Idx
  slabIdx : Nat → Idx

/-- `isLargeObject<ourMem>(object)` -/
def isLargeObject (t : Tab) (m : Mem) (p : Nat) : Bool :=
  p % beLargeObjectAlignment == 0 &&
    (let h := p - beSizeofLargeObjectHdr
     let (mb, idx) := m.hdr h
     idx.large && mb != 0 && decide (mb < h) && getBackRef t idx == h)

/-- `isSmallObject(ptr)` -/
def isSmallObject (t : Tab) (m : Mem) (p : Nat) : Bool :=
  let b := p / beSlabSize * beSlabSize
  getBackRef t (m.slabIdx b) == b

/-! ### operations -/

inductive Op where
  | new (large : Bool) (raws : List (Option Nat))
  | set (i : Idx) (v : Nat)
  | rm (i : Idx)
  deriving Repr

def step (t : Tab) : Op → Tab × Option Idx
  | .new large raws => let (t', r, _) := newBackRef t large raws; (t', r)
  | .set i v => match setBackRef t i v with
    | some t' => (t', none)
    | none => (t, none)
  | .rm i => match removeBackRef t i with
    | some t' => (t', none)
    | none => (t, none)

def machine (mainAddr : Nat) : Mach Tab Op (Option Idx) := { init := initTab mainAddr, step := step }

end TbbVerif.C17.BR
