/-
C20 — `Pool`: the dispatchers of ONE arena, its threads, the coroutine cache and the post-resume actions
(src/tbb/task.cpp `suspend` / `internal_suspend` / `create_coroutine` / `task_dispatcher::resume` /
`do_post_resume_action`, task_dispatcher.cpp `co_local_wait_for_all`, task_dispatcher.h `resume_task::execute` /
`recall_point` / `get_self_recall_task`, scheduler_common.h `suspend_point_type::resume` / `finilize_resume`,
arena.h `arena_co_cache`, thread_data.h `my_post_resume_action` / `my_post_resume_arg`, thread_control_monitor.h
`resume_node::notify`).

Every dispatcher `d` carries a complete `SuspendPoint` core (`Model/C20.lean`: `m_stack_state`, `m_is_owner_recalled`,
the resume task, who is on the stack / leaving it / about to continue it); the pool adds what is BETWEEN the suspend
points: which dispatcher each thread is attached to (`td->my_task_dispatcher`), the target and the previous dispatcher
of a switch in progress (`m_prev_suspend_point`), the thread's `my_post_resume_action` / `my_post_resume_arg`, the ring
buffer of the co-cache, the arena references held for coroutines, destroyed dispatchers, the nesting level of dispatch
loops per dispatcher (`m_properties.outermost` = level 0), `m_properties.critical_task_allowed`, and the notification
counter of a `resume_node` (register_waiter).  Every pool step applies the core's own step functions to at most two
cores, so the projection of a pool run onto one dispatcher is a run of the `SuspendPoint` model.

Slot threads are `0 .. nt-1`; thread `t`'s slot has the default dispatcher `t` (`owner = some t`); dispatchers `≥ nt`
are coroutines (`owner = none`), created on demand; threads `≥ nt` are foreign (they can only call `resume`).

A switch, as the code performs it (one model step per line; `frX` repeats while the leaver still has to notify / push):

  cb      tbb::task::suspend: the callback runs with the suspend point of `cur`            (user suspension only)
  sel     internal_suspend: `default.m_is_owner_recalled.load(acquire)` → target = default dispatcher, else
  pop     create_coroutine: `my_co_cache.pop()`, or a new dispatcher; `my_references += ref_external`
  sw      task_dispatcher::resume(target): detach, attach, `target.m_prev_suspend_point = this`, swap context
  frA     ON THE NEW STACK  finilize_resume: `m_stack_state.store(active)`
  frX                       `prev.m_stack_state.exchange(suspended)` [== notified → r1::resume(prev): exchange, push]
  act     do_post_resume_action: register_waiter → `resume_node::notify()`; cleanup → release the reference and
          `my_co_cache.push(arg)` (the replaced entry is destroyed); notify → `arg.recall_owner()` + monitor notify;
          then `clear_post_resume_action()`
  fin     `this == default` → `m_is_owner_recalled.store(false)`; back in internal_suspend at the outermost level on a
          dispatcher that is not the thread's own → recall_point (action notify, internal_suspend again)

The action is chosen BEFORE the switch by the code that leaves: none (user suspension), cleanup (a coroutine's bottom
loop got a resume task: `co_local_wait_for_all`), notify (a worker's outermost loop got a resume task; `recall_point`),
register_waiter (a nested loop with a wait context got a resume task: the stack is abandoned until its wait completes).

`Skel` holds the facts regenerated from the source on every run (Generated/C20.lean `poolSkel`).  Executable, core Lean.
-/
import TbbVerif.Model.C20
import TbbVerif.Model.C20Ring

namespace TbbVerif.C20.Pool

open TbbVerif.C20

abbrev DId := Nat

def upd {α : Type} (f : Nat → α) (i : Nat) (v : α) : Nat → α := fun j => if j = i then v else f j

/-- statement-order / guard facts extracted from the source text -/
structure Skel where
  popClears : Bool            -- arena_co_cache::pop stores nullptr into the slot whose content it returns
  finalizeFirst : Bool        -- finilize_resume() precedes do_post_resume_action() on the new stack (both entry points)
  recallChecked : Bool        -- internal_suspend goes back to the default dispatcher iff its m_is_owner_recalled is set
  actionBeforeSwitch : Bool   -- set_post_resume_action(...) precedes the switch in every function that sets one
  clearsAction : Bool         -- do_post_resume_action ends with clear_post_resume_action()
  cleanupCaches : Bool        -- the cleanup action pushes its argument into the co-cache (after releasing the reference)
  recallPointGuard : Bool     -- recall_point acts iff `this != default dispatcher`; called after outermost loops and in internal_suspend
  xchgThenPush : Bool         -- r1::resume publishes the resume task only if try_notify_resume's exchange returned `suspended`
  selfRecallChecked : Bool    -- get_self_recall_task returns the default dispatcher's resume task iff m_is_owner_recalled
  deriving DecidableEq, Repr

def Skel.ok (k : Skel) : Bool :=
  k.popClears && k.finalizeFirst && k.recallChecked && k.actionBeforeSwitch && k.clearsAction && k.cleanupCaches &&
  k.recallPointGuard && k.xchgThenPush && k.selfRecallChecked

def asCoded : Skel := ⟨true, true, true, true, true, true, true, true, true⟩

/-- `task_dispatcher::post_resume_action` (numeric values checked against Generated/C20.lean) -/
inductive Act where
  | invalid | registerWaiter | cleanup | notify | none
  deriving DecidableEq, Repr

def Act.enc : Act → Nat
  | .invalid => 0 | .registerWaiter => 1 | .cleanup => 2 | .notify => 3 | .none => 4

inductive Pc where
  | idle | cb | sel | pop | sw | frA | frX | act | fin
  deriving DecidableEq, Repr

/-- who has called `notify()` on the `resume_node` registered for a dispatcher (`my_notify_calls`) -/
inductive WSt where
  | none | reg0 | regA | regM
  deriving DecidableEq, Repr

structure Thr where
  worker : Bool := false
  inA : Bool := false
  cur : DId := 0
  pc : Pc := .idle
  tgt : DId := 0
  prv : DId := 0
  act : Act := .none
  arg : DId := 0
  pushing : Option DId := none
  setLog : List (Act × DId) := []     -- (action, argument) in force at each switch, newest first
  runLog : List (Act × DId) := []     -- (action, argument) executed after each switch, newest first
  deriving Repr, DecidableEq

inductive Op where
  | suspend | cbReturn
  | resume (d : DId)
  | take (d : DId) (waitDone : Bool)   -- the dispatch loop got d's resume task (d = own default: the self-recall task);
                                       -- waitDone: on the register_waiter path the nested wait is already complete
  | enterLoop | exitLoop
  | critBegin | critEnd
  | waitDone (d : DId)                 -- the monitor notifies the resume_node registered for d (its wait completed)
  | leaveArena | enterArena
  | arenaCleanup
  deriving Repr, DecidableEq

structure PSt where
  sp : DId → Core := fun _ => {}
  nd : Nat := 0
  nt : Nat := 0
  thr : Tid → Thr := fun _ => {}
  ring : Ring.R := Ring.init 1
  refH : List DId := []                 -- coroutines holding an arena reference (`ref_external` of create_coroutine)
  dead : DId → Bool := fun _ => false
  lvl : DId → Nat := fun _ => 0         -- dispatch loops entered on the dispatcher (0: `m_properties.outermost`)
  crit : DId → Bool := fun _ => false   -- `!m_properties.critical_task_allowed`
  critAt : DId → Bool := fun _ => false -- ghost: `crit` when the dispatcher was left
  critQ : DId → Bool := fun _ => false  -- the published resume task went into the critical stream
  handed : DId → Bool := fun _ => false -- the suspend point is in the user's hands (suspend callback ran, resume not yet called)
  wst : DId → WSt := fun _ => .none
  freed : Bool := false
  err : Option String := none
  cacheErr : Bool := false              -- `my_co_cache.pop()` handed out a dispatcher that is not an idle cached one

def setSp (s : PSt) (d : DId) (c : Core) : PSt := { s with sp := upd s.sp d c }
def setThr (s : PSt) (t : Tid) (th : Thr) : PSt := { s with thr := upd s.thr t th }

structure PRes where
  s : PSt
  o : Outcome
  lab : String

def fail (s : PSt) (why : String) : PRes := ⟨{ s with err := some why }, .stay, "ERR " ++ why⟩

def kindOf : Act → Kind
  | .cleanup => .park
  | .notify => .recall
  | _ => .user

def showAct : Act → String
  | .invalid => "invalid" | .registerWaiter => "register_waiter" | .cleanup => "cleanup" | .notify => "notify" | .none => "none"

/-- the core step of `r1::resume` called by thread `t` (on the stack inside the callback, or anywhere else) -/
def resumeCore (c : Core) (t : Tid) : C20.Res :=
  if c.stk = some t then stepStk c t (some .resume) else opResume c t

/-- `r1::resume(sp d)` by thread `t` up to `try_notify_resume`'s exchange; `none`: the core rejects the call (API misuse) -/
def doResume (s : PSt) (t : Tid) (d : DId) : Option (PSt × String) :=
  let r := resumeCore (s.sp d) t
  if r.o = .misuse ∨ ¬ d < s.nd then none else
  some (if r.c.rs = some t then setThr (setSp s d r.c) t { s.thr t with pushing := some d } else setSp s d r.c,
        s!"{d} {showEv r.ev}")

/-- publication of the resume task by a thread inside `r1::resume` -/
def stepPush (s : PSt) (t : Tid) (d : DId) : PRes :=
  if (s.sp d).rs = some t ∧ d < s.nd then
    let s1 := setSp { s with critQ := upd s.critQ d (s.crit d) } d { (pushTask (s.sp d) false) with rs := none }
    ⟨setThr s1 t { s.thr t with pushing := none }, .stay, s!"{d} push"⟩
  else fail s s!"thread {t} is to publish the resume task of {d} but is not its pending pusher"

/-- a user-level `tbb::task::resume(sp)` -/
def userResume (s : PSt) (t : Tid) (d : DId) : PRes :=
  if d < s.nd ∧ s.dead d = false ∧ s.handed d = true then
    match doResume s t d with
    | some (s1, lab) => ⟨{ s1 with handed := upd s1.handed d false }, .pop, lab⟩
    | none => ⟨s, .misuse, "reject"⟩
  else ⟨s, .misuse, "reject"⟩

/-- which post-resume action the code that found a resume task in the dispatch loop of `cur` sets -/
def branch (s : PSt) (cur : DId) : Act :=
  if cur < s.nt then (if (s.thr cur).worker && s.lvl cur == 1 then .notify else .registerWaiter)
  else (if s.lvl cur == 0 then .cleanup else .registerWaiter)

/-- the core of the stack that `register_waiter` abandons: it becomes a (runtime-internal) handed-out suspend point;
`wd`: the nested wait is already complete, so the leaving thread calls `r1::resume` on its own suspend point at once
(`clear_post_resume_action(); r1::resume(get_suspend_point())`) -/
def regCore (c : Core) (t : Tid) (wd : Bool) : Option (Core × String) :=
  let r1 := stepStk c t (some .suspend)
  if r1.o = .misuse then none else
  if wd then
    let r2 := stepStk r1.c t (some .resume)
    if r2.o = .misuse then none else some (r2.c, showEv r2.ev)
  else some (r1.c, "-")

def doTake (s : PSt) (t : Tid) (d : DId) (wd : Bool) : PRes :=
  let th := s.thr t
  let cur := th.cur
  if d = cur ∨ ¬ d < s.nd ∨ s.dead d = true ∨ (cur < s.nt ∧ s.lvl cur = 0) ∨ (s.sp cur).stk ≠ some t ∨ (s.sp d).stk = some t ∨
     (s.sp d).tk = some t ∨ ¬ cur < s.nd then
    ⟨s, .misuse, "reject"⟩ else
  let r := opTake (s.sp d) t
  if r.o ≠ .pop then ⟨s, .stay, "-"⟩ else
  let s1 := setSp s d r.c
  match branch s cur with
  | .registerWaiter =>
      match regCore (s.sp cur) t wd with
      | none => fail s "register_waiter on a stack that is inside suspend"
      | some (c', lab) =>
          if wd then
            ⟨setThr (setSp s1 cur c') t { th with tgt := d, pc := .sw }, .pop, s!"take {d} self-resume ; {cur} {lab}"⟩
          else
            ⟨setThr (setSp { s1 with wst := upd s1.wst cur .reg0 } cur c') t
               { th with tgt := d, act := .registerWaiter, arg := cur, pc := .sw }, .pop, s!"take {d} register_waiter"⟩
  | a => ⟨setThr s1 t { th with tgt := d, act := a, arg := cur, pc := .sw }, .pop, s!"take {d} {showAct a}"⟩

def allOut (s : PSt) : Bool := (List.range s.nt).all (fun t => !(s.thr t).inA)

/-- operations of a slot thread that is in the arena, at `idle` (in a dispatch loop or in a task body on `cur`) -/
def stepIdle (sk : Skel) (s : PSt) (t : Tid) (op : Op) : PRes :=
  let th := s.thr t
  let cur := th.cur
  match op with
  | .suspend =>
      let r := stepStk (s.sp cur) t (some .suspend)
      if r.o = .misuse ∨ (s.sp cur).stk ≠ some t ∨ ¬ cur < s.nd then ⟨s, .misuse, "reject"⟩ else
      ⟨setThr (setSp { s with handed := upd s.handed cur true } cur r.c) t { th with pc := .cb }, .pop, s!"cb {cur}"⟩
  | .resume d => userResume s t d
  | .take d wd => doTake s t d wd
  | .enterLoop =>
      if (s.sp cur).stk = some t then ⟨{ s with lvl := upd s.lvl cur (s.lvl cur + 1) }, .pop, "enter"⟩ else ⟨s, .misuse, "reject"⟩
  | .exitLoop =>
      if s.lvl cur = 0 ∨ (s.sp cur).stk ≠ some t then ⟨s, .misuse, "reject"⟩ else
      let s1 := { s with lvl := upd s.lvl cur (s.lvl cur - 1) }
      -- local_wait_for_all: `if (dl_guard.old_properties.outermost) recall_point();`
      if sk.recallPointGuard && decide (s.lvl cur = 1) && decide (cur < s.nt) && decide (cur ≠ t) then
        ⟨setThr s1 t { th with act := .notify, arg := cur, pc := .sel }, .pop, s!"exit recall_point {cur}"⟩
      else ⟨s1, .pop, "exit"⟩
  | .critBegin =>
      if (s.sp cur).stk = some t then ⟨{ s with crit := upd s.crit cur true }, .pop, "crit 1"⟩ else ⟨s, .misuse, "reject"⟩
  | .critEnd =>
      if (s.sp cur).stk = some t then ⟨{ s with crit := upd s.crit cur false }, .pop, "crit 0"⟩ else ⟨s, .misuse, "reject"⟩
  | .leaveArena =>
      if cur = t ∧ s.lvl cur = 0 then ⟨setThr s t { th with inA := false }, .pop, "leave-arena"⟩ else ⟨s, .misuse, "reject"⟩
  | _ => ⟨s, .misuse, "reject"⟩

/-- the monitor's notification of the `resume_node` registered for `d` (any thread) -/
def doWaitDone (s : PSt) (t : Tid) (d : DId) : PRes :=
  match s.wst d with
  | .reg0 => ⟨{ s with wst := upd s.wst d .regM }, .pop, s!"wnotify {d} 0"⟩
  | .regA =>
      match doResume { s with wst := upd s.wst d .none } t d with
      | some (s1, lab) => ⟨s1, .pop, s!"wnotify {d} 1 ; {lab}"⟩
      | none => fail s s!"resume_node of {d}: r1::resume rejected"
  | _ => ⟨s, .misuse, "reject"⟩

/-- operations of a thread that is not in the arena (foreign, or a slot thread that left) -/
def stepOut (sk : Skel) (s : PSt) (t : Tid) (op : Op) : PRes :=
  match op with
  | .resume d => userResume s t d
  | .waitDone d => doWaitDone s t d
  | .enterArena =>
      if t < s.nt ∧ (s.thr t).inA = false then ⟨setThr s t { s.thr t with inA := true }, .pop, "enter-arena"⟩ else ⟨s, .misuse, "reject"⟩
  | .arenaCleanup =>
      -- free_arena: `my_co_cache.cleanup()` (and the slots' default dispatchers are destroyed with the arena)
      if s.refH = [] ∧ allOut s = true then
        let (r', l) := Ring.cleanup sk.popClears s.ring
        ⟨{ s with ring := r', dead := fun d => s.dead d || l.contains d, freed := true }, .pop, "cleanup " ++ " ".intercalate (l.map toString)⟩
      else ⟨s, .misuse, "reject"⟩
  | _ => ⟨s, .misuse, "reject"⟩

/-- inside the suspend callback -/
def stepCb (s : PSt) (t : Tid) (op : Op) : PRes :=
  let th := s.thr t
  match op with
  | .resume d => userResume s t d
  | .waitDone d => doWaitDone s t d
  | .cbReturn => ⟨setThr s t { th with pc := .sel }, .pop, "cb-return"⟩
  | _ => ⟨s, .misuse, "reject"⟩

def stepSel (sk : Skel) (s : PSt) (t : Tid) : PRes :=
  let th := s.thr t
  let c := s.sp t
  if sk.recallChecked && c.recalled then
    if th.cur = t ∨ c.stk = some t ∨ c.tk = some t then fail s s!"thread {t} is on its default dispatcher while it is recalled to it" else
    let r := opTake c t
    if r.o = .pop then ⟨setThr (setSp s t r.c) t { th with tgt := t, pc := .sw }, .stay, s!"ldrc {t} 1"⟩
    else fail s s!"recalled default dispatcher {t} cannot be taken by its owner"
  else ⟨setThr s t { th with pc := .pop }, .stay, s!"ldrc {t} {bnat c.recalled}"⟩

def stepPop (sk : Skel) (s : PSt) (t : Tid) : PRes :=
  let th := s.thr t
  let (r', e) := Ring.pop sk.popClears s.ring
  match e with
  | some d =>
      let rr := opReuse (s.sp d) t
      if s.dead d = true ∨ rr.o ≠ .pop ∨ (s.sp d).cached = false then
        fail { s with ring := r', cacheErr := true } s!"pop returned dispatcher {d}, which is not an idle cached dispatcher"
      else
        ⟨setThr (setSp { s with ring := r', refH := d :: s.refH } d rr.c) t { th with tgt := d, pc := .sw }, .stay, s!"pop {d}"⟩
  | none =>
      let d := s.nd
      let rr := opReuse (initCore none) t
      ⟨setThr (setSp { s with nd := s.nd + 1, refH := d :: s.refH, lvl := upd s.lvl d 0, crit := upd s.crit d false, critAt := upd s.critAt d false, critQ := upd s.critQ d false,
                              dead := upd s.dead d false, wst := upd s.wst d .none, handed := upd s.handed d false } d rr.c) t
         { th with tgt := d, pc := .sw }, .stay, s!"create {d}"⟩

def stepSw (_sk : Skel) (s : PSt) (t : Tid) : PRes :=
  let th := s.thr t
  let r := stepStk (s.sp th.cur) t (some (.switch (kindOf th.act)))
  if r.o = .misuse ∨ th.tgt = th.cur ∨ (s.sp th.cur).stk ≠ some t ∨ ¬ th.cur < s.nd then fail s s!"switch away from dispatcher {th.cur} ({showAct th.act}) rejected" else
  ⟨setThr (setSp { s with critAt := upd s.critAt th.cur (s.crit th.cur) } th.cur r.c) t
     { th with prv := th.cur, cur := th.tgt, pc := .frA, setLog := (th.act, th.arg) :: th.setLog }, .stay, s!"att {th.cur} {th.tgt}"⟩

def stepFrA (sk : Skel) (s : PSt) (t : Tid) : PRes :=
  let th := s.thr t
  if (s.sp th.cur).tk = some t then
    let r := stepTk (s.sp th.cur) t
    ⟨setThr (setSp s th.cur r.c) t { th with pc := if sk.finalizeFirst then .frX else .act }, .stay, s!"{th.cur} {showEv r.ev}"⟩
  else fail s s!"thread {t} continues dispatcher {th.cur} without holding it"

def stepFrX (sk : Skel) (s : PSt) (t : Tid) : PRes :=
  let th := s.thr t
  if (s.sp th.prv).lv = some t ∧ (s.sp th.prv).lvPc ≠ .cache ∧ th.prv < s.nd then
    let r := stepLv (s.sp th.prv)
    let s1 := if r.ev = .push then { s with critQ := upd s.critQ th.prv (s.crit th.prv) } else s
    let more := r.c.lv = some t ∧ (r.c.lvPc = .ntf ∨ r.c.lvPc = .push)
    ⟨setThr (setSp s1 th.prv r.c) t { th with pc := if more then .frX else if sk.finalizeFirst then .act else .fin }, .stay,
     s!"{th.prv} {showEv r.ev}"⟩
  else fail s s!"thread {t} finishes leaving dispatcher {th.prv} without being its leaver"

def actDone (sk : Skel) (th : Thr) : Thr :=
  { th with runLog := (th.act, th.arg) :: th.runLog, act := if sk.clearsAction then .none else th.act,
            arg := if sk.clearsAction then 0 else th.arg, pc := if sk.finalizeFirst then .fin else .frX }

def stepAct (sk : Skel) (s : PSt) (t : Tid) : PRes :=
  let th := s.thr t
  let a := th.arg
  match th.act with
  | .cleanup =>
      if (s.sp a).lv = some t ∧ (s.sp a).lvPc = .cache ∧ s.dead a = false ∧ s.nt ≤ a ∧ a < s.nd then
        let r := stepLv (s.sp a)
        if sk.cleanupCaches then
          let (ring', e) := Ring.push s.ring a
          let dead' := match e with | some x => upd s.dead x true | none => s.dead
          ⟨setThr (setSp { s with ring := ring', dead := dead', refH := s.refH.filter (· ≠ a) } a r.c) t (actDone sk th), .stay,
           s!"cache {a} evict {Ring.showO e}"⟩
        else
          ⟨setThr (setSp { s with dead := upd s.dead a true, refH := s.refH.filter (· ≠ a) } a r.c) t (actDone sk th), .stay, s!"destroy {a}"⟩
      else fail s s!"cleanup action of thread {t}: dispatcher {a} has not been left by it (or is not suspended yet)"
  | .notify =>
      if (s.sp a).lv = some t ∧ (s.sp a).lvPc = .rcStore then
        let r := stepLv (s.sp a)
        ⟨setSp s a r.c, .stay, s!"{a} {showEv r.ev}"⟩
      else if (s.sp a).lv = some t ∧ (s.sp a).lvPc = .rcFlag then
        let r := stepLv (s.sp a)
        ⟨setThr (setSp s a r.c) t (actDone sk th), .stay, s!"{a} {showEv r.ev}"⟩
      else fail s s!"notify action of thread {t}: dispatcher {a} has not been left by it (or is not suspended yet)"
  | .registerWaiter =>
      match s.wst a with
      | .reg0 => ⟨setThr { s with wst := upd s.wst a .regA } t (actDone sk th), .stay, s!"wnotify {a} 0"⟩
      | .regM =>
          match doResume { s with wst := upd s.wst a .none } t a with
          | some (s1, lab) => ⟨setThr s1 t (actDone sk (s1.thr t)), .stay, s!"wnotify {a} 1 ; {lab}"⟩
          | none => fail s s!"register_waiter action: r1::resume({a}) rejected"
      | _ => fail s s!"register_waiter action of thread {t}: no resume_node registered for {a}"
  | _ => ⟨setThr s t (actDone sk th), .stay, "act none"⟩

def stepFin (sk : Skel) (s : PSt) (t : Tid) : PRes :=
  let th := s.thr t
  let cur := th.cur
  -- internal_suspend continues: `if (m_properties.outermost) recall_point();`
  let th' : Thr := if sk.recallPointGuard && decide (s.lvl cur = 0) && decide (cur < s.nt) && decide (cur ≠ t)
                   then { th with act := .notify, arg := cur, pc := .sel } else { th with pc := .idle }
  if cur = t then
    if (s.sp cur).stk = some t ∧ (s.sp cur).stkPc = .clr then
      let r := stepStk (s.sp cur) t none
      ⟨setThr (setSp s cur r.c) t th', .stay, s!"{cur} {showEv r.ev}"⟩
    else fail s s!"thread {t} is back on its default dispatcher but the core does not expect the flag reset"
  else ⟨setThr s t th', .stay, "fin"⟩

/-- One step of thread `t`; `op` = its next operation (consumed only when the thread is between operations). -/
def stepT (sk : Skel) (s : PSt) (t : Tid) (op : Option Op) : PRes :=
  if s.err.isSome then ⟨s, .stay, "halted"⟩ else
  let th := s.thr t
  match th.pushing with
  | some d => stepPush s t d
  | none =>
    match th.pc with
    | .sel => stepSel sk s t
    | .pop => stepPop sk s t
    | .sw => stepSw sk s t
    | .frA => stepFrA sk s t
    | .frX => stepFrX sk s t
    | .act => stepAct sk s t
    | .fin => stepFin sk s t
    | .cb => match op with
             | none => ⟨s, .stay, "-"⟩
             | some op => stepCb s t op
    | .idle =>
        match op with
        | none => ⟨s, .stay, "-"⟩
        | some op =>
            if s.freed then ⟨s, .misuse, "reject"⟩
            else if t < s.nt ∧ th.inA = true then
              (match op with
               | .waitDone d => doWaitDone s t d
               | op => stepIdle sk s t op)
            else stepOut sk s t op

structure GSt where
  p : PSt := {}
  ops : Tid → List Op := fun _ => []
  mis : Tid → Bool := fun _ => false

def step (sk : Skel) (g : GSt) (t : Tid) : GSt :=
  let r := stepT sk g.p t (g.ops t).head?
  match r.o with
  | .stay => { g with p := r.s }
  | .pop => { g with p := r.s, ops := upd g.ops t (g.ops t).tail }
  | .misuse => { p := r.s, ops := upd g.ops t (g.ops t).tail, mis := upd g.mis t true }

/-- `nt` slot threads (`workers[t]`: thread t is a worker), any number of foreign threads (ids ≥ nt), a co-cache of
`cap` entries (the code: `4 * num_slots`) -/
def initPool (nt cap : Nat) (workers : List Bool) : PSt :=
  { sp := fun d => if d < nt then initCore (some d) else {},
    nd := nt, nt := nt,
    thr := fun t => if t < nt then { cur := t, inA := true, worker := workers.getD t false } else {},
    ring := Ring.init cap }

def sys (sk : Skel) (nt cap : Nat) (workers : List Bool) (progs : List (List Op)) : Sys GSt :=
  { init := { p := initPool nt cap workers, ops := fun t => progs.getD t [] }, step := step sk }

end TbbVerif.C20.Pool
