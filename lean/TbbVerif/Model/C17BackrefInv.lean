/-
C17 — the invariant of the back-reference table model (`Model/C17Backref.lean`) as decidable predicates: stated and
proved for every reachable state in `Props/C17.lean`, evaluated on snapshots of the real table by the driver.
Core Lean only.
-/
import TbbVerif.Model.C17Backref

namespace TbbVerif.C17.BR
open TbbVerif.Generated.C17Backend

/-- the free list threaded through the slot words: `head` points to slot `o₁`, whose word points to slot `o₂`, … -/
def freeChain (base : Nat) (slots : List Nat) : Nat → List Nat → Prop
  | head, [] => head = 0
  | head, o :: rest => head = slotAddr base o ∧ o < brMaxCnt ∧ freeChain base slots (slots.getD o 0) rest

instance (base : Nat) (slots : List Nat) : (head : Nat) → (fr : List Nat) → Decidable (freeChain base slots head fr)
  | head, [] => by unfold freeChain; infer_instance
  | head, o :: rest => by
    unfold freeChain
    have := instDecidableFreeChain base slots (slots.getD o 0) rest
    infer_instance

/-- slots never handed out yet -/
def bumpLeft (l : Leaf) : Nat :=
  match l.bump with
  | some b => (b + 1).toNat
  | none => 0

def leafOK (l : Leaf) : Prop :=
  l.slots.length = brMaxCnt ∧ l.free.Nodup ∧ freeChain l.base l.slots l.freeHead l.free ∧
  (∀ o ∈ l.free, (o : Int) ≥ bumpLeft l) ∧
  bumpLeft l + l.free.length + l.cnt = brMaxCnt ∧
  (match l.bump with | some b => -1 ≤ b ∧ b < brMaxCnt | none => True)

instance (l : Leaf) : Decidable (leafOK l) := by
  unfold leafOK
  cases l.bump <;> infer_instance

def tabOK (t : Tab) : Prop :=
  t.bad = false ∧ t.leaves.length ≤ brDataSz ∧ t.active < t.leaves.length ∧ t.forUse.Nodup ∧
  (∀ n ∈ t.forUse, n < t.leaves.length ∧ n ≠ t.active) ∧
  (∀ l ∈ t.leaves, leafOK l) ∧
  (∀ n, n < t.leaves.length → ((t.leaves.getD n (emptyLeaf 1)).added = true ↔ n ∈ t.forUse))

instance (t : Tab) : Decidable (tabOK t) := by
  unfold tabOK
  have : Decidable (∀ n, n < t.leaves.length → ((t.leaves.getD n (emptyLeaf 1)).added = true ↔ n ∈ t.forUse)) :=
    decidable_of_iff (∀ n ∈ List.range t.leaves.length, ((t.leaves.getD n (emptyLeaf 1)).added = true ↔ n ∈ t.forUse))
      ⟨fun h n hn => h n (List.mem_range.mpr hn), fun h n hn => h n (List.mem_range.mp hn)⟩
  infer_instance

def tabReport (t : Tab) : List String :=
  (if t.bad then ["bad"] else []) ++
  (if decide (t.leaves.length ≤ brDataSz ∧ t.active < t.leaves.length) then [] else ["leaf count / active leaf out of range"]) ++
  (if decide (t.forUse.Nodup ∧ ∀ n ∈ t.forUse, n < t.leaves.length ∧ n ≠ t.active) then [] else ["listForUse holds a leaf twice / the active leaf / an unknown leaf"]) ++
  ((List.range t.leaves.length).zip t.leaves).filterMap (fun (p : Nat × Leaf) =>
    if decide (leafOK p.2) then none else some s!"leaf {p.1}: free list / bump pointer / allocatedCount inconsistent") ++
  (if decide (∀ n ∈ List.range t.leaves.length, ((t.leaves.getD n (emptyLeaf 1)).added = true ↔ n ∈ t.forUse)) then [] else ["addedToForUse flags do not match listForUse"])

end TbbVerif.C17.BR
