/-
C17 — validation of snapshots of the REAL back end and back-reference table (walked by `harness/c17/be.cpp` after
scalable_* operations) against the invariants the theorems are about: the snapshot lines are parsed into model states
and `WF` / `tabOK` are evaluated (`check` prints `ok` or the violated clauses).
-/
import TbbVerif.Model.C17BackendDrv
import TbbVerif.Model.C17BackrefDrv
import TbbVerif.Model.C17BackrefInv

namespace TbbVerif.C17.Snap
open TbbVerif.Generated.C17Backend
open TbbVerif.Proto
open TbbVerif.C17

structure Acc where
  regions : List BE.Region := []
  bins : List BE.Entry := []
  mask : List (Bool × Nat) := []
  queue : List Nat := []
  tab : BR.Tab := { leaves := [], active := 0, forUse := [] }
  haveTab : Bool := false
  err : List String := []

def parseBlock (rtype : Nat) (w : String) : Option BE.Blk :=
  match w.splitOn ":" with
  | [_, sz, "F", mb, al, my, lf] =>
    match nat? sz, int? mb, nat? al, nat? my, nat? lf with
    | some sz, some mb, some al, some my, some lf =>
      some { size := sz, own := .free, myL := my, leftL := lf, myBin := mb, aligned := al != 0 }
    | _, _, _, _, _ => none
  | [_, sz, "Q", al, my, lf] =>
    match nat? sz, nat? al, nat? my, nat? lf with
    | some sz, some al, some my, some lf => some { size := sz, own := .queued, myL := my, leftL := lf, sizeTmp := sz, aligned := al != 0 }
    | _, _, _, _ => none
  | [_, sz, k, my, lf] =>
    match nat? sz, nat? my, nat? lf with
    | some sz, some my, some lf =>
      let sl := decide (rtype = beRegSlab)
      if k = "U" then some { size := sz, own := .user sl, myL := my, leftL := lf }
      else if k = "C" then some { size := sz, own := .coal sl, myL := my, leftL := lf, sizeTmp := sz }
      else if k = "L" then some { size := sz, own := .last, myL := my, leftL := lf }
      else none
    | _, _, _ => none
  | _ => none

def step (a : Acc) (ws : List String) : Acc × String :=
  match ws with
  | "R" :: base :: alloc :: bsz :: ty :: first :: "|" :: blocks =>
    match nats? [base, alloc, bsz, ty, first] with
    | some [base, alloc, bsz, ty, first] =>
      match (blocks.filter (· ≠ "BROKEN")).mapM (parseBlock ty) with
      | some bs => ({ a with regions := a.regions ++ [{ base := base, allocSz := alloc, blockSz := bsz, type := ty, first := first, blocks := bs }] }, "")
      | none => ({ a with err := a.err ++ ["unreadable R line"] }, "")
    | _ => ({ a with err := a.err ++ ["unreadable R line"] }, "")
  | "B" :: al :: bin :: ":" :: addrs =>
    match nat? al, nat? bin, nats? addrs with
    | some al, some bin, some addrs => ({ a with bins := a.bins ++ addrs.map (fun x => ⟨al != 0, bin, x⟩) }, "")
    | _, _, _ => ({ a with err := a.err ++ ["unreadable B line"] }, "")
  | "M" :: al :: ":" :: bits =>
    match nat? al, nats? bits with
    | some al, some bits => ({ a with mask := a.mask ++ bits.map (fun b => (al != 0, b)) }, "")
    | _, _ => ({ a with err := a.err ++ ["unreadable M line"] }, "")
  | "Q" :: ":" :: qs =>
    ({ a with queue := qs.filterMap (fun w => (w.splitOn ":").head?.bind nat?) }, "")
  | "T" :: _ :: act :: ":" :: fu =>
    match nat? act, nats? fu with
    | some act, some fu => ({ a with tab := { a.tab with active := act, forUse := fu }, haveTab := true }, "")
    | _, _ => ({ a with err := a.err ++ ["unreadable T line"] }, "")
  | "L" :: rest =>
    match BR.parseLeaf ("L" :: rest) with
    | some l => ({ a with tab := { a.tab with leaves := a.tab.leaves ++ [l] } }, "")
    | none => ({ a with err := a.err ++ ["unreadable L line"] }, "")
  | ["check"] =>
    let s : BE.St := { g := { cfg := { fixedPool := false, keepAll := false, granularity := 4096 }, bins := a.bins, mask := a.mask, queue := a.queue },
                       regions := a.regions }
    let rep := a.err ++ BE.wfReport s ++ (if a.haveTab then BR.tabReport a.tab else [])
    ({}, if rep.isEmpty then "ok" else "NOTWF " ++ "; ".intercalate rep)
  | _ => (a, "")

def driver : Proto.Driver := { σ := Acc, init := {}, step := step }

end TbbVerif.C17.Snap
