/-
C08 — `Rtm`: tbb::speculative_spin_rw_mutex = rtm_rw_mutex (src/tbb/rtm_rw_mutex.cpp over include/oneapi/tbb/detail/_rtm_rw_mutex.h).
Executable, core Lean only.

The mutex is a spin_rw_mutex (`m_state`, modelled by `RwWord` of Model/C08.lean, re-used here access by access) plus the word
`write_flag`.  A scoped_lock is in one of the code's states not_in_mutex / transacting_reader / transacting_writer /
real_reader / real_writer.

REAL (non-speculative) paths, one model step per atomic access, in the order of the source:
  acquire writer   m.lock() … ; write_flag.store(true)            acquire reader   m.lock_shared() …
  try writer       m.try_lock() … ; [ok] write_flag.store(true)    try reader       m.try_lock_shared() …
  release writer   write_flag.store(false) ; m.unlock()            release reader   m.unlock_shared()
  upgrade          m.upgrade() … ; write_flag.store(true)          downgrade        write_flag.store(false) ; m.downgrade()
SPECULATIVE paths, abstractly (Intel RTM): outside the transaction the thread waits until the word it will subscribe to is
free (`write_flag` for a reader, `m_state` for a writer), `begin` starts a transaction, inside it the thread reads that word —
non-zero: explicit abort; zero: the word joins the read set (`subF` / `subW`) and the call returns, the thread now holds the
lock speculatively.  A transaction is aborted by ANY write of another thread to a word of its read set (done eagerly by the
writing step), by its own explicit abort, or spontaneously (schedule entry `2*t+1`); an abort discards everything since
`begin`: the thread is back in its acquire call (`ops := saved`), with one speculation attempt less (`spec` counter of the
operation; 0 = take the real path).  release of a speculative holder = `end_transaction()` (commit), no store.
upgrade of a transacting reader reads `m_state` inside the transaction: zero → transacting writer; non-zero → commit,
then acquire_writer, result false.  downgrade of a transacting writer only changes the scoped_lock's state.

Schedule entry `2*t` = thread t performs its next step.  Ghost: `held` (0 none / 1 real reader / 2 real writer: from the
returning access of acquire / try / upgrade to the first access of release / upgrade; a downgrading writer counts as a reader
from its first access), `txm` (0 / 1 transacting reader / 2 transacting writer), `fl` (this thread stored write_flag = true and
has not stored false since).
-/
import TbbVerif.Model.C08

namespace TbbVerif.C08.Rtm

inductive Op where
  | acquire (w : Bool) (spec : Nat)
  | tryAcquire (w : Bool) (spec : Nat)
  | release
  | upgrade (spec : Nat)
  | downgrade
  deriving Repr, DecidableEq

inductive Pc where
  | start
  | sWait | sBegin | sTxLd                 -- speculative acquire / try_acquire
  | awLock | awFlag | arLock               -- real acquire
  | twTry | twFlag | trTry                 -- real try_acquire
  | rlUnlock | rlShared                    -- real release
  | ugUp | ugFlag                          -- real upgrade
  | dgDown                                 -- real downgrade
  deriving Repr, DecidableEq

structure Th where
  ops     : List Op := []
  pc      : Pc := .start
  w       : Bool := false          -- the running acquire / try_acquire is for write
  only    : Bool := false          -- `only_speculate` (try_acquire)
  resv    : Option Nat := none     -- result the running call will report when it returns holding the lock
  saved   : List Op := []          -- program to resume from when the transaction aborts
  intx    : Bool := false          -- inside a hardware transaction
  subF    : Bool := false          -- write_flag is in the read set
  subW    : Bool := false          -- m_state is in the read set
  txm     : Nat := 0
  held    : Nat := 0
  fl      : Bool := false
  results : List Nat := []         -- results of completed try_acquire / upgrade calls, newest first
  misuse  : Bool := false
  deriving Repr, DecidableEq

structure St where
  rw    : C08.St := {}             -- the underlying spin_rw_mutex: its word and the threads' positions inside its operations
  wflag : Bool := false
  ths   : Tid → Th := fun _ => {}  -- thread k exists iff `rw.ths` has an entry k

/-- an access as it appears in the E-SHIM trace (`var` = "word" / "wflag"); accesses inside a transaction have none -/
structure Ev where
  var : String
  ev  : C08.Ev
  deriving Repr, DecidableEq

def Th.done (x : Th) (res : Option Nat := none) : Th :=
  { x with ops := x.ops.tail, pc := .start, resv := none,
           results := match res with | some v => v :: x.results | none => x.results }

/-- the transaction of `x` aborts: everything since `begin` is discarded, the thread is back in its acquire call -/
def Th.abort (x : Th) : Th :=
  if x.intx then { x with intx := false, subF := false, subW := false, txm := 0, ops := x.saved, pc := .start, resv := none } else x

def isWrite (e : Option C08.Ev) : Bool :=
  match e with
  | some e => (e.kind == "cas" && e.ok) || e.kind == "fadd" || e.kind == "fsub" || e.kind == "for" || e.kind == "fand"
  | none => false

/-- abort every transaction of a thread other than `k` whose read set contains the written word -/
def abortSubs (ths : Tid → Th) (k : Nat) (flag : Bool) : Tid → Th :=
  fun i => if i ≠ k ∧ (if flag then (ths i).subF else (ths i).subW) = true then (ths i).abort else ths i

def updF (f : Tid → Th) (k : Tid) (x : Th) : Tid → Th := fun i => if i = k then x else f i

structure Out where
  st : St
  ev : Option Ev := none

/-- thread `k` performs the next access of operation `op` of the underlying spin_rw_mutex; `fin` = what the thread does when that
operation has completed (argument: the inner result list, newest first) -/
def inner (st : St) (k : Nat) (x : Th) (op : C08.Op) (fin : List Nat → Th → Th) : Out :=
  match st.rw.ths[k]? with
  | none => { st := st }
  | some y =>
    let y0 := if y.ops = [] then { y with ops := [op] } else y
    let (s', b, y', ev) := C08.stepTh st.rw.word y0
    let x' := if y'.ops = [] then fin y'.results x else x
    let ths1 := updF st.ths k x'
    let ths2 := if isWrite ev then abortSubs ths1 k false else ths1
    { st := { st with rw := { word := s', bad := st.rw.bad || b, ths := st.rw.ths.set k y' }, ths := ths2 },
      ev := ev.map (fun e => ⟨"word", e⟩) }

/-- `write_flag.store(v)` by thread `k`, then `g` -/
def flagStore (st : St) (k : Nat) (x : Th) (v : Bool) (g : Th → Th) : Out :=
  let ths1 := updF st.ths k (g { x with fl := v })
  { st := { st with wflag := v, ths := abortSubs ths1 k true },
    ev := some ⟨"wflag", ⟨"store", if v then 1 else 0, if st.wflag then 1 else 0, true⟩⟩ }

def upd (st : St) (k : Nat) (x : Th) : St := { st with ths := updF st.ths k x }

def misuse (st : St) (k : Nat) (x : Th) : Out := { st := upd st k { x with ops := x.ops.tail, misuse := true } }

/-- the value a speculative acquire waits on / subscribes to: `m_state` for a writer, `write_flag` for a reader -/
def guardWord (st : St) (w : Bool) : Nat := if w then st.rw.word.enc else (if st.wflag then 1 else 0)

/-- the load outside the transaction that precedes `begin_transaction` -/
def doWait (st : St) (k : Nat) (x : Th) : Out :=
  let v := guardWord st x.w
  let x' := if v ≠ 0 then (if x.only then { x with pc := if x.w then .twTry else .trTry } else { x with pc := .sWait })
            else { x with pc := .sBegin }
  { st := upd st k x', ev := some ⟨if x.w then "word" else "wflag", ⟨"load", v, 0, true⟩⟩ }

/-- after `m.try_lock()` -/
def finTryW (r : List Nat) (y : Th) : Th := if r.head? = some 1 then { y with pc := .twFlag } else y.done (some 0)
/-- after `m.try_lock_shared()` -/
def finTryR (r : List Nat) (y : Th) : Th := if r.head? = some 1 then { (y.done (some 1)) with held := 1 } else y.done (some 0)

/-- One step of thread `k`. -/
def stepTh (st : St) (k : Nat) (x : Th) : Out :=
  match x.pc with
  | .start =>
    match x.ops with
    | [] => { st := st }
    | .acquire w (n + 1) :: rest =>
        if x.held ≠ 0 ∨ x.txm ≠ 0 then misuse st k x
        else doWait st k { x with w := w, only := false, resv := none, saved := .acquire w n :: rest }
    | .tryAcquire w (n + 1) :: rest =>
        if x.held ≠ 0 ∨ x.txm ≠ 0 then misuse st k x
        else doWait st k { x with w := w, only := true, resv := some 1, saved := .tryAcquire w n :: rest }
    | .acquire true 0 :: _ =>
        if x.held ≠ 0 ∨ x.txm ≠ 0 then misuse st k x
        else inner st k { x with w := true, pc := .awLock } .lock (fun _ y => { y with pc := .awFlag })
    | .acquire false 0 :: _ =>
        if x.held ≠ 0 ∨ x.txm ≠ 0 then misuse st k x
        else inner st k { x with w := false, pc := .arLock } .lockShared (fun _ y => { (y.done y.resv) with held := 1 })
    | .tryAcquire true 0 :: _ =>
        if x.held ≠ 0 ∨ x.txm ≠ 0 then misuse st k x
        else inner st k { x with w := true, only := true, resv := some 1, pc := .twTry } .tryLock finTryW
    | .tryAcquire false 0 :: _ =>
        if x.held ≠ 0 ∨ x.txm ≠ 0 then misuse st k x
        else inner st k { x with w := false, only := true, resv := some 1, pc := .trTry } .tryLockShared finTryR
    | .release :: _ =>
        if x.held = 2 then flagStore st k { x with held := 0 } false (fun y => { y with pc := .rlUnlock })
        else if x.held = 1 then inner st k { x with held := 0, pc := .rlShared } .unlockShared (fun _ y => y.done)
        else if x.txm ≠ 0 then { st := upd st k ({ x with intx := false, subF := false, subW := false, txm := 0 } : Th).done }   -- commit
        else misuse st k x
    | .upgrade n :: rest =>
        if x.held = 1 then inner st k { x with held := 0, pc := .ugUp } .upgrade (fun r y => { y with resv := r.head?, pc := .ugFlag })
        else if x.txm = 1 then
          if st.rw.word.enc ≠ 0 then
            -- a real reader or writer holds the lock: commit the read transaction and acquire for write; the call reports false
            { st := upd st k { x with intx := false, subF := false, subW := false, txm := 0, ops := .acquire true n :: rest, resv := some 0 } }
          else { st := upd st k (({ x with subW := true, txm := 2 } : Th).done (some 1)) }
        else misuse st k x
    | .downgrade :: _ =>
        if x.held = 2 then flagStore st k { x with held := 1 } false (fun y => { y with pc := .dgDown })
        else if x.txm = 2 then { st := upd st k ({ x with txm := 1 } : Th).done }
        else misuse st k x
  | .sWait => doWait st k x
  | .sBegin => { st := upd st k { x with intx := true, pc := .sTxLd } }
  | .sTxLd =>
      if guardWord st x.w ≠ 0 then { st := upd st k x.abort }
      else { st := upd st k (({ x with subF := !x.w, subW := x.w, txm := if x.w then 2 else 1 } : Th).done x.resv) }
  | .awLock => inner st k x .lock (fun _ y => { y with pc := .awFlag })
  | .awFlag => flagStore st k x true (fun y => { (y.done y.resv) with held := 2 })
  | .arLock => inner st k x .lockShared (fun _ y => { (y.done y.resv) with held := 1 })
  | .twTry => inner st k x .tryLock finTryW
  | .twFlag => flagStore st k x true (fun y => { (y.done (some 1)) with held := 2 })
  | .trTry => inner st k x .tryLockShared finTryR
  | .rlUnlock => inner st k x .unlock (fun _ y => y.done)
  | .rlShared => inner st k x .unlockShared (fun _ y => y.done)
  | .ugUp => inner st k x .upgrade (fun r y => { y with resv := r.head?, pc := .ugFlag })
  | .ugFlag => flagStore st k x true (fun y => { (y.done y.resv) with held := 2 })
  | .dgDown => inner st k x .downgrade (fun _ y => y.done)

def stepOut (st : St) (e : Nat) : Out :=
  if e / 2 < st.rw.ths.length then
    (if e % 2 = 0 then stepTh st (e / 2) (st.ths (e / 2)) else { st := upd st (e / 2) (st.ths (e / 2)).abort })
  else { st := st }

def step (st : St) (e : Nat) : St := (stepOut st e).st

def init (progs : List (List Op)) : St :=
  { rw := { ths := progs.map (fun _ => { ops := [] }) }, ths := fun i => { ops := progs.getD i [] } }

def sys (progs : List (List Op)) : Sys St := { init := init progs, step := step }

/-! ## line-protocol driver (trace replay of the real paths; speculation is scripted by the `spec` counters) -/

open Proto

def parseOp (s : String) : Option Op :=
  match s.splitOn ":" with
  | [o] => go o 0
  | [o, n] => (nat? n).bind (go o)
  | _ => none
where go (o : String) (n : Nat) : Option Op :=
  match o with
  | "acquire_w" => some (.acquire true n) | "acquire_r" => some (.acquire false n)
  | "try_w" => some (.tryAcquire true n) | "try_r" => some (.tryAcquire false n)
  | "release" => some .release | "upgrade" => some (.upgrade n) | "downgrade" => some .downgrade
  | _ => none

def showEv : Option Ev → String
  | none => "-"
  | some e => s!"{e.ev.kind} {e.var} {e.ev.a} {e.ev.b} {showBool e.ev.ok}"

def countTh (st : St) (p : Th → Bool) : Nat := ((List.range st.rw.ths.length).filter (fun i => p (st.ths i))).length

/-- `prog <op>*` appends a thread (`op` or `op:<speculation attempts>`); `e <tid> <kind> <var> <a> <b> <ok>`: the thread's next step must
be this access (otherwise `MISMATCH …`, state unchanged); `s <entry>`: schedule entry (2t = step of t, 2t+1 = abort of t's transaction);
after a step: `ok | <ops left> <results newest-first…> | <#real writers> <#real readers> <#active tx readers> <#active tx writers> <write_flag>`. -/
def drive (st : St) (ws : List String) : St × String :=
  let summary (st' : St) (k : Nat) : String :=
    match (if k < st'.rw.ths.length then some (st'.ths k) else none) with
    | some th =>
      s!"{th.ops.length} {showNats th.results} | {countTh st' (·.held == 2)} {countTh st' (·.held == 1)} {countTh st' (fun x => x.intx && x.txm == 1)} {countTh st' (fun x => x.intx && x.txm == 2)} {showBool st'.wflag}"
    | none => "?"
  match ws with
  | "prog" :: ops =>
      match ops.mapM parseOp with
      | some os => ({ st with ths := updF st.ths st.rw.ths.length { ops := os }, rw := { st.rw with ths := st.rw.ths ++ [{ ops := [] }] } }, "ok")
      | none => (st, "bad-op")
  | ["e", t, kind, v, a, b, ok] =>
      match nat? t, nat? a, nat? b with
      | some t, some a, some b =>
        let o := stepOut st (2 * t)
        match o.ev with
        | some e =>
          let eb := if e.ev.kind == "load" then 0 else e.ev.b
          if e.ev.kind == kind && e.var == v && e.ev.a == a && eb == b && showBool e.ev.ok == ok then
            (o.st, s!"ok | {summary o.st t}")
          else (st, s!"MISMATCH {showEv o.ev}")
        | none => (st, "MISMATCH no-access")
      | _, _, _ => (st, "bad-op")
  | ["s", e] =>
      match nat? e with
      | some e => let o := stepOut st e; (o.st, s!"{showEv o.ev} | {summary o.st (e / 2)}")
      | none => (st, "bad-op")
  | ["state"] => (st, s!"{st.rw.word.enc} {showBool st.rw.bad} {showBool st.wflag} {showBool ((List.range st.rw.ths.length).any (fun i => (st.ths i).misuse))}")
  | ["reset"] => ({}, "ok")
  | _ => (st, "bad-op")

def driver : Proto.Driver := { σ := St, init := {}, step := drive }

end TbbVerif.C08.Rtm
