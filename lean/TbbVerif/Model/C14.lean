/-
C14 — flow graph: message conservation, node concurrency limits, wait_for_all = idle.
Executable model (core Lean only; linked into drv_c14).

Every state change of `function_input_base` happens inside its aggregator handler
(`handle_operations`, include/oneapi/tbb/detail/_flow_graph_node_impl.h:226-265) and every cache change
happens under the cache's mutex (detail/_flow_graph_cache_impl.h), so each such operation is one ATOMIC
step of a sequential machine (`TbbVerif.Mach`); "all interleavings of threads" = "all sequences of node
operations".  Messages and nodes are small ids (`Nat`).

Part 1  `FuncInput`   function_input_base: my_max_concurrency, my_concurrency, my_queue (queueing) or
                      nullptr (rejecting), my_predecessors, forwarder_busy; the handlers
                      tryput_bypass / occupy_concurrency / app_body_bypass / try_fwd / reg_pred / rem_pred,
                      `perform_queued_requests`, `predecessor_cache::get_item`.
Part 2  caches        broadcast_cache / round_robin_cache `try_put_task` (push edge set, rejection flips the
                      edge), `ContinueNode` (continue_receiver counters), `InputNode` (input_node flags).
Part 3  `PullPair`    a reserving/buffering sender (input_node) and a rejecting `FuncInput` joined by one
                      edge: the push/pull switching protocol, one step per atomic node operation.
Part 4  `Net`         a graph of queueing / unlimited function nodes with the graph's wait-context vertex,
                      cancellation and exceptions: one step per atomic node operation.
Part 5  `Sim`         the scripted whole-graph interpreter used by the correspondence with the real nodes
                      (task granularity, lightweight bodies inline); built from the functions of Parts 1-2.
-/
import TbbVerif.Core.Sched
import TbbVerif.Core.Proto

namespace TbbVerif.C14

/-! ## Part 1: function_input_base -/

/-- `predecessor_cache::get_item` (detail/_flow_graph_cache_impl.h:102-137): pop the front predecessor,
`try_get` from it; on failure the edge goes back to push mode (`register_successor(*src, *my_owner)`) and the
next one is tried; on success the predecessor is re-added at the back.  `ans` are the answers of the successive
`try_get` calls (the environment of this node); a missing answer counts as a failed `try_get`.
Returns (item, remaining cache, predecessors whose edge was flipped back to push). -/
def getItem : List Nat → List (Option Nat) → Option Nat × List Nat × List Nat
  | [], _ => (none, [], [])
  | p :: ps, some v :: _ => (some v, ps ++ [p], [])
  | p :: ps, none :: as =>
    let r := getItem ps as
    (r.1, r.2.1, p :: r.2.2)
  | p :: ps, [] =>
    let r := getItem ps []
    (r.1, r.2.1, p :: r.2.2)

/-- `function_input_base` state words plus ghost bookkeeping (`running`, `accepted`, `finished`). -/
structure FuncInput where
  /-- `my_max_concurrency` (0 = unlimited: the aggregator is bypassed) -/
  maxc : Nat
  /-- `my_concurrency` -/
  conc : Nat := 0
  /-- `my_queue`: `some q` for the queueing policy, `none` (nullptr) for rejecting -/
  queue : Option (List Nat)
  /-- `my_predecessors` (std::queue of senders in pull mode) -/
  preds : List Nat := []
  /-- `forwarder_busy` -/
  fwdBusy : Bool := false
  /-- ghost: messages for which a body invocation exists (task created or inline body entered) and whose
  `app_body_bypass` has not happened yet -/
  running : List Nat := []
  /-- ghost: every message the node took responsibility for (try_put returned a task / SUCCESSFULLY_ENQUEUED,
  or pulled from a predecessor) -/
  accepted : List Nat := []
  /-- ghost: messages whose body invocation completed -/
  finished : List Nat := []
deriving Repr, DecidableEq, Inhabited

/-- The operations of one node: each is one pass through `handle_operations` for one `operation_type`
(or, for `maxc = 0`, the aggregator-free path of `try_put_task_impl`). -/
inductive FOp where
  /-- `tryput_bypass` (`internal_try_put_task`), or `create_body_task` directly when unlimited -/
  | tryput (m : Nat)
  /-- `occupy_concurrency` of the lightweight path; on success the body of `m` runs inline -/
  | occupy (m : Nat)
  /-- `app_body_bypass` issued by `try_get_postponed_task` after the body of `m` returned; `ans` = answers of
  the predecessors' `try_get` (rejecting nodes only) -/
  | done (m : Nat) (ans : List (Option Nat))
  /-- `try_fwd` (`internal_forward`) issued by the forwarder task -/
  | fwd (ans : List (Option Nat))
  | regPred (p : Nat)
  | remPred (p : Nat)
deriving Repr, DecidableEq, Inhabited

inductive FOut where
  /-- a body invocation for `m` now exists (task returned, or inline body entered) -/
  | run (m : Nat)
  /-- `SUCCESSFULLY_ENQUEUED` -/
  | queued
  /-- `nullptr` / FAILED -/
  | rejected
  /-- result of `app_body_bypass` / `try_fwd`: the next message that got a body task (if any), and the
  predecessors whose edges were flipped back to push while looking for one -/
  | next (m : Option Nat) (flipped : List Nat)
  /-- `reg_pred`: `spawned` = a forwarder task was spawned -/
  | reg (spawned : Bool)
  | ok
  /-- the operation cannot be issued in this state (no such body invocation) -/
  | bad
deriving Repr, DecidableEq, Inhabited

namespace FuncInput

/-- `node_cache::remove` as coded: pops every element once; the elements before the removed one are
re-pushed behind the rest. -/
def cacheRemove (p : Nat) (q : List Nat) : List Nat :=
  match q.span (· ≠ p) with
  | (pre, []) => pre
  | (pre, _ :: post) => post ++ pre

/-- `perform_queued_requests` (…_node_impl.h:201-225). -/
def pqr (s : FuncInput) (ans : List (Option Nat)) : FuncInput × Option Nat × List Nat :=
  match s.queue with
  | some (m :: q) => ({ s with conc := s.conc + 1, queue := some q, running := m :: s.running }, some m, [])
  | some [] => (s, none, [])
  | none =>
    match getItem s.preds ans with
    | (some v, ps, fl) =>
      ({ s with conc := s.conc + 1, preds := ps, running := v :: s.running, accepted := v :: s.accepted }, some v, fl)
    | (none, ps, fl) => ({ s with preds := ps }, none, fl)

def step (s : FuncInput) : FOp → FuncInput × FOut
  | .tryput m =>
    if s.maxc = 0 then
      -- try_put_task_impl: `create_body_task(t)` without touching the node state
      ({ s with running := m :: s.running, accepted := m :: s.accepted }, .run m)
    else if s.conc < s.maxc then
      ({ s with conc := s.conc + 1, running := m :: s.running, accepted := m :: s.accepted }, .run m)
    else
      match s.queue with
      | some q => ({ s with queue := some (q ++ [m]), accepted := m :: s.accepted }, .queued)
      | none => (s, .rejected)
  | .occupy m =>
    if s.maxc = 0 then
      ({ s with running := m :: s.running, accepted := m :: s.accepted }, .run m)
    else if s.conc < s.maxc then
      ({ s with conc := s.conc + 1, running := m :: s.running, accepted := m :: s.accepted }, .run m)
    else (s, .rejected)
  | .done m ans =>
    if m ∈ s.running then
      let s1 := { s with running := s.running.erase m, finished := m :: s.finished }
      if s.maxc = 0 then (s1, .next none [])
      else
        let s2 := { s1 with conc := s1.conc - 1 }
        if s2.conc < s2.maxc then
          let r := pqr s2 ans
          (r.1, .next r.2.1 r.2.2)
        else (s2, .next none [])
    else (s, .bad)
  | .fwd ans =>
    if s.conc < s.maxc then
      let r := pqr s ans
      match r.2.1 with
      | some v => (r.1, .next (some v) r.2.2)
      | none => ({ r.1 with fwdBusy := false }, .next none r.2.2)
    else ({ s with fwdBusy := false }, .next none [])
  | .regPred p =>
    let s1 := { s with preds := s.preds ++ [p] }
    if s.fwdBusy then (s1, .reg false) else ({ s1 with fwdBusy := true }, .reg true)
  | .remPred p => ({ s with preds := cacheRemove p s.preds }, .ok)

def new (maxc : Nat) (queueing : Bool) : FuncInput :=
  { maxc := maxc, queue := if queueing then some [] else none }

/-- The node as an operation-driven machine. -/
def mach (maxc : Nat) (queueing : Bool) : Mach FuncInput FOp FOut :=
  { init := new maxc queueing, step := step }

/-- messages waiting in `my_queue` -/
def queued (s : FuncInput) : List Nat := s.queue.getD []

end FuncInput

/-! ## Part 2: successor caches, continue_receiver, input_node -/

/-- What a successor answers to one offer made by `broadcast_cache`/`round_robin_cache::try_put_task`:
it returned a task / SUCCESSFULLY_ENQUEUED (`accept`), or it returned nullptr and its
`register_predecessor(*my_owner)` returned `regOk`. -/
inductive Resp where
  | accept
  | reject (regOk : Bool)
deriving Repr, DecidableEq, Inhabited

/-- `broadcast_cache::try_put_task_impl` (…_cache_impl.h:383-404) over an arbitrary state `σ` threaded through
the successors' `try_put_task` (+ `register_predecessor`) calls.  Returns the final state, the offers made (in
order, with the answers) and the new `my_successors`: a successor is erased iff it rejected and accepted the
sender as a predecessor. -/
def bcastM {σ : Type} (offer : σ → Nat → σ × Resp) : σ → List Nat → σ × List (Nat × Resp) × List Nat
  | s, [] => (s, [], [])
  | s, r :: rs =>
    let a := offer s r
    let t := bcastM offer a.1 rs
    (t.1, (r, a.2) :: t.2.1, if a.2 = .reject true then t.2.2 else r :: t.2.2)

/-- `round_robin_cache::try_put_task_impl` (…_cache_impl.h:468-487): stop at the first successor that accepts. -/
def rrM {σ : Type} (offer : σ → Nat → σ × Resp) : σ → List Nat → σ × List (Nat × Resp) × List Nat
  | s, [] => (s, [], [])
  | s, r :: rs =>
    let a := offer s r
    match a.2 with
    | .accept => (a.1, [(r, .accept)], r :: rs)
    | .reject true =>
      let t := rrM offer a.1 rs
      (t.1, (r, .reject true) :: t.2.1, t.2.2)
    | .reject false =>
      let t := rrM offer a.1 rs
      (t.1, (r, .reject false) :: t.2.1, r :: t.2.2)

/-- `successor_cache::register_successor`: no-priority receivers are pushed to the back. -/
def succAdd (succs : List Nat) (r : Nat) : List Nat := succs ++ [r]

/-- `successor_cache::remove_successor`: erase the first occurrence. -/
def succRemove (succs : List Nat) (r : Nat) : List Nat := succs.erase r

/-- `continue_receiver` (flow_graph.h:361-483): `my_predecessor_count` (an `int`), `my_current_count`;
ghost: number of `try_put`s received and number of times `execute()` fired. -/
structure ContinueNode where
  predCount : Int
  curCount : Int := 0
  puts : Nat := 0
  fires : Nat := 0
deriving Repr, DecidableEq, Inhabited

inductive COp where
  | put
  | regPred
  | remPred
deriving Repr, DecidableEq, Inhabited

namespace ContinueNode
/-- Each operation runs under `my_mutex`.  The result says whether `execute()` is called. -/
def step (s : ContinueNode) : COp → ContinueNode × Bool
  | .put =>
    if s.curCount + 1 < s.predCount then ({ s with curCount := s.curCount + 1, puts := s.puts + 1 }, false)
    else ({ s with curCount := 0, puts := s.puts + 1, fires := s.fires + 1 }, true)
  | .regPred => ({ s with predCount := s.predCount + 1 }, false)
  | .remPred => ({ s with predCount := s.predCount - 1 }, false)

def mach (k : Int) : Mach ContinueNode COp Bool := { init := { predCount := k }, step := step }
end ContinueNode

/-- `input_node` (flow_graph.h:644-870).  The body is a generator of the ids `next, next+1, …` that calls
`flow_control::stop()` when `next = stop`.  Ghost: `delivered` = items handed over for good (successful
`try_get`, or `try_consume` of a reservation), most recent first; `first` = the first id of the generator. -/
structure InputNode where
  active : Bool := false
  reserved : Bool := false
  hasItem : Bool := false
  item : Nat := 0
  next : Nat
  stop : Nat
  succs : List Nat := []
  first : Nat
  delivered : List Nat := []
deriving Repr, DecidableEq, Inhabited

inductive IOp where
  | tryGet
  | tryReserve
  | tryRelease
  | tryConsume
  | activate
  | regSucc (r : Nat)
  | remSucc (r : Nat)
  /-- `try_reserve_apply_body`, first step of the put task (`apply_body_bypass`) -/
  | reserveApply
deriving Repr, DecidableEq, Inhabited

/-- Result of an input_node operation: the item (if one is returned) and whether `spawn_put()` is called
(it creates a task only while the graph is active). -/
inductive IOut where
  | res (item : Option Nat) (spawn : Bool)
  | bad
deriving Repr, DecidableEq, Inhabited

namespace InputNode
def new (first stop : Nat) : InputNode := { next := first, stop := stop, first := first }

/-- Each operation runs under `my_mutex`. -/
def step (s : InputNode) : IOp → InputNode × IOut
  | .tryGet =>
    if s.reserved then (s, .res none false)
    else if s.hasItem then ({ s with hasItem := false, delivered := s.item :: s.delivered }, .res (some s.item) false)
    else (s, .res none s.active)
  | .tryReserve =>
    if s.reserved then (s, .res none false)
    else if s.hasItem then ({ s with reserved := true }, .res (some s.item) false)
    else (s, .res none false)
  | .tryRelease =>
    if s.reserved && s.hasItem then ({ s with reserved := false }, .res none (!s.succs.isEmpty))
    else (s, .bad)
  | .tryConsume =>
    if s.reserved && s.hasItem then
      ({ s with reserved := false, hasItem := false, delivered := s.item :: s.delivered }, .res none (!s.succs.isEmpty))
    else (s, .bad)
  | .activate => ({ s with active := true }, .res none (!s.succs.isEmpty))
  | .regSucc r => ({ s with succs := succAdd s.succs r }, .res none s.active)
  | .remSucc r => ({ s with succs := succRemove s.succs r }, .res none false)
  | .reserveApply =>
    if s.reserved then (s, .res none false)
    else
      let s1 : InputNode :=
        if s.hasItem then s
        else if s.next < s.stop then { s with item := s.next, next := s.next + 1, hasItem := true }
        else s
      if s1.hasItem then ({ s1 with reserved := true }, .res (some s1.item) false)
      else (s1, .res none false)

def mach (first stop : Nat) : Mach InputNode IOp IOut := { init := new first stop, step := step }
end InputNode

/-! ## Part 3: one buffering sender, one rejecting receiver, one edge

`PullPair`: an `input_node` S (node id 0) connected to a rejecting function node R; other threads `try_put`
foreign messages to R.  One step = one task (or one external call) executed to completion: the put task of S
(`apply_body_bypass`: reserve, `broadcast_cache::try_put_task`, consume/release), the forwarder task of R
(`forward_task`), the completion of a body of R (`app_body_bypass`), an external `try_put`. -/

structure PullPair where
  s : InputNode
  r : FuncInput
  /-- pending `input_node_task_bypass` tasks -/
  putTasks : Nat := 0
  /-- pending `forward_task_bypass` tasks of R -/
  fwdTasks : Nat := 0
deriving Repr, DecidableEq, Inhabited

inductive POp where
  | activate
  | putTask
  | fwdTask
  | bodyDone (m : Nat)
  | extPut (m : Nat)
deriving Repr, DecidableEq, Inhabited

namespace PullPair

/-- id of S as a predecessor of R / id of R as a successor of S -/
def sid : Nat := 0
def rid : Nat := 1

def b2n (b : Bool) : Nat := if b then 1 else 0

/-- `predecessor_cache::get_item` of R against the real S: returns the answers of S.try_get (at most one
call: S is the only possible predecessor), the new S and the number of put tasks S spawned. -/
def pull (p : PullPair) : List (Option Nat) × InputNode × Nat :=
  match p.r.preds with
  | [] => ([], p.s, 0)
  | _ :: _ =>
    match p.s.step .tryGet with
    | (s1, .res (some v) _) => ([some v], s1, 0)
    | (s1, .res none sp) =>
      -- failed: `register_successor(*src, *my_owner)`; input_node::register_successor spawns when active
      match s1.step (.regSucc rid) with
      | (s2, .res _ sp2) => ([none], s2, b2n sp + b2n sp2)
      | (s2, .bad) => ([none], s2, b2n sp)
    | (s1, .bad) => ([none], s1, 0)

/-- Repeat `try_fwd` until it FAILS (`forward_task`, …_node_impl.h:384-397); `fuel` bounds the loop
(each successful round consumes a free concurrency slot). -/
def fwdLoop : Nat → PullPair → PullPair
  | 0, p => p
  | fuel + 1, p =>
    let (ans, s1, sp) := p.pull
    let free := decide (p.r.conc < p.r.maxc)
    let (r1, out) := p.r.step (.fwd (if free then ans else []))
    let p1 : PullPair := if free then { p with s := s1, r := r1, putTasks := p.putTasks + sp } else { p with r := r1 }
    match out with
    | .next (some _) _ => fwdLoop fuel p1
    | _ => p1

def step (p : PullPair) : POp → PullPair × Bool
  | .activate =>
    match p.s.step .activate with
    | (s1, .res _ sp) => ({ p with s := s1, putTasks := p.putTasks + b2n sp }, true)
    | _ => (p, false)
  | .putTask =>
    if p.putTasks = 0 then (p, false)
    else
      let p0 := { p with putTasks := p.putTasks - 1 }
      match p0.s.step .reserveApply with
      | (s1, .res (some v) _) =>
        -- my_successors.try_put_task(v)
        let t := bcastM (σ := FuncInput × Nat) (fun st _ =>
            match st.1.step (.tryput v) with
            | (r1, .rejected) =>
              match r1.step (.regPred sid) with
              | (r2, .reg spawned) => ((r2, st.2 + b2n spawned), .reject true)
              | (r2, _) => ((r2, st.2), .reject true)
            | (r1, _) => ((r1, st.2), .accept)) (p0.r, 0) s1.succs
        let accepted := t.2.1.any (fun o => o.2 = .accept)
        let s2 : InputNode := { s1 with succs := t.2.2 }
        match s2.step (if accepted then .tryConsume else .tryRelease) with
        | (s3, .res _ sp) => ({ p0 with s := s3, r := t.1.1, fwdTasks := p0.fwdTasks + t.1.2, putTasks := p0.putTasks + b2n sp }, true)
        | (s3, .bad) => ({ p0 with s := s3, r := t.1.1, fwdTasks := p0.fwdTasks + t.1.2 }, true)
      | (s1, _) => ({ p0 with s := s1 }, true)
  | .fwdTask =>
    if p.fwdTasks = 0 then (p, false)
    else (fwdLoop (p.r.maxc + 1) { p with fwdTasks := p.fwdTasks - 1 }, true)
  | .bodyDone m =>
    if m ∈ p.r.running then
      let (ans, s1, sp) := p.pull
      let free := decide (p.r.maxc ≠ 0 ∧ p.r.conc - 1 < p.r.maxc)
      let (r1, _) := p.r.step (.done m (if free then ans else []))
      (if free then { p with s := s1, r := r1, putTasks := p.putTasks + sp } else { p with r := r1 }, true)
    else (p, false)
  | .extPut m =>
    let (r1, out) := p.r.step (.tryput m)
    ({ p with r := r1 }, out != .rejected)

/-- S produces the ids `first … stop-1`; R is a rejecting node with concurrency limit `maxc`;
the edge S→R starts in push mode (`make_edge`). -/
def init (first stop maxc : Nat) : PullPair :=
  { s := { InputNode.new first stop with succs := [rid] }, r := FuncInput.new maxc false }

def mach (first stop maxc : Nat) : Mach PullPair POp Bool := { init := init first stop maxc, step := step }

end PullPair

/-! ## Part 4: a graph of function nodes with the graph's wait-context vertex

`Net`: any number of (non-lightweight) function nodes `0 … n-1` joined by push edges `succs`; one step = one
atomic node operation performed by some thread, so the step sequences of `Net` contain every interleaving of
external `try_put` threads with the graph's tasks (and more: the dispatcher may pick any pending task).
A body task `(n, m)` lives from its creation in `tryput`/`app_body_bypass` until `graph_task::finalize`;
after its body returned and `app_body_bypass` was issued it *delivers* the output `m` to the successors of `n`
one by one (`broadcast_cache::try_put_task`), then finalizes.  `vertex` is the reference count of
`graph::my_wait_context_vertex`: `graph_task`'s constructor reserves, `finalize` releases, `reserve_wait` /
`release_wait` do the same for external activities. -/

structure Net where
  node : Nat → FuncInput
  succs : Nat → List Nat
  /-- live body tasks (created, not finalized, `app_body_bypass` not yet issued) -/
  live : List (Nat × Nat) := []
  /-- live body tasks whose body has begun -/
  started : List (Nat × Nat) := []
  /-- body tasks finalized without `app_body_bypass`: cancelled before they started, or the body threw.
  The node still counts them in `my_concurrency` until `graph::reset()`. -/
  zombies : List (Nat × Nat) := []
  /-- tasks past `app_body_bypass` that still deliver their output: (node, message, remaining successors) -/
  dtasks : List (Nat × Nat × List Nat) := []
  /-- reference count of `my_wait_context_vertex` (an unsigned 64-bit counter in the code; `Int` here so that
  a surplus release is visible as a negative value) -/
  vertex : Int := 0
  /-- outstanding `reserve_wait` calls -/
  resv : Nat := 0
  /-- the graph's task_group_context is cancelled (by `graph::cancel()` or by an exception) -/
  cancelled : Bool := false
  /-- ghost: messages accepted from external `try_put`, per node -/
  ext : Nat → List Nat := fun _ => []
  /-- ghost: (origin, message) accepted from a predecessor's delivery, per node -/
  recv : Nat → List (Nat × Nat) := fun _ => []
  /-- ghost: (origin, message) offered by a predecessor and rejected (the output is dropped: a function node
  does not buffer its output) -/
  lost : Nat → List (Nat × Nat) := fun _ => []
  /-- ghost: number of body invocations started -/
  bodyStarts : Nat := 0

inductive NOp where
  /-- external `try_put(m)` to node `n` -/
  | put (n m : Nat)
  /-- the dispatcher takes the pending body task `(n, m)` and calls `execute`: the body begins -/
  | start (n m : Nat)
  /-- the body of `(n, m)` returns; `try_get_postponed_task` issues `app_body_bypass` -/
  | finish (n m : Nat)
  /-- the first delivering task offers its message to its next successor (`try_put_task`);
  with no successor left it finalizes -/
  | deliver
  /-- scheduling only: another delivering task becomes the first one -/
  | rotate
  /-- the dispatcher takes the pending body task `(n, m)` of a cancelled context and calls `cancel` -/
  | dropTask (n m : Nat)
  /-- the running body of `(n, m)` throws: the dispatcher cancels the context and calls `cancel` on the task -/
  | throw (n m : Nat)
  | cancel
  | reserve
  | release
deriving Repr, DecidableEq, Inhabited

namespace Net

def upd {α : Type} (f : Nat → α) (n : Nat) (v : α) : Nat → α := fun i => if i = n then v else f i

/-- offers of message `m` from node `p` to node `n` that delivering tasks still have to make -/
def pend (d : List (Nat × Nat × List Nat)) (p n m : Nat) : Nat :=
  d.countP (fun t => t.1 = p ∧ t.2.1 = m ∧ n ∈ t.2.2)

def step (s : Net) : NOp → Net × Bool
  | .put n m =>
    match (s.node n).step (.tryput m) with
    | (f, .run _) => ({ s with node := upd s.node n f, live := (n, m) :: s.live, vertex := s.vertex + 1,
                               ext := upd s.ext n (m :: s.ext n) }, true)
    | (f, .queued) => ({ s with node := upd s.node n f, ext := upd s.ext n (m :: s.ext n) }, true)
    | (_, _) => (s, false)
  | .start n m =>
    if s.started.count (n, m) < s.live.count (n, m) ∧ s.cancelled = false then
      ({ s with started := (n, m) :: s.started, bodyStarts := s.bodyStarts + 1 }, true)
    else (s, false)
  | .finish n m =>
    if (n, m) ∈ s.started then
      match (s.node n).step (.done m []) with
      | (f, .next nx _) =>
        let s1 := { s with node := upd s.node n f, live := s.live.erase (n, m), started := s.started.erase (n, m),
                           dtasks := s.dtasks ++ [(n, m, s.succs n)] }
        match nx with
        | some m' => ({ s1 with live := (n, m') :: s1.live, vertex := s1.vertex + 1 }, true)
        | none => (s1, true)
      | (_, _) => (s, false)
    else (s, false)
  | .deliver =>
    match s.dtasks with
    | [] => (s, false)
    | (_, _, []) :: rest => ({ s with dtasks := rest, vertex := s.vertex - 1 }, true)
    | (n, m, r :: rem) :: rest =>
      let s1 := { s with dtasks := (n, m, rem) :: rest }
      match (s.node r).step (.tryput m) with
      | (f, .run _) => ({ s1 with node := upd s.node r f, live := (r, m) :: s.live, vertex := s.vertex + 1,
                                  recv := upd s.recv r ((n, m) :: s.recv r) }, true)
      | (f, .queued) => ({ s1 with node := upd s.node r f, recv := upd s.recv r ((n, m) :: s.recv r) }, true)
      | (_, _) => ({ s1 with lost := upd s.lost r ((n, m) :: s.lost r) }, true)
  | .rotate =>
    match s.dtasks with
    | [] => (s, false)
    | t :: rest => ({ s with dtasks := rest ++ [t] }, true)
  | .dropTask n m =>
    if s.started.count (n, m) < s.live.count (n, m) ∧ s.cancelled = true then
      ({ s with live := s.live.erase (n, m), zombies := (n, m) :: s.zombies, vertex := s.vertex - 1 }, true)
    else (s, false)
  | .throw n m =>
    if (n, m) ∈ s.started then
      ({ s with live := s.live.erase (n, m), started := s.started.erase (n, m), zombies := (n, m) :: s.zombies,
                vertex := s.vertex - 1, cancelled := true }, true)
    else (s, false)
  | .cancel => ({ s with cancelled := true }, true)
  | .reserve => ({ s with resv := s.resv + 1, vertex := s.vertex + 1 }, true)
  | .release =>
    if s.resv = 0 then (s, false) else ({ s with resv := s.resv - 1, vertex := s.vertex - 1 }, true)

def init (node : Nat → FuncInput) (succs : Nat → List Nat) : Net := { node := node, succs := succs }

def mach (node : Nat → FuncInput) (succs : Nat → List Nat) : Mach Net NOp Bool :=
  { init := init node succs, step := step }

end Net

end TbbVerif.C14
