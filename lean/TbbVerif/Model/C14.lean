/-
C14 — flow graph: message conservation, node concurrency limits, wait_for_all = idle.
Executable model (core Lean only; linked into drv_c14).

Every state change of `function_input_base` happens inside its aggregator handler
(`handle_operations`, include/oneapi/tbb/detail/_flow_graph_node_impl.h:226-265) and every cache change
happens under the cache's mutex (detail/_flow_graph_cache_impl.h), so each such operation is one ATOMIC
step of a sequential machine (`TbbVerif.Mach`); "all interleavings of threads" = "all sequences of node
operations".  Messages and nodes are small ids (`Nat`).

Part 1  `FuncInput`   function_input_base: my_max_concurrency, my_concurrency, my_queue (queueing) or
                      nullptr (rejecting), my_predecessors, forwarder_busy; the handlers
                      tryput_bypass / occupy_concurrency / app_body_bypass / try_fwd / reg_pred / rem_pred,
                      `perform_queued_requests`, `predecessor_cache::get_item`.
Part 2  caches        broadcast_cache / round_robin_cache `try_put_task` (push edge set, rejection flips the
                      edge), `ContinueNode` (continue_receiver counters), `InputNode` (input_node flags).
Part 3  `PullPair`    a reserving/buffering sender (input_node) and a rejecting `FuncInput` joined by one
                      edge: the push/pull switching protocol, one step per atomic node operation.
Part 4  `Net`         a graph of queueing / unlimited function nodes with the graph's wait-context vertex,
                      cancellation and exceptions: one step per atomic node operation.
Part 5  `Sim`         the scripted whole-graph interpreter used by the correspondence with the real nodes
                      (task granularity, lightweight bodies inline); built from the functions of Parts 1-2.
-/
import TbbVerif.Core.Sched
import TbbVerif.Core.Proto
import TbbVerif.Generated.C14

namespace TbbVerif.C14
open TbbVerif.Generated.C14 (tryputFree occupyFree doneFree fwdFree doneDecrement fwdClearsBusy regPredSetsBusy)

/-! ## Part 1: function_input_base -/

/-- `predecessor_cache::get_item` (detail/_flow_graph_cache_impl.h:102-137): pop the front predecessor,
`try_get` from it; on failure the edge goes back to push mode (`register_successor(*src, *my_owner)`) and the
next one is tried; on success the predecessor is re-added at the back.  `ans` are the answers of the successive
`try_get` calls (the environment of this node); a missing answer counts as a failed `try_get`.
Returns (item, remaining cache, predecessors whose edge was flipped back to push). -/
def getItem : List Nat → List (Option Nat) → Option Nat × List Nat × List Nat
  | [], _ => (none, [], [])
  | p :: ps, some v :: _ => (some v, ps ++ [p], [])
  | p :: ps, none :: as =>
    let r := getItem ps as
    (r.1, r.2.1, p :: r.2.2)
  | p :: ps, [] =>
    let r := getItem ps []
    (r.1, r.2.1, p :: r.2.2)

/-- `function_input_base` state words plus ghost bookkeeping (`running`, `accepted`, `finished`). -/
structure FuncInput where
  /-- `my_max_concurrency` (0 = unlimited: the aggregator is bypassed) -/
  maxc : Nat
  /-- `my_concurrency` -/
  conc : Nat := 0
  /-- `my_queue`: `some q` for the queueing policy, `none` (nullptr) for rejecting -/
  queue : Option (List Nat)
  /-- `my_predecessors` (std::queue of senders in pull mode) -/
  preds : List Nat := []
  /-- `forwarder_busy` -/
  fwdBusy : Bool := false
  /-- ghost: messages for which a body invocation exists (task created or inline body entered) and whose
  `app_body_bypass` has not happened yet -/
  running : List Nat := []
  /-- ghost: every message the node took responsibility for (try_put returned a task / SUCCESSFULLY_ENQUEUED,
  or pulled from a predecessor) -/
  accepted : List Nat := []
  /-- ghost: messages whose body invocation completed -/
  finished : List Nat := []
deriving Repr, DecidableEq, Inhabited

/-- The operations of one node: each is one pass through `handle_operations` for one `operation_type`
(or, for `maxc = 0`, the aggregator-free path of `try_put_task_impl`). -/
inductive FOp where
  /-- `tryput_bypass` (`internal_try_put_task`), or `create_body_task` directly when unlimited -/
  | tryput (m : Nat)
  /-- `occupy_concurrency` of the lightweight path; on success the body of `m` runs inline -/
  | occupy (m : Nat)
  /-- `app_body_bypass` issued by `try_get_postponed_task` after the body of `m` returned; `ans` = answers of
  the predecessors' `try_get` (rejecting nodes only) -/
  | done (m : Nat) (ans : List (Option Nat))
  /-- `try_fwd` (`internal_forward`) issued by the forwarder task -/
  | fwd (ans : List (Option Nat))
  | regPred (p : Nat)
  | remPred (p : Nat)
deriving Repr, DecidableEq, Inhabited

inductive FOut where
  /-- a body invocation for `m` now exists (task returned, or inline body entered) -/
  | run (m : Nat)
  /-- `SUCCESSFULLY_ENQUEUED` -/
  | queued
  /-- `nullptr` / FAILED -/
  | rejected
  /-- result of `app_body_bypass` / `try_fwd`: the next message that got a body task (if any), and the
  predecessors whose edges were flipped back to push while looking for one -/
  | next (m : Option Nat) (flipped : List Nat)
  /-- `reg_pred`: `spawned` = a forwarder task was spawned -/
  | reg (spawned : Bool)
  | ok
  /-- the operation cannot be issued in this state (no such body invocation) -/
  | bad
deriving Repr, DecidableEq, Inhabited

namespace FuncInput

/-- `node_cache::remove` as coded: pops every element once; the elements before the removed one are
re-pushed behind the rest. -/
def cacheRemove (p : Nat) (q : List Nat) : List Nat :=
  match q.span (· ≠ p) with
  | (pre, []) => pre
  | (pre, _ :: post) => post ++ pre

/-- `perform_queued_requests` (…_node_impl.h:201-225). -/
def pqr (s : FuncInput) (ans : List (Option Nat)) : FuncInput × Option Nat × List Nat :=
  match s.queue with
  | some (m :: q) => ({ s with conc := s.conc + 1, queue := some q, running := m :: s.running }, some m, [])
  | some [] => (s, none, [])
  | none =>
    match getItem s.preds ans with
    | (some v, ps, fl) =>
      ({ s with conc := s.conc + 1, preds := ps, running := v :: s.running, accepted := v :: s.accepted }, some v, fl)
    | (none, ps, fl) => ({ s with preds := ps }, none, fl)

def step (s : FuncInput) : FOp → FuncInput × FOut
  | .tryput m =>
    if s.maxc = 0 then
      -- try_put_task_impl: `create_body_task(t)` without touching the node state
      ({ s with running := m :: s.running, accepted := m :: s.accepted }, .run m)
    else if tryputFree s.conc s.maxc then
      ({ s with conc := s.conc + 1, running := m :: s.running, accepted := m :: s.accepted }, .run m)
    else
      match s.queue with
      | some q => ({ s with queue := some (q ++ [m]), accepted := m :: s.accepted }, .queued)
      | none => (s, .rejected)
  | .occupy m =>
    if s.maxc = 0 then
      ({ s with running := m :: s.running, accepted := m :: s.accepted }, .run m)
    else if occupyFree s.conc s.maxc then
      ({ s with conc := s.conc + 1, running := m :: s.running, accepted := m :: s.accepted }, .run m)
    else (s, .rejected)
  | .done m ans =>
    if m ∈ s.running then
      let s1 := { s with running := s.running.erase m, finished := m :: s.finished }
      if s.maxc = 0 then (s1, .next none [])
      else
        let s2 := { s1 with conc := s1.conc - doneDecrement }
        if doneFree s2.conc s2.maxc then
          let r := pqr s2 ans
          (r.1, .next r.2.1 r.2.2)
        else (s2, .next none [])
    else (s, .bad)
  | .fwd ans =>
    if fwdFree s.conc s.maxc then
      let r := pqr s ans
      match r.2.1 with
      | some v => (r.1, .next (some v) r.2.2)
      | none => ({ r.1 with fwdBusy := r.1.fwdBusy && !fwdClearsBusy }, .next none r.2.2)
    else ({ s with fwdBusy := s.fwdBusy && !fwdClearsBusy }, .next none [])
  | .regPred p =>
    let s1 := { s with preds := s.preds ++ [p] }
    if s.fwdBusy then (s1, .reg false) else ({ s1 with fwdBusy := regPredSetsBusy }, .reg true)
  | .remPred p => ({ s with preds := cacheRemove p s.preds }, .ok)

def new (maxc : Nat) (queueing : Bool) : FuncInput :=
  { maxc := maxc, queue := if queueing then some [] else none }

/-- The node as an operation-driven machine. -/
def mach (maxc : Nat) (queueing : Bool) : Mach FuncInput FOp FOut :=
  { init := new maxc queueing, step := step }

/-- messages waiting in `my_queue` -/
def queued (s : FuncInput) : List Nat := s.queue.getD []

end FuncInput

/-! ## Part 2: successor caches, continue_receiver, input_node -/

/-- What a successor answers to one offer made by `broadcast_cache`/`round_robin_cache::try_put_task`:
it returned a task / SUCCESSFULLY_ENQUEUED (`accept`), or it returned nullptr and its
`register_predecessor(*my_owner)` returned `regOk`. -/
inductive Resp where
  | accept
  | reject (regOk : Bool)
deriving Repr, DecidableEq, Inhabited

/-- `broadcast_cache::try_put_task_impl` (…_cache_impl.h:383-404) over an arbitrary state `σ` threaded through
the successors' `try_put_task` (+ `register_predecessor`) calls.  Returns the final state, the offers made (in
order, with the answers) and the new `my_successors`: a successor is erased iff it rejected and accepted the
sender as a predecessor. -/
def bcastM {σ : Type} (offer : σ → Nat → σ × Resp) : σ → List Nat → σ × List (Nat × Resp) × List Nat
  | s, [] => (s, [], [])
  | s, r :: rs =>
    let a := offer s r
    let t := bcastM offer a.1 rs
    (t.1, (r, a.2) :: t.2.1, if a.2 = .reject true then t.2.2 else r :: t.2.2)

/-- `round_robin_cache::try_put_task_impl` (…_cache_impl.h:468-487): stop at the first successor that accepts. -/
def rrM {σ : Type} (offer : σ → Nat → σ × Resp) : σ → List Nat → σ × List (Nat × Resp) × List Nat
  | s, [] => (s, [], [])
  | s, r :: rs =>
    let a := offer s r
    match a.2 with
    | .accept => (a.1, [(r, .accept)], r :: rs)
    | .reject true =>
      let t := rrM offer a.1 rs
      (t.1, (r, .reject true) :: t.2.1, t.2.2)
    | .reject false =>
      let t := rrM offer a.1 rs
      (t.1, (r, .reject false) :: t.2.1, r :: t.2.2)

/-- `successor_cache::register_successor`: no-priority receivers are pushed to the back. -/
def succAdd (succs : List Nat) (r : Nat) : List Nat := succs ++ [r]

/-- `successor_cache::remove_successor`: erase the first occurrence. -/
def succRemove (succs : List Nat) (r : Nat) : List Nat := succs.erase r

/-- `continue_receiver` (flow_graph.h:361-483): `my_predecessor_count` (an `int`), `my_current_count`;
ghost: number of `try_put`s received and number of times `execute()` fired. -/
structure ContinueNode where
  predCount : Int
  curCount : Int := 0
  puts : Nat := 0
  fires : Nat := 0
deriving Repr, DecidableEq, Inhabited

inductive COp where
  | put
  | regPred
  | remPred
deriving Repr, DecidableEq, Inhabited

namespace ContinueNode
/-- Each operation runs under `my_mutex`.  The result says whether `execute()` is called. -/
def step (s : ContinueNode) : COp → ContinueNode × Bool
  | .put =>
    if s.curCount + 1 < s.predCount then ({ s with curCount := s.curCount + 1, puts := s.puts + 1 }, false)
    else ({ s with curCount := 0, puts := s.puts + 1, fires := s.fires + 1 }, true)
  | .regPred => ({ s with predCount := s.predCount + 1 }, false)
  | .remPred => ({ s with predCount := s.predCount - 1 }, false)

def mach (k : Int) : Mach ContinueNode COp Bool := { init := { predCount := k }, step := step }
end ContinueNode

/-- `input_node` (flow_graph.h:644-870).  The body is a generator of the ids `next, next+1, …` that calls
`flow_control::stop()` when `next = stop`.  Ghost: `delivered` = items handed over for good (successful
`try_get`, or `try_consume` of a reservation), most recent first; `first` = the first id of the generator. -/
structure InputNode where
  active : Bool := false
  reserved : Bool := false
  hasItem : Bool := false
  item : Nat := 0
  next : Nat
  stop : Nat
  succs : List Nat := []
  first : Nat
  delivered : List Nat := []
deriving Repr, DecidableEq, Inhabited

inductive IOp where
  | tryGet
  | tryReserve
  | tryRelease
  | tryConsume
  | activate
  | regSucc (r : Nat)
  | remSucc (r : Nat)
  /-- `try_reserve_apply_body`, first step of the put task (`apply_body_bypass`) -/
  | reserveApply
deriving Repr, DecidableEq, Inhabited

/-- Result of an input_node operation: the item (if one is returned) and whether `spawn_put()` is called
(it creates a task only while the graph is active). -/
inductive IOut where
  | res (item : Option Nat) (spawn : Bool)
  | bad
deriving Repr, DecidableEq, Inhabited

namespace InputNode
def new (first stop : Nat) : InputNode := { next := first, stop := stop, first := first }

/-- Each operation runs under `my_mutex`. -/
def step (s : InputNode) : IOp → InputNode × IOut
  | .tryGet =>
    if s.reserved then (s, .res none false)
    else if s.hasItem then ({ s with hasItem := false, delivered := s.item :: s.delivered }, .res (some s.item) false)
    else (s, .res none s.active)
  | .tryReserve =>
    if s.reserved then (s, .res none false)
    else if s.hasItem then ({ s with reserved := true }, .res (some s.item) false)
    else (s, .res none false)
  | .tryRelease =>
    if s.reserved && s.hasItem then ({ s with reserved := false }, .res none (!s.succs.isEmpty))
    else (s, .bad)
  | .tryConsume =>
    if s.reserved && s.hasItem then
      ({ s with reserved := false, hasItem := false, delivered := s.item :: s.delivered }, .res none (!s.succs.isEmpty))
    else (s, .bad)
  | .activate => ({ s with active := true }, .res none (!s.succs.isEmpty))
  | .regSucc r => ({ s with succs := succAdd s.succs r }, .res none s.active)
  | .remSucc r => ({ s with succs := succRemove s.succs r }, .res none false)
  | .reserveApply =>
    if s.reserved then (s, .res none false)
    else
      let s1 : InputNode :=
        if s.hasItem then s
        else if s.next < s.stop then { s with item := s.next, next := s.next + 1, hasItem := true }
        else s
      if s1.hasItem then ({ s1 with reserved := true }, .res (some s1.item) false)
      else (s1, .res none false)

def mach (first stop : Nat) : Mach InputNode IOp IOut := { init := new first stop, step := step }
end InputNode

/-! ## Part 3: one buffering sender, one rejecting receiver, one edge

`PullPair`: an `input_node` S (node id 0) connected to a rejecting function node R; other threads `try_put`
foreign messages to R.  One step = one task (or one external call) executed to completion: the put task of S
(`apply_body_bypass`: reserve, `broadcast_cache::try_put_task`, consume/release), the forwarder task of R
(`forward_task`), the completion of a body of R (`app_body_bypass`), an external `try_put`. -/

structure PullPair where
  s : InputNode
  r : FuncInput
  /-- pending `input_node_task_bypass` tasks -/
  putTasks : Nat := 0
  /-- pending `forward_task_bypass` tasks of R -/
  fwdTasks : Nat := 0
  /-- ghost: foreign messages R accepted from external `try_put`s -/
  ext : List Nat := []
deriving Repr, DecidableEq, Inhabited

inductive POp where
  | activate
  | putTask
  | fwdTask
  | bodyDone (m : Nat)
  | extPut (m : Nat)
deriving Repr, DecidableEq, Inhabited

namespace PullPair

/-- id of S as a predecessor of R / id of R as a successor of S -/
def sid : Nat := 0
def rid : Nat := 1

def b2n (b : Bool) : Nat := if b then 1 else 0

/-- `predecessor_cache::get_item` of R against the real S: returns the answers of S.try_get (at most one
call: S is the only possible predecessor), the new S and the number of put tasks S spawned. -/
def pull (p : PullPair) : List (Option Nat) × InputNode × Nat :=
  match p.r.preds with
  | [] => ([], p.s, 0)
  | _ :: _ =>
    match p.s.step .tryGet with
    | (s1, .res (some v) _) => ([some v], s1, 0)
    | (s1, .res none sp) =>
      -- failed: `register_successor(*src, *my_owner)`; input_node::register_successor spawns when active
      match s1.step (.regSucc rid) with
      | (s2, .res _ sp2) => ([none], s2, b2n sp + b2n sp2)
      | (s2, .bad) => ([none], s2, b2n sp)
    | (s1, .bad) => ([none], s1, 0)

/-- Repeat `try_fwd` until it FAILS (`forward_task`, …_node_impl.h:384-397); `fuel` bounds the loop
(each successful round consumes a free concurrency slot). -/
def fwdLoop : Nat → PullPair → PullPair
  | 0, p => p
  | fuel + 1, p =>
    let (ans, s1, sp) := p.pull
    let free := fwdFree p.r.conc p.r.maxc
    let (r1, out) := p.r.step (.fwd (if free then ans else []))
    let p1 : PullPair := if free then { p with s := s1, r := r1, putTasks := p.putTasks + sp } else { p with r := r1 }
    match out with
    | .next (some _) _ => fwdLoop fuel p1
    | _ => p1

def step (p : PullPair) : POp → PullPair × Bool
  | .activate =>
    match p.s.step .activate with
    | (s1, .res _ sp) => ({ p with s := s1, putTasks := p.putTasks + b2n sp }, true)
    | _ => (p, false)
  | .putTask =>
    if p.putTasks = 0 then (p, false)
    else
      let p0 := { p with putTasks := p.putTasks - 1 }
      match p0.s.step .reserveApply with
      | (s1, .res (some v) _) =>
        -- my_successors.try_put_task(v)
        let t := bcastM (σ := FuncInput × Nat) (fun st _ =>
            match st.1.step (.tryput v) with
            | (r1, .rejected) =>
              match r1.step (.regPred sid) with
              | (r2, .reg spawned) => ((r2, st.2 + b2n spawned), .reject true)
              | (r2, _) => ((r2, st.2), .reject true)
            | (r1, _) => ((r1, st.2), .accept)) (p0.r, 0) s1.succs
        let accepted := t.2.1.any (fun o => o.2 = .accept)
        let s2 : InputNode := { s1 with succs := t.2.2 }
        match s2.step (if accepted then .tryConsume else .tryRelease) with
        | (s3, .res _ sp) => ({ p0 with s := s3, r := t.1.1, fwdTasks := p0.fwdTasks + t.1.2, putTasks := p0.putTasks + b2n sp }, true)
        | (s3, .bad) => ({ p0 with s := s3, r := t.1.1, fwdTasks := p0.fwdTasks + t.1.2 }, true)
      | (s1, _) => ({ p0 with s := s1 }, true)
  | .fwdTask =>
    if p.fwdTasks = 0 then (p, false)
    else (fwdLoop (p.r.maxc + 1) { p with fwdTasks := p.fwdTasks - 1 }, true)
  | .bodyDone m =>
    if m ∈ p.r.running then
      let (ans, s1, sp) := p.pull
      let free := decide (p.r.maxc ≠ 0) && doneFree (p.r.conc - doneDecrement) p.r.maxc
      let (r1, _) := p.r.step (.done m (if free then ans else []))
      (if free then { p with s := s1, r := r1, putTasks := p.putTasks + sp } else { p with r := r1 }, true)
    else (p, false)
  | .extPut m =>
    let (r1, out) := p.r.step (.tryput m)
    ({ p with r := r1, ext := if out != .rejected then m :: p.ext else p.ext }, out != .rejected)

/-- S produces the ids `first … stop-1`; R is a rejecting node with concurrency limit `maxc`;
the edge S→R starts in push mode (`make_edge`). -/
def init (first stop maxc : Nat) : PullPair :=
  { s := { InputNode.new first stop with succs := [rid] }, r := FuncInput.new maxc false }

def mach (first stop maxc : Nat) : Mach PullPair POp Bool := { init := init first stop maxc, step := step }

end PullPair

/-! ## Part 4: a graph of function nodes with the graph's wait-context vertex

`Net`: any number of (non-lightweight) function nodes `0 … n-1` joined by push edges `succs`; one step = one
atomic node operation performed by some thread, so the step sequences of `Net` contain every interleaving of
external `try_put` threads with the graph's tasks (and more: the dispatcher may pick any pending task).
A body task `(n, m)` lives from its creation in `tryput`/`app_body_bypass` until `graph_task::finalize`;
after its body returned and `app_body_bypass` was issued it *delivers* the output `m` to the successors of `n`
one by one (`broadcast_cache::try_put_task`), then finalizes.  `vertex` is the reference count of
`graph::my_wait_context_vertex`: `graph_task`'s constructor reserves, `finalize` releases, `reserve_wait` /
`release_wait` do the same for external activities. -/

structure Net where
  node : Nat → FuncInput
  succs : Nat → List Nat
  /-- live body tasks (created, not finalized, `app_body_bypass` not yet issued) -/
  live : List (Nat × Nat) := []
  /-- live body tasks whose body has begun -/
  started : List (Nat × Nat) := []
  /-- body tasks finalized without `app_body_bypass`: cancelled before they started, or the body threw.
  The node still counts them in `my_concurrency` until `graph::reset()`. -/
  zombies : List (Nat × Nat) := []
  /-- tasks past `app_body_bypass` that still deliver their output: (node, message, remaining successors) -/
  dtasks : List (Nat × Nat × List Nat) := []
  /-- reference count of `my_wait_context_vertex` (an unsigned 64-bit counter in the code; `Int` here so that
  a surplus release is visible as a negative value) -/
  vertex : Int := 0
  /-- outstanding `reserve_wait` calls -/
  resv : Nat := 0
  /-- the graph's task_group_context is cancelled (by `graph::cancel()` or by an exception) -/
  cancelled : Bool := false
  /-- ghost: messages accepted from external `try_put`, per node -/
  ext : Nat → List Nat := fun _ => []
  /-- ghost: (origin, message) accepted from a predecessor's delivery, per node -/
  recv : Nat → List (Nat × Nat) := fun _ => []
  /-- ghost: (origin, message) offered by a predecessor and rejected (the output is dropped: a function node
  does not buffer its output) -/
  lost : Nat → List (Nat × Nat) := fun _ => []
  /-- ghost: number of body invocations started -/
  bodyStarts : Nat := 0

inductive NOp where
  /-- external `try_put(m)` to node `n` -/
  | put (n m : Nat)
  /-- the dispatcher takes the pending body task `(n, m)` and calls `execute`: the body begins -/
  | start (n m : Nat)
  /-- the body of `(n, m)` returns; `try_get_postponed_task` issues `app_body_bypass` -/
  | finish (n m : Nat)
  /-- the first delivering task offers its message to its next successor (`try_put_task`);
  with no successor left it finalizes -/
  | deliver
  /-- scheduling only: another delivering task becomes the first one -/
  | rotate
  /-- the dispatcher takes the pending body task `(n, m)` of a cancelled context and calls `cancel` -/
  | dropTask (n m : Nat)
  /-- the running body of `(n, m)` throws: the dispatcher cancels the context and calls `cancel` on the task -/
  | throw (n m : Nat)
  | cancel
  | reserve
  | release
deriving Repr, DecidableEq, Inhabited

namespace Net

def upd {α : Type} (f : Nat → α) (n : Nat) (v : α) : Nat → α := fun i => if i = n then v else f i

/-- offers of message `m` from node `p` to node `n` that delivering tasks still have to make -/
def pend (d : List (Nat × Nat × List Nat)) (p n m : Nat) : Nat :=
  d.countP (fun t => t.1 = p ∧ t.2.1 = m ∧ n ∈ t.2.2)

def step (s : Net) : NOp → Net × Bool
  | .put n m =>
    match (s.node n).step (.tryput m) with
    | (f, .run _) => ({ s with node := upd s.node n f, live := (n, m) :: s.live, vertex := s.vertex + 1,
                               ext := upd s.ext n (m :: s.ext n) }, true)
    | (f, .queued) => ({ s with node := upd s.node n f, ext := upd s.ext n (m :: s.ext n) }, true)
    | (_, _) => (s, false)
  | .start n m =>
    if s.started.count (n, m) < s.live.count (n, m) ∧ s.cancelled = false then
      ({ s with started := (n, m) :: s.started, bodyStarts := s.bodyStarts + 1 }, true)
    else (s, false)
  | .finish n m =>
    if (n, m) ∈ s.started then
      match (s.node n).step (.done m []) with
      | (f, .next nx _) =>
        let s1 := { s with node := upd s.node n f, live := s.live.erase (n, m), started := s.started.erase (n, m),
                           dtasks := s.dtasks ++ [(n, m, s.succs n)] }
        match nx with
        | some m' => ({ s1 with live := (n, m') :: s1.live, vertex := s1.vertex + 1 }, true)
        | none => (s1, true)
      | (_, _) => (s, false)
    else (s, false)
  | .deliver =>
    match s.dtasks with
    | [] => (s, false)
    | (_, _, []) :: rest => ({ s with dtasks := rest, vertex := s.vertex - 1 }, true)
    | (n, m, r :: rem) :: rest =>
      let s1 := { s with dtasks := (n, m, rem) :: rest }
      match (s.node r).step (.tryput m) with
      | (f, .run _) => ({ s1 with node := upd s.node r f, live := (r, m) :: s.live, vertex := s.vertex + 1,
                                  recv := upd s.recv r ((n, m) :: s.recv r) }, true)
      | (f, .queued) => ({ s1 with node := upd s.node r f, recv := upd s.recv r ((n, m) :: s.recv r) }, true)
      | (_, _) => ({ s1 with lost := upd s.lost r ((n, m) :: s.lost r) }, true)
  | .rotate =>
    match s.dtasks with
    | [] => (s, false)
    | t :: rest => ({ s with dtasks := rest ++ [t] }, true)
  | .dropTask n m =>
    if s.started.count (n, m) < s.live.count (n, m) ∧ s.cancelled = true then
      ({ s with live := s.live.erase (n, m), zombies := (n, m) :: s.zombies, vertex := s.vertex - 1 }, true)
    else (s, false)
  | .throw n m =>
    if (n, m) ∈ s.started then
      ({ s with live := s.live.erase (n, m), started := s.started.erase (n, m), zombies := (n, m) :: s.zombies,
                vertex := s.vertex - 1, cancelled := true }, true)
    else (s, false)
  | .cancel => ({ s with cancelled := true }, true)
  | .reserve => ({ s with resv := s.resv + 1, vertex := s.vertex + 1 }, true)
  | .release =>
    if s.resv = 0 then (s, false) else ({ s with resv := s.resv - 1, vertex := s.vertex - 1 }, true)

def init (node : Nat → FuncInput) (succs : Nat → List Nat) : Net := { node := node, succs := succs }

def mach (node : Nat → FuncInput) (succs : Nat → List Nat) : Mach Net NOp Bool :=
  { init := init node succs, step := step }

end Net

/-! ## Part 5: the scripted whole-graph interpreter (correspondence with the real node classes)

`Sim` mirrors harness/c14/mock.cpp: the REAL node classes of flow_graph.h run on a mock `r1` task pool in which
the script decides which pending task runs next.  One script line = one external call or one task executed to
completion (bodies of lightweight nodes run inline, as in the code).  Node operations are the functions of
Parts 1-2 (`FuncInput.step`, `bcastM`, `InputNode.step`, `ContinueNode.step`). -/

inductive Kind where
  | func (lw : Bool)
  | mfunc
  /-- `async_node`: a multifunction node whose body gets the gateway; `resv`: the body calls `gateway.reserve_wait()` -/
  | async (resv : Bool)
  | input
  | cont (lw : Bool)
  | sink
  | bc
  /-- a pass-through receiver in front of function node `tgt` (see `Sim.regPred`) -/
  | proxy (tgt : Nat)
deriving Repr, DecidableEq, Inhabited

inductive Task where
  | body (n m : Nat)
  | fwd (n : Nat)
  | put (n : Nat)
  | cbody (n : Nat)
deriving Repr, DecidableEq, Inhabited

structure SNode where
  kind : Kind
  fi : FuncInput := FuncInput.new 0 false
  inp : InputNode := InputNode.new 0 0
  cn : ContinueNode := { predCount := 0 }
  /-- `function_output::my_successors` (func, mfunc port 0, cont, bc); input nodes use `inp.succs` -/
  succs : List Nat := []
  /-- scripted receiver: rejects `m` when `rejmod > 0 ∧ m % rejmod = 0`; answer of `register_predecessor` -/
  rejmod : Nat := 0
  regok : Bool := false
  spreds : List Nat := []
  sres : Bool := false
  /-- continue node: body invocations so far (the body returns `1000 * id + runs`) -/
  runs : Nat := 0
  /-- proxy: the task armed to run at the next `register_predecessor` -/
  hook : Option Task := none
  /-- async: `gateway.reserve_wait()` calls not yet matched by `release_wait()` -/
  gres : Nat := 0
deriving Repr, Inhabited

structure Sim where
  nodes : List SNode := []
  pool : List Task := []
  begun : List Task := []
  vertex : Int := 0
  resv : Nat := 0
  cancelled : Bool := false
  exc : Bool := false
  ev : List String := []
  going : Bool := false
deriving Repr, Inhabited

namespace Sim

def node (s : Sim) (n : Nat) : SNode := s.nodes[n]?.getD { kind := .sink }
def setNode (s : Sim) (n : Nat) (nd : SNode) : Sim := { s with nodes := s.nodes.set n nd }
def log (s : Sim) (e : String) : Sim := { s with ev := e :: s.ev }
def spawn (s : Sim) (t : Task) : Sim := { s with pool := s.pool ++ [t], vertex := s.vertex + 1 }

def isFunc (k : Kind) : Bool := match k with | .func _ => true | .mfunc => true | .async _ => true | _ => false

/-- `sender::try_get` of node `p` (only input nodes override it). -/
def tryGet (s : Sim) (p : Nat) : Sim × Option Nat :=
  let nd := s.node p
  match nd.kind with
  | .input =>
    match nd.inp.step .tryGet with
    | (i1, .res item sp) =>
      let s1 := s.setNode p { nd with inp := i1 }
      (if sp then s1.spawn (.put p) else s1, item)
    | (_, .bad) => (s, none)
  | _ => (s, none)

/-- `register_successor(*p, r)` -/
def regSucc (s : Sim) (p r : Nat) : Sim :=
  let nd := s.node p
  match nd.kind with
  | .input =>
    match nd.inp.step (.regSucc r) with
    | (i1, .res _ sp) =>
      let s1 := s.setNode p { nd with inp := i1 }
      if sp then s1.spawn (.put p) else s1
    | (_, .bad) => s
  | _ => s.setNode p { nd with succs := succAdd nd.succs r }

/-- the `try_get` rounds of `predecessor_cache::get_item` of node `n` against the real predecessors -/
def pullAns (s : Sim) (n : Nat) : List Nat → Sim × List (Option Nat)
  | [] => (s, [])
  | p :: ps =>
    match s.tryGet p with
    | (s1, some v) => (s1, [some v])
    | (s1, none) =>
      let r := pullAns (s1.regSucc p n) n ps
      (r.1, none :: r.2)

/-- `try_get_postponed_task` → `app_body_bypass` of function node `n` after the body of `m`. -/
def bodyDone (s : Sim) (n m : Nat) : Sim :=
  let fi := (s.node n).fi
  let will := fi.queue.isNone && fi.maxc != 0 && doneFree (fi.conc - doneDecrement) fi.maxc && decide (m ∈ fi.running)
  let r := if will then s.pullAns n fi.preds else (s, [])
  let nd := r.1.node n
  match nd.fi.step (.done m r.2) with
  | (f1, .next (some v) _) => (r.1.setNode n { nd with fi := f1 }).spawn (.body n v)
  | (f1, _) => r.1.setNode n { nd with fi := f1 }

def finalize (s : Sim) (t : Task) : Sim :=
  { s with pool := s.pool.erase t, begun := s.begun.erase t, vertex := s.vertex - 1 }

def FUEL : Nat := 64

mutual
/-- `r.try_put_task(m)`; the result says whether a task / SUCCESSFULLY_ENQUEUED came back. -/
def tryPutTask : Nat → Sim → Nat → Nat → Sim × Bool
  | 0, s, _, _ => (s, true)
  | fuel + 1, s, r, m =>
    let nd := s.node r
    match nd.kind with
    | .sink =>
      let acc := !(nd.rejmod != 0 && m % nd.rejmod == 0)
      (s.log s!"O{r}:{m}:{if acc then "a" else "r"}", acc)
    | .proxy tgt => tryPutTask fuel s tgt m
    | .func true =>
      -- lightweight: occupy_concurrency, body inline
      match nd.fi.step (.occupy m) with
      | (f1, .run _) => (inlineBody fuel (s.setNode r { nd with fi := f1 }) r m, true)
      | (_, _) =>
        match nd.fi.step (.tryput m) with
        | (f1, .run _) => ((s.setNode r { nd with fi := f1 }).spawn (.body r m), true)
        | (f1, .queued) => (s.setNode r { nd with fi := f1 }, true)
        | (_, _) => (s, false)
    | .func false | .mfunc | .async _ =>
      match nd.fi.step (.tryput m) with
      | (f1, .run _) => ((s.setNode r { nd with fi := f1 }).spawn (.body r m), true)
      | (f1, .queued) => (s.setNode r { nd with fi := f1 }, true)
      | (_, _) => (s, false)
    | _ => (s, false)

/-- `r.register_predecessor(src)` after a rejected offer.  A proxy first lets its armed task run (another
thread completing a body of the target between the rejected `try_put_task` and `register_predecessor`). -/
def regPred : Nat → Sim → Nat → Nat → Sim × Bool
  | 0, s, _, _ => (s, false)
  | fuel + 1, s, r, src =>
    let nd := s.node r
    if isFunc nd.kind then
      match nd.fi.step (.regPred src) with
      | (f1, .reg spawned) =>
        let s1 := s.setNode r { nd with fi := f1 }
        (if spawned then s1.spawn (.fwd r) else s1, true)
      | (f1, _) => (s.setNode r { nd with fi := f1 }, true)
    else match nd.kind with
      | .sink => if nd.regok then (s.setNode r { nd with spreds := nd.spreds ++ [src] }, true) else (s, false)
      | .proxy tgt =>
        let s0 := s.setNode r { nd with hook := none }
        let s1 := match nd.hook with
          | some t =>
            if s0.pool.contains t then
              let s00 := if s0.cancelled || s0.begun.count t >= s0.pool.count t then s0 else { s0 with begun := t :: s0.begun }
              execTask fuel s00 t false
            else s0
          | none => s0
        regPred fuel s1 tgt src
      | _ => (s, false)

/-- one offer of `broadcast_cache::try_put_task` of sender `src` -/
def offer : Nat → Nat → Nat → Sim → Nat → Sim × Resp
  | fuel, src, m, s, r =>
    match tryPutTask fuel s r m with
    | (s1, true) => (s1, .accept)
    | (s1, false) =>
      match regPred fuel s1 r src with
      | (s2, ok) => (s2, .reject ok)

/-- `apply_body_impl_bypass` of function node `n`: body, `app_body_bypass`, broadcast of the output. -/
def inlineBody : Nat → Sim → Nat → Nat → Sim
  | 0, s, _, _ => s
  | fuel + 1, s, n, m =>
    let s1 := (s.log s!"B{n}:{m}").bodyDone n m
    let t := bcastM (offer fuel n m) s1 (s1.node n).succs
    t.1.setNode n { t.1.node n with succs := t.2.2 }

/-- the dispatcher runs task `t` (`execute`), or `cancel`s it when the context is cancelled and `t` had not
been taken yet; `thr`: the body throws. -/
def execTask : Nat → Sim → Task → Bool → Sim
  | 0, s, _, _ => s
  | fuel + 1, s, t, thr =>
  if s.cancelled && !(s.begun.contains t) then s.finalize t
  else
    match t with
    | .body n m =>
      let nd := s.node n
      if thr then
        ({ (s.log s!"B{n}:{m}!") with cancelled := true, exc := s.exc || !s.cancelled }).finalize t
      else match nd.kind with
        | .mfunc =>
          let s1 := s.log s!"B{n}:{m}"
          let t1 := bcastM (offer fuel n m) s1 (s1.node n).succs
          let s2 := t1.1.setNode n { t1.1.node n with succs := t1.2.2 }
          (s2.bodyDone n m).finalize t
        | .async resv =>
          -- the body only talks to the gateway: nothing is put to the output port by the task itself
          let s1 := s.log s!"A{n}:{m}"
          let s2 := if resv then { (s1.setNode n { nd with gres := nd.gres + 1 }).log s!"W{n}" with vertex := s1.vertex + 1 } else s1
          (s2.bodyDone n m).finalize t
        | _ => (inlineBody fuel s n m).finalize t
    | .fwd n =>
      -- forward_task: repeat try_fwd until it fails
      let rec loop : Nat → Sim → Sim
        | 0, st => st
        | k + 1, st =>
          let nd := st.node n
          let fi := nd.fi
          let will := fi.queue.isNone && fwdFree fi.conc fi.maxc
          let r := if will then st.pullAns n fi.preds else (st, [])
          let nd1 := r.1.node n
          match nd1.fi.step (.fwd r.2) with
          | (f1, .next (some v) _) => loop k ((r.1.setNode n { nd1 with fi := f1 }).spawn (.body n v))
          | (f1, _) => r.1.setNode n { nd1 with fi := f1 }
      (loop FUEL s).finalize t
    | .put n =>
      let nd := s.node n
      let hadItem := nd.inp.hasItem
      match nd.inp.step .reserveApply with
      | (i1, .res (some v) _) =>
        let s1 := s.setNode n { nd with inp := i1 }
        let s1 := if hadItem then s1 else s1.log s!"G{n}:{v}"
        let t1 := bcastM (offer fuel n v) s1 i1.succs
        let nd2 := t1.1.node n
        let i2 : InputNode := { nd2.inp with succs := t1.2.2 }
        let acc := t1.2.1.any (fun o => o.2 = .accept)
        match i2.step (if acc then .tryConsume else .tryRelease) with
        | (i3, .res _ sp) =>
          let s3 := t1.1.setNode n { nd2 with inp := i3 }
          (if sp then s3.spawn (.put n) else s3).finalize t
        | (i3, .bad) => (t1.1.setNode n { nd2 with inp := i3 }).finalize t
      | (i1, _) =>
        let s1 := s.setNode n { nd with inp := i1 }
        let s1 := if !nd.inp.reserved && !hadItem then s1.log s!"G{n}:stop" else s1
        s1.finalize t
    | .cbody n =>
      let nd := s.node n
      let v := 1000 * n + nd.runs
      if thr then
        ({ (s.log s!"C{n}:{v}!") with cancelled := true, exc := s.exc || !s.cancelled }).finalize t
      else
        let s1 := (s.setNode n { nd with runs := nd.runs + 1 }).log s!"C{n}:{v}"
        let t1 := bcastM (offer fuel n v) s1 (s1.node n).succs
        (t1.1.setNode n { t1.1.node n with succs := t1.2.2 }).finalize t
end

/-- `successors().try_put_task(m)` of node `n` (func, mfunc port, cont, bc). -/
def bcastFrom (s : Sim) (n m : Nat) : Sim × Bool :=
  let t := bcastM (offer FUEL n m) s (s.node n).succs
  (t.1.setNode n { t.1.node n with succs := t.2.2 }, t.2.1.any (fun o => o.2 = .accept))

/-- `continue_receiver::try_put_task` of node `n`. -/
def contPut (s : Sim) (n : Nat) : Sim :=
  let nd := s.node n
  match nd.cn.step .put with
  | (c1, false) => s.setNode n { nd with cn := c1 }
  | (c1, true) =>
    let s1 := s.setNode n { nd with cn := c1 }
    match nd.kind with
    | .cont true =>
      let v := 1000 * n + nd.runs
      let s2 := (s1.setNode n { s1.node n with runs := nd.runs + 1 }).log s!"C{n}:{v}"
      (s2.bcastFrom n v).1
    | _ => s1.spawn (.cbody n)

/-- external `try_put(continue_msg)` to a continue node or a broadcast node of continue messages -/
def cput (s : Sim) (n : Nat) : Sim × Bool :=
  let nd := s.node n
  match nd.kind with
  | .cont _ => (s.contPut n, true)
  | .bc => (nd.succs.foldl (fun st r => st.contPut r) s, true)
  | _ => (s, false)

/-- `graph::reset()` (rf_reset_protocol) of node `n` -/
def resetNode (s : Sim) (n : Nat) : Sim :=
  let nd := s.node n
  match nd.kind with
  | .func _ | .mfunc | .async _ =>
    -- my_predecessors.reset(): every pull edge goes back to push (the graph is inactive: nothing is spawned)
    let s1 := nd.fi.preds.foldl (fun st p =>
      let pn := st.node p
      match pn.kind with
      | .input => st.setNode p { pn with inp := { pn.inp with succs := succAdd pn.inp.succs n } }
      | _ => st.setNode p { pn with succs := succAdd pn.succs n }) s
    let nd1 := s1.node n
    s1.setNode n { nd1 with fi := { nd1.fi with conc := 0, queue := nd1.fi.queue.map (fun _ => []), preds := [],
                                                fwdBusy := false, running := [] } }
  | .input => s.setNode n { nd with inp := { nd.inp with active := false, reserved := false, hasItem := false } }
  | .cont _ => s.setNode n { nd with cn := { nd.cn with curCount := 0 } }
  | _ => s

/-! ### line protocol -/

def showIds (l : List Nat) : String := if l.isEmpty then "-" else ",".intercalate (l.map toString)
def b01 (b : Bool) : String := if b then "1" else "0"

def taskName : Task → String
  | .body n m => s!"b{n}.{m}"
  | .fwd n => s!"f{n}"
  | .put n => s!"p{n}"
  | .cbody n => s!"c{n}"

def parseTask (w : String) : Option Task :=
  match w.toList with
  | 'b' :: rest =>
    match (String.ofList rest).splitOn "." with
    | [a, b] => do let n ← a.toNat?; let m ← b.toNat?; pure (.body n m)
    | _ => none
  | 'f' :: rest => (String.ofList rest).toNat?.map .fwd
  | 'p' :: rest => (String.ofList rest).toNat?.map .put
  | 'c' :: rest => (String.ofList rest).toNat?.map .cbody
  | _ => none

def showNode (i : Nat) (nd : SNode) : String :=
  match nd.kind with
  | .func _ | .mfunc =>
    let q := match nd.fi.queue with | none => "x" | some l => showIds l
    s!"{i}:c{nd.fi.conc} q{q} p{showIds nd.fi.preds} f{b01 nd.fi.fwdBusy} s{showIds nd.succs}"
  | .async _ =>
    let q := match nd.fi.queue with | none => "x" | some l => showIds l
    s!"{i}:c{nd.fi.conc} q{q} p{showIds nd.fi.preds} f{b01 nd.fi.fwdBusy} s{showIds nd.succs} g{nd.gres}"
  | .input =>
    s!"{i}:a{b01 nd.inp.active} r{b01 nd.inp.reserved} h{b01 nd.inp.hasItem} i{if nd.inp.hasItem then nd.inp.item else 0} s{showIds nd.inp.succs}"
  | .cont _ => s!"{i}:pc{nd.cn.predCount} cc{nd.cn.curCount} s{showIds nd.succs}"
  | .sink => s!"{i}:p{showIds nd.spreds}"
  | .bc => s!"{i}:s{showIds nd.succs}"
  | .proxy tgt => s!"{i}:t{tgt} h{match nd.hook with | some t => taskName t | none => "-"}"

def insertSorted (x : String) : List String → List String
  | [] => [x]
  | y :: ys => if x < y then x :: y :: ys else y :: insertSorted x ys

def sortStrs (l : List String) : List String := l.foldl (fun acc x => insertSorted x acc) []

def render (s : Sim) (res : String) : String :=
  let ev := if s.ev.isEmpty then "-" else " ".intercalate s.ev.reverse
  let pool := if s.pool.isEmpty then "-" else " ".intercalate (sortStrs (s.pool.map taskName))
  let rec nodesStr (i : Nat) : List SNode → List String
    | [] => []
    | nd :: rest => showNode i nd :: nodesStr (i + 1) rest
  s!"{res} | {ev} | {pool} | v={s.vertex} c={b01 s.cancelled} | {" ; ".intercalate (nodesStr 0 s.nodes)}"

def bad (s : Sim) : Sim × String := (s, "bad-op")

def validNode (s : Sim) (n : Nat) : Bool := n < s.nodes.length

/-- one script line -/
def stepLine (s0 : Sim) (ws : List String) : Sim × String :=
  let s := { s0 with ev := [] }
  let fin (st : Sim) (res : String) : Sim × String := (st, render st res)
  match ws with
  | ["node", id, "func", maxc, pol, lw] =>
    match id.toNat?, maxc.toNat? with
    | some i, some c =>
      if s.going || i != s.nodes.length || !(pol = "q" || pol = "r") || !(lw = "0" || lw = "1") || c > 1000 then bad s
      else ({ s with nodes := s.nodes ++ [{ kind := .func (lw = "1"), fi := FuncInput.new c (pol = "q") }] }, "ok")
    | _, _ => bad s
  | ["node", id, "mfunc", maxc, pol] =>
    match id.toNat?, maxc.toNat? with
    | some i, some c =>
      if s.going || i != s.nodes.length || !(pol = "q" || pol = "r") || c > 1000 then bad s
      else ({ s with nodes := s.nodes ++ [{ kind := .mfunc, fi := FuncInput.new c (pol = "q") }] }, "ok")
    | _, _ => bad s
  | ["node", id, "async", maxc, pol, rv] =>
    match id.toNat?, maxc.toNat? with
    | some i, some c =>
      if s.going || i != s.nodes.length || !(pol = "q" || pol = "r") || !(rv = "0" || rv = "1") || c > 1000 then bad s
      else ({ s with nodes := s.nodes ++ [{ kind := .async (rv = "1"), fi := FuncInput.new c (pol = "q") }] }, "ok")
    | _, _ => bad s
  | ["node", id, "input", first, stop] =>
    match id.toNat?, first.toNat?, stop.toNat? with
    | some i, some a, some b =>
      if s.going || i != s.nodes.length || a > 100000 || b > 100000 then bad s
      else ({ s with nodes := s.nodes ++ [{ kind := .input, inp := InputNode.new a b }] }, "ok")
    | _, _, _ => bad s
  | ["node", id, "cont", lw] =>
    match id.toNat? with
    | some i =>
      if s.going || i != s.nodes.length || !(lw = "0" || lw = "1") then bad s
      else ({ s with nodes := s.nodes ++ [{ kind := .cont (lw = "1") }] }, "ok")
    | _ => bad s
  | ["node", id, "sink", rejmod, regok] =>
    match id.toNat?, rejmod.toNat? with
    | some i, some r =>
      if s.going || i != s.nodes.length || !(regok = "0" || regok = "1") || r > 1000 then bad s
      else ({ s with nodes := s.nodes ++ [{ kind := .sink, rejmod := r, regok := (regok = "1") }] }, "ok")
    | _, _ => bad s
  | ["node", id, "proxy", tgt] =>
    match id.toNat?, tgt.toNat? with
    | some i, some t =>
      if s.going || i != s.nodes.length || t > 1000 then bad s
      else ({ s with nodes := s.nodes ++ [{ kind := .proxy t }] }, "ok")
    | _, _ => bad s
  | ["hook", n, t] =>
    match n.toNat?, parseTask t with
    | some i, some tk =>
      let okTask := match (s.node i).kind, tk with
        | .proxy tgt, .body n _ => n == tgt
        | _, _ => false
      if !s.going || !s.validNode i || !okTask then bad s
      else fin (s.setNode i { s.node i with hook := some tk }) "ok"
    | _, _ => bad s
  | ["node", id, "bc"] =>
    match id.toNat? with
    | some i =>
      if s.going || i != s.nodes.length then bad s
      else ({ s with nodes := s.nodes ++ [{ kind := .bc }] }, "ok")
    | _ => bad s
  | ["edge", a, b] =>
    match a.toNat?, b.toNat? with
    | some p, some r =>
      if s.going || !s.validNode p || !s.validNode r then bad s
      else
        let pk := (s.node p).kind
        let rk := (s.node r).kind
        let intSender := isFunc pk || pk = .input || (match pk with | .cont _ => true | _ => false)
        let intRecv := isFunc rk || rk = .sink || (match rk with | .proxy _ => true | _ => false)
        let contRecv := match rk with | .cont _ => true | _ => false
        if intSender && intRecv then (s.regSucc p r, "ok")
        else if pk = .bc && contRecv then
          -- successor_cache<continue_msg>::register_successor also registers the predecessor
          let s1 := s.regSucc p r
          let nd := s1.node r
          (s1.setNode r { nd with cn := (nd.cn.step .regPred).1 }, "ok")
        else bad s
    | _, _ => bad s
  | ["go"] =>
    let okProxies := s.nodes.all (fun nd => match nd.kind with | .proxy t => isFunc (s.node t).kind && t < s.nodes.length | _ => true)
    if s.going || !okProxies then bad s else fin { s with going := true } "ok"
  | ["put", n, m] =>
    match n.toNat?, m.toNat? with
    | some r, some v =>
      if !s.going || !s.validNode r || v > 1000000 || !(isFunc (s.node r).kind || (s.node r).kind = .sink) then bad s
      else
        let t := tryPutTask FUEL s r v
        fin t.1 (b01 t.2)
    | _, _ => bad s
  | ["gput", n, m] =>
    -- `gateway.try_put(m)` of async node `n` from a foreign thread: `gather_successful_try_puts` over the successors of
    -- output port 0, then the gathered tasks are enqueued
    match n.toNat?, m.toNat? with
    | some r, some v =>
      let isAsync := match (s.node r).kind with | .async _ => true | _ => false
      if !s.going || !s.validNode r || v > 1000000 || !isAsync then bad s
      else
        let t := s.bcastFrom r v
        fin t.1 (b01 t.2)
    | _, _ => bad s
  | ["grel", n] =>
    -- `gateway.release_wait()`
    match n.toNat? with
    | some r =>
      let nd := s.node r
      let isAsync := match nd.kind with | .async _ => true | _ => false
      if !s.going || !s.validNode r || !isAsync || nd.gres = 0 then bad s
      else fin { (s.setNode r { nd with gres := nd.gres - 1 }) with vertex := s.vertex - 1 } "ok"
    | none => bad s
  | ["cput", n] =>
    match n.toNat? with
    | some r =>
      if !s.going || !s.validNode r then bad s
      else match s.cput r with
        | (s1, true) => fin s1 "1"
        | (_, false) => bad s
    | _ => bad s
  | ["activate", n] =>
    match n.toNat? with
    | some i =>
      if !s.going || !s.validNode i || (s.node i).kind != .input then bad s
      else
        let nd := s.node i
        match nd.inp.step .activate with
        | (i1, .res _ sp) =>
          let s1 := s.setNode i { nd with inp := i1 }
          fin (if sp then s1.spawn (.put i) else s1) "ok"
        | _ => bad s
    | _ => bad s
  | ["begin", t] =>
    match parseTask t with
    | some tk =>
      if !s.going || s.begun.count tk >= s.pool.count tk || s.cancelled then bad s
      else fin { s with begun := tk :: s.begun } "ok"
    | none => bad s
  | ["end", t] =>
    match parseTask t with
    | some tk => if !s.going || !s.pool.contains tk then bad s else fin (Sim.execTask FUEL s tk false) "ok"
    | none => bad s
  | ["run", t] =>
    match parseTask t with
    | some tk =>
      if !s.going || !s.pool.contains tk then bad s
      else
        let s1 := if s.cancelled || s.begun.count tk >= s.pool.count tk then s else { s with begun := tk :: s.begun }
        fin (Sim.execTask FUEL s1 tk false) "ok"
    | none => bad s
  | ["throw", t] =>
    match parseTask t with
    | some tk =>
      let okKind := match tk with
        | .body n _ => (match (s.node n).kind with | .func false => true | .mfunc => true | _ => false)
        | .cbody _ => true
        | _ => false
      if !s.going || !s.pool.contains tk || !okKind || (s.cancelled && !s.begun.contains tk) then bad s
      else
        let s1 := if s.begun.contains tk then s else { s with begun := tk :: s.begun }
        fin (Sim.execTask FUEL s1 tk true) "ok"
    | none => bad s
  | ["cancel"] => if !s.going then bad s else fin { s with cancelled := true } "ok"
  | ["reserve"] => if !s.going then bad s else fin { s with resv := s.resv + 1, vertex := s.vertex + 1 } "ok"
  | ["release"] =>
    if !s.going || s.resv = 0 then bad s else fin { s with resv := s.resv - 1, vertex := s.vertex - 1 } "ok"
  | ["wfa"] =>
    if !s.going then bad s
    else if s.vertex != 0 then fin s "blocked"
    else
      let res := if s.exc then "ret exc" else if s.cancelled then "ret cancelled" else "ret"
      fin { s with cancelled := false, exc := false } res
  | ["reset"] =>
    if !s.going || !s.pool.isEmpty || s.vertex != 0 then bad s
    else
      let s1 := (List.range s.nodes.length).foldl (fun st n => st.resetNode n) { s with cancelled := false, exc := false }
      fin s1 "ok"
  | ["mode", n, rejmod] =>
    match n.toNat?, rejmod.toNat? with
    | some i, some r =>
      if !s.going || !s.validNode i || (s.node i).kind != .sink || r > 1000 then bad s
      else fin (s.setNode i { s.node i with rejmod := r }) "ok"
    | _, _ => bad s
  | ["sget", n] =>
    match n.toNat? with
    | some i =>
      let nd := s.node i
      if !s.going || !s.validNode i || nd.kind != .sink || nd.sres then bad s
      else match nd.spreds with
        | [] => bad s
        | p :: ps =>
          match s.tryGet p with
          | (s1, some v) => fin (s1.log s!"T{i}:{v}") "1"
          | (s1, none) =>
            -- the probe failed: give the edge back (as predecessor_cache::get_item does)
            let s2 := (s1.log s!"T{i}:-").regSucc p i
            fin (s2.setNode i { s2.node i with spreds := ps }) "0"
    | _ => bad s
  | ["sres", n] =>
    match n.toNat? with
    | some i =>
      let nd := s.node i
      if !s.going || !s.validNode i || nd.kind != .sink || nd.sres then bad s
      else match nd.spreds with
        | [] => bad s
        | p :: _ =>
          let pn := s.node p
          if pn.kind != .input then fin (s.log s!"R{i}:-") "0"
          else match pn.inp.step .tryReserve with
            | (i1, .res (some v) _) =>
              let s1 := (s.setNode p { pn with inp := i1 }).log s!"R{i}:{v}"
              fin (s1.setNode i { s1.node i with sres := true }) "1"
            | (i1, _) => fin ((s.setNode p { pn with inp := i1 }).log s!"R{i}:-") "0"
    | _ => bad s
  | [op, n] =>
    if op = "srel" || op = "scon" then
      match n.toNat? with
      | some i =>
        let nd := s.node i
        if !s.going || !s.validNode i || nd.kind != .sink || !nd.sres then bad s
        else match nd.spreds with
          | [] => bad s
          | p :: _ =>
            let pn := s.node p
            match pn.inp.step (if op = "srel" then .tryRelease else .tryConsume) with
            | (i1, .res _ sp) =>
              let s1 := s.setNode p { pn with inp := i1 }
              let s2 := if sp then s1.spawn (.put p) else s1
              fin (s2.setNode i { s2.node i with sres := false }) "ok"
            | (_, .bad) => bad s
      | none => bad s
    else bad s
  | _ => bad s

def driver : Proto.Driver := { σ := Sim, init := {}, step := stepLine }

end Sim

/-! ### small line drivers for the cache classes and for `Net` -/

/-- `c14cache`: a real `broadcast_cache<int>` / `round_robin_cache<int>` with scripted receivers.
`bc <resp…>` / `rr <resp…>`: one `try_put_task` against successors `0 … k-1` (all registered, in order) that
answer `a` (accept), `t` (reject, register_predecessor true), `f` (reject, register_predecessor false).
Output: offers made, remaining successors. -/
def cacheLine (ws : List String) : String :=
  match ws with
  | kind :: resps =>
    if !(kind = "bc" || kind = "rr") || resps.length > 64 then "bad-op"
    else
      match resps.mapM (fun w => if w = "a" then some Resp.accept else if w = "t" then some (Resp.reject true)
                                 else if w = "f" then some (Resp.reject false) else none) with
      | none => "bad-op"
      | some rs =>
        let succs := List.range rs.length
        let offer : Unit → Nat → Unit × Resp := fun _ r => ((), rs[r]?.getD .accept)
        let t := if kind = "bc" then bcastM offer () succs else rrM offer () succs
        let sh (r : Resp) : String := match r with | .accept => "a" | .reject true => "t" | .reject false => "f"
        let offers := if t.2.1.isEmpty then "-" else " ".intercalate (t.2.1.map (fun o => s!"{o.1}{sh o.2}"))
        s!"{offers} | {Sim.showIds t.2.2}"
  | _ => "bad-op"

def cacheDriver : Proto.Driver := Proto.pureDriver cacheLine

/-- `c14net`: the `Net` machine of Part 4 behind a line protocol (graphs of non-lightweight function nodes).
`node <id> <maxc> <q|r>`, `edge <a> <b>`, `go`; then `put n m`, `start n m`, `finish n m` (the body returns and the
task delivers to all successors and finalizes), `drop n m`, `throw n m`, `cancel`, `reserve`, `release`.
Output: `<0/1> | v=<vertex> c=<cancelled> | <id>:c<conc> q<queue> ; …`. -/
structure NetDrv where
  cfg : List (Nat × Bool) := []
  edges : List (Nat × Nat) := []
  net : Option Net := none

namespace NetDrv

def deliverAll : Nat → Net → Net
  | 0, s => s
  | k + 1, s => if s.dtasks.isEmpty then s else deliverAll k (s.step .deliver).1

def render (d : NetDrv) (s : Net) (ok : Bool) : String :=
  let rec go (i : Nat) : List (Nat × Bool) → List String
    | [] => []
    | _ :: rest =>
      let f := s.node i
      let q := match f.queue with | none => "x" | some l => Sim.showIds l
      s!"{i}:c{f.conc} q{q}" :: go (i + 1) rest
  s!"{Sim.b01 ok} | v={s.vertex} c={Sim.b01 s.cancelled} | {" ; ".intercalate (go 0 d.cfg)}"

def stepLine (d : NetDrv) (ws : List String) : NetDrv × String :=
  match d.net, ws with
  | none, ["node", id, maxc, pol] =>
    match id.toNat?, maxc.toNat? with
    | some i, some c =>
      if i != d.cfg.length || !(pol = "q" || pol = "r") || c > 1000 then (d, "bad-op")
      else ({ d with cfg := d.cfg ++ [(c, decide (pol = "q"))] }, "ok")
    | _, _ => (d, "bad-op")
  | none, ["edge", a, b] =>
    match a.toNat?, b.toNat? with
    | some p, some r =>
      if p >= d.cfg.length || r >= d.cfg.length || d.edges.contains (p, r) then (d, "bad-op")
      else ({ d with edges := d.edges ++ [(p, r)] }, "ok")
    | _, _ => (d, "bad-op")
  | none, ["go"] =>
    let node : Nat → FuncInput := fun i => match d.cfg[i]? with
      | some (c, q) => FuncInput.new c q
      | none => FuncInput.new 0 true
    let succs : Nat → List Nat := fun p => (d.edges.filter (fun e => e.1 == p)).map Prod.snd
    let s := Net.init node succs
    ({ d with net := some s }, render d s true)
  | some s, [op, a, b] =>
    match a.toNat?, b.toNat? with
    | some n, some m =>
      if n >= d.cfg.length || m > 1000000 then (d, "bad-op")
      else
        let r : Option (Net × Bool) :=
          if op = "put" then some (s.step (.put n m))
          else if op = "start" then some (s.step (.start n m))
          else if op = "finish" then
            let t := s.step (.finish n m)
            some (deliverAll 1000 t.1, t.2)
          else if op = "drop" then some (s.step (.dropTask n m))
          else if op = "throw" then some (s.step (.throw n m))
          else none
        match r with
        | some (s1, ok) => ({ d with net := some s1 }, render d s1 ok)
        | none => (d, "bad-op")
    | _, _ => (d, "bad-op")
  | some s, [op] =>
    let r : Option (Net × Bool) :=
      if op = "cancel" then some (s.step .cancel)
      else if op = "reserve" then some (s.step .reserve)
      else if op = "release" then some (s.step .release)
      else none
    match r with
    | some (s1, ok) => ({ d with net := some s1 }, render d s1 ok)
    | none => (d, "bad-op")
  | _, _ => (d, "bad-op")

def driver : Proto.Driver := { σ := NetDrv, init := {}, step := stepLine }

end NetDrv

end TbbVerif.C14
