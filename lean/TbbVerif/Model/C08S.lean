/-
C08 — the SLEEPING locks tbb::mutex (`SlMx`) and tbb::rw_mutex (`SlRw`): word protocol at atomic-access granularity
plus the sleep / wake hand-shake through libtbb's address_waiter (a concurrent_monitor keyed by the lock's address).
Executable, core Lean only.

The monitor is modelled at the level of its LINEARISATION POINTS (its internals — the monitor's own mutex, the list
manipulation, the futex semaphore — are serialised by its mutex and are the subject of C02, not of this model):
  waiter  : enq     my_waitset.add under the monitor mutex            (trace: `cnt.store(n+1)`)
            chk     the predicate's load of the lock word             (trace: load word)
            commit  commit_wait's epoch comparison                    (trace: load epoch)
            sleep   semaphore P succeeds (needs a V)                  (trace: successful CAS 0→1 / exchange returning 0)
            cancel  cancel_wait: remove itself from the wait set, or find that a notifier has removed it (then a V is
                    on its way and must be consumed: `pump`)          (trace: own cnt.store(n-1) / my_is_in_list load → false)
  notifier: peek    `my_waitset.empty()` outside the monitor mutex    (trace: load cnt)
            flush   under the monitor mutex: epoch+1, remove the selected waiters   (trace: epoch.store(e+1))
            v       semaphore V of one removed waiter                 (trace: exchange(0) on its semaphore)
`peek` may see a non-empty set that the model's atomic `flush` has already emptied (it reads the count inside another
notifier's critical section); this is an oracle bit (`orc`) consumed only when the model's wait set is empty.
-/
import TbbVerif.Core.Sched
import TbbVerif.Core.Proto
import TbbVerif.Model.C08

namespace TbbVerif.C08.Slp

/-- wait sub-machine (adaptive_wait_on_address / waitable_atomic::wait) -/
inductive WPc where
  | none
  | spin (k : Nat)          -- timed_spin_wait_until: k evaluations of the condition done so far
  | enq                     -- prepare_wait
  | chk                     -- predicate
  | commit                  -- commit_wait: epoch check
  | sleep                   -- semaphore P
  | cancel (again : Bool)   -- cancel_wait (again: epoch changed, prepare_wait follows; else: predicate true, leave)
  | pump (again : Bool)     -- consume the skipped wake-up (node.reset() / ~sleep_node)
  | rechk                   -- tbb::mutex only: `while (!wakeup_condition())` after wait_on_address returned
  deriving Repr, DecidableEq

/-- notify sub-machine -/
inductive NPc where
  | none | peek | flush | v
  deriving Repr, DecidableEq

/-- which waiters a notification selects -/
inductive Sel where
  | one                 -- notify_by_address_one: the most recently queued waiter of this address
  | ctx (c : Nat)       -- notify_by_address(ctx): all waiters with this context
  | all                 -- notify_by_address_all
  deriving Repr, DecidableEq

structure Mon where
  waitset : List (Tid × Nat) := []      -- (thread, context), oldest first
  epoch   : Nat := 0
  posted  : List Tid := []              -- threads whose semaphore has been V'ed and not yet consumed
  deriving Repr, DecidableEq

structure WT where
  w         : WPc := .none
  n         : NPc := .none
  nodeEpoch : Nat := 0
  skipped   : Bool := false
  toWake    : List Tid := []
  nsel      : Sel := .all
  orc       : List Bool := []
  deriving Repr, DecidableEq

structure Ev where
  kind : String
  var  : String
  a : Nat
  b : Nat
  deriving Repr, DecidableEq

def Sel.sel : Sel → Nat → Bool
  | .one, _ => true
  | .ctx c, k => c == k
  | .all, _ => true

/-- the waiters a flush removes, in the order in which they will be V'ed (the scan runs from the newest to the oldest) -/
def selected (s : Sel) (ws : List (Tid × Nat)) : List Tid :=
  let m := (ws.reverse.filter (fun e => s.sel e.2)).map (·.1)
  match s with
  | .one => m.take 1
  | _ => m

def inSet (ws : List (Tid × Nat)) (t : Tid) : Bool := ws.any (·.1 == t)

/-- One step of the wait sub-machine of thread `t`.  `word` = encoded lock word (what a load returns), `cond` = the
wake-up condition evaluated on it, `redo` = tbb::mutex's do-while around wait_on_address.
Returns the monitor, the thread's monitor state, the event, and `some cont` when the wait is over
(`cont` is irrelevant for callers that simply retry). -/
def waitStep (t : Tid) (word : Nat) (cond : Bool) (ctx : Nat) (spinMax : Nat) (redo : Bool) (m : Mon) (x : WT) :
    Mon × WT × Option Ev × Bool :=
  match x.w with
  | .none => (m, x, none, true)
  | .spin k =>
      if cond then (m, { x with w := .none }, some ⟨"load", "word", word, 0⟩, true)
      else if k + 1 < spinMax then (m, { x with w := .spin (k + 1) }, some ⟨"load", "word", word, 0⟩, false)
      else (m, { x with w := .enq }, some ⟨"load", "word", word, 0⟩, false)
  | .enq =>
      ({ m with waitset := m.waitset ++ [(t, ctx)] }, { x with w := .chk, nodeEpoch := m.epoch },
       some ⟨"store", "cnt", m.waitset.length + 1, m.waitset.length⟩, false)
  | .chk =>
      (m, { x with w := if cond then .cancel false else .commit }, some ⟨"load", "word", word, 0⟩, false)
  | .commit =>
      (m, { x with w := if x.nodeEpoch = m.epoch then .sleep else .cancel true }, some ⟨"load", "epoch", m.epoch, 0⟩, false)
  | .sleep =>
      if m.posted.contains t then
        if redo then ({ m with posted := m.posted.erase t }, { x with w := .rechk }, some ⟨"psem", s!"sem{t}", 0, 0⟩, false)
        else ({ m with posted := m.posted.erase t }, { x with w := .none }, some ⟨"psem", s!"sem{t}", 0, 0⟩, true)
      else (m, x, none, false)                                  -- blocked
  | .cancel again =>
      if inSet m.waitset t then
        let m' := { m with waitset := m.waitset.filter (·.1 != t) }
        if again then (m', { x with w := .enq }, some ⟨"cancel", s!"inl{t}", 1, 0⟩, false)
        else if redo then (m', { x with w := .rechk }, some ⟨"cancel", s!"inl{t}", 1, 0⟩, false)
        else (m', { x with w := .none }, some ⟨"cancel", s!"inl{t}", 1, 0⟩, true)
      else (m, { x with w := .pump again, skipped := true }, some ⟨"cancel", s!"inl{t}", 0, 0⟩, false)
  | .pump again =>
      if m.posted.contains t then
        let m' := { m with posted := m.posted.erase t }
        if again then (m', { x with w := .enq, skipped := false }, some ⟨"psem", s!"sem{t}", 0, 0⟩, false)
        else if redo then (m', { x with w := .rechk, skipped := false }, some ⟨"psem", s!"sem{t}", 0, 0⟩, false)
        else (m', { x with w := .none, skipped := false }, some ⟨"psem", s!"sem{t}", 0, 0⟩, true)
      else (m, x, none, false)                                  -- blocked
  | .rechk =>
      if cond then (m, { x with w := .none }, some ⟨"load", "word", word, 0⟩, true)
      else (m, { x with w := .enq }, some ⟨"load", "word", word, 0⟩, false)

/-- One step of the notify sub-machine of thread `t`; the last component says that the notification is over. -/
def notifyStep (m : Mon) (x : WT) : Mon × WT × Option Ev × Bool :=
  match x.n with
  | .none => (m, x, none, true)
  | .peek =>
      let ev : Ev := ⟨"load", "cnt", m.waitset.length, 0⟩
      if m.waitset.length ≠ 0 then (m, { x with n := .flush }, some ev, false)
      else match x.orc with
        | true :: r => (m, { x with n := .flush, orc := r }, some ev, false)
        | _ :: r => (m, { x with n := .none, orc := r }, some ev, true)
        | [] => (m, { x with n := .none }, some ev, true)
  | .flush =>
      let rem := selected x.nsel m.waitset
      let m' := { m with epoch := m.epoch + 1, waitset := m.waitset.filter (fun e => !rem.contains e.1) }
      let ev : Ev := ⟨"store", "epoch", m.epoch + 1, m.epoch⟩
      if rem.isEmpty then (m', { x with n := .none, toWake := [] }, some ev, true)
      else (m', { x with n := .v, toWake := rem }, some ev, false)
  | .v =>
      match x.toWake with
      | [] => (m, { x with n := .none }, none, true)
      | u :: r =>
          let m' := { m with posted := u :: m.posted }
          if r.isEmpty then (m', { x with n := .none, toWake := [] }, some ⟨"xchg", s!"sem{u}", 0, 0⟩, true)
          else (m', { x with toWake := r }, some ⟨"xchg", s!"sem{u}", 0, 0⟩, false)

/-! ## tbb::mutex -/
namespace Mx

inductive Op where
  | lock | tryLock | unlock
  deriving Repr, DecidableEq

inductive Pc where
  | start     -- lock/try_lock: my_flag.load(relaxed); unlock: my_flag.exchange(false)
  | xchg      -- lock/try_lock: my_flag.exchange(true)
  | wait      -- lock: inside my_flag.wait(true)
  | notify    -- unlock: inside notify_one_relaxed
  deriving Repr, DecidableEq

structure Th where
  ops     : List Op := []
  pc      : Pc := .start
  mw      : WT := {}
  holds   : Bool := false
  tok     : Bool := false     -- ghost: removed from the wait set by a notifier and has not yet re-examined the flag
  results : List Nat := []
  misuse  : Bool := false
  deriving Repr, DecidableEq

structure St where
  flag    : Bool := false
  mon     : Mon := {}
  th      : Tid → Th := fun _ => {}
  spinMax : Nat := 38

def upd (f : Tid → Th) (t : Tid) (x : Th) : Tid → Th := fun i => if i = t then x else f i

def Th.done (x : Th) (res : Option Nat := none) : Th :=
  { x with ops := x.ops.tail, pc := .start,
           results := match res with | some v => v :: x.results | none => x.results }

def enc (b : Bool) : Nat := if b then 1 else 0

/-- tokens of the threads a flush removes -/
def giveTok (f : Tid → Th) (rem : List Tid) : Tid → Th := fun i => if rem.contains i then { f i with tok := true } else f i

def stepEv (st : St) (t : Tid) : St × Option Ev :=
  let me := st.th t
  match me.ops with
  | [] => (st, none)
  | op :: _ =>
  match op, me.pc with
  | .lock, .start | .tryLock, .start =>
      if me.holds then ({ st with th := upd st.th t { me with ops := me.ops.tail, misuse := true } }, none)
      else
        let ev : Ev := ⟨"load", "word", enc st.flag, 0⟩
        if st.flag then
          -- a load that sees the flag set consumes the ghost token
          if op = .lock then ({ st with th := upd st.th t { me with pc := .wait, mw := { me.mw with w := .spin 0 }, tok := false } }, some ev)
          else ({ st with th := upd st.th t { (me.done (some 0)) with tok := false } }, some ev)
        else ({ st with th := upd st.th t { me with pc := .xchg } }, some ev)
  | .lock, .xchg | .tryLock, .xchg =>
      let ev : Ev := ⟨"xchg", "word", enc st.flag, 1⟩
      if st.flag then
        if op = .lock then ({ st with th := upd st.th t { me with pc := .wait, mw := { me.mw with w := .spin 0 }, tok := false } }, some ev)
        else ({ st with th := upd st.th t { (me.done (some 0)) with tok := false } }, some ev)
      else ({ st with flag := true, th := upd st.th t { (me.done (if op = .lock then none else some 1)) with holds := true, tok := false } }, some ev)
  | .lock, .wait =>
      let (m', w', ev, fin) := waitStep t (enc st.flag) (!st.flag) 0 st.spinMax true st.mon me.mw
      -- a load that sees the flag set consumes the ghost token
      let tok' := if (ev.map (·.var) == some "word") && st.flag then false else me.tok
      ({ st with mon := m', th := upd st.th t { me with mw := w', pc := if fin then .start else .wait, tok := tok' } }, ev)
  | .unlock, .start =>
      if !me.holds then ({ st with th := upd st.th t { me with ops := me.ops.tail, misuse := true } }, none)
      else ({ st with flag := false, th := upd st.th t { me with pc := .notify, holds := false, mw := { me.mw with n := .peek, nsel := .one } } },
            some ⟨"xchg", "word", enc st.flag, 0⟩)
  | .unlock, .notify =>
      let wasFlush := me.mw.n == .flush
      let (m', w', ev, fin) := notifyStep st.mon me.mw
      let th1 := if wasFlush then giveTok st.th (selected me.mw.nsel st.mon.waitset) else st.th
      ({ st with mon := m', th := upd th1 t (if fin then { (th1 t).done with mw := w' } else { (th1 t) with mw := w' }) }, ev)
  | _, _ => (st, none)

def step (st : St) (t : Tid) : St := (stepEv st t).1

def initTh (progs : List (List Op)) : Tid → Th := fun i => { ops := progs.getD i [] }

/-- `orcs`: the peek oracle of every thread (any list of bits; see the header comment) -/
def sys (progs : List (List Op)) (orcs : List (List Bool)) (spinMax : Nat) : Sys St :=
  { init := { th := fun i => { ops := progs.getD i [], mw := { orc := orcs.getD i [] } }, spinMax := spinMax }, step := step }

end Mx

/-! ## tbb::rw_mutex -/
namespace Rw
open TbbVerif.C08 (Word Phase busy)

inductive Op where
  | lock | tryLock | unlock | lockShared | tryLockShared | unlockShared | upgrade | downgrade
  deriving Repr, DecidableEq

inductive Pc where
  | start
  | tlCas        -- try_lock: CAS(s, WRITER)
  | pLoad        -- lock: load for the WRITER_PENDING test
  | pOr          -- lock: m_state |= WRITER_PENDING
  | wait         -- inside adaptive_wait_on_address
  | notify       -- inside notify_by_address*
  | shAdd        -- try_lock_shared: fetch_add(ONE_READER)
  | shUndo       -- try_lock_shared: m_state -= ONE_READER
  | upCas        -- upgrade: CAS(s, s | WRITER | WRITER_PENDING)
  | upLoad       -- upgrade: load, readers == ONE_READER ?
  | upFin        -- upgrade: m_state -= ONE_READER + WRITER_PENDING
  | upSlowRel    -- upgrade slow path: unlock_shared()
  | lkLoad       -- upgrade slow path: lock() — try_lock's load
  | dgLoad       -- downgrade: m_state & WRITER_PENDING
  deriving Repr, DecidableEq

/-- what an adaptive wait waits for -/
inductive WKind where
  | writer     -- !(state & BUSY), WRITER_CONTEXT
  | reader     -- !(state & (WRITER | WRITER_PENDING)), READER_CONTEXT
  | upg        -- readers == ONE_READER, WRITER_CONTEXT
  deriving Repr, DecidableEq

/-- what follows a notification -/
inductive NCont where
  | done       -- the operation is complete
  | fail       -- try_lock_shared returns false
  | slowLock   -- upgrade: lock() follows
  deriving Repr, DecidableEq

structure Th where
  ops     : List Op := []
  pc      : Pc := .start
  sv      : Nat := 0
  phase   : Phase := .idle
  slow    : Bool := false
  mw      : WT := {}
  wk      : WKind := .writer
  nk      : NCont := .done
  results : List Nat := []
  misuse  : Bool := false
  deriving Repr, DecidableEq

structure St where
  word    : Word := {}
  bad     : Bool := false
  mon     : Mon := {}
  ths     : List Th := []
  spinMax : Nat := 38
  deriving Repr, DecidableEq

def WKind.cond : WKind → Word → Bool
  | .writer, s => !busy s
  | .reader, s => !(s.w || s.p)
  | .upg, s => s.r == 1

def WKind.ctx : WKind → Nat
  | .writer => 0 | .reader => 1 | .upg => 0

def Th.done (t : Th) (ph : Phase) (res : Option Nat := none) : Th :=
  { t with ops := t.ops.tail, pc := .start, phase := ph, slow := false,
           results := match res with | some v => v :: t.results | none => t.results }

def Op.pre : Op → Phase
  | .lock | .tryLock | .lockShared | .tryLockShared => .idle
  | .unlock | .downgrade => .holdW
  | .unlockShared | .upgrade => .holdR

abbrev Out := Word × Bool × Mon × Th × Option Ev

def startNotify (t : Th) (sel : Sel) (k : NCont) : Th :=
  { t with pc := .notify, nk := k, mw := { t.mw with n := .peek, nsel := sel } }

def startWait (t : Th) (k : WKind) : Th :=
  { t with pc := .wait, wk := k, mw := { t.mw with w := .spin 0 } }

/-- notification after a release of a reader/writer unit: writers only if a writer is pending, else everybody -/
def relSel (s' : Word) : Sel := if s'.p then .ctx 0 else .all

/-- lock() body.  `head` = pc of try_lock's load (`start`, or `lkLoad` inside upgrade), `res` = reported result. -/
def lockBody (s : Word) (m : Mon) (t : Th) (head : Pc) (res : Option Nat) : Out :=
  if t.pc = head then
    if !busy s then (s, false, m, { t with sv := s.enc, pc := .tlCas }, some ⟨"load", "word", s.enc, 0⟩)
    else (s, false, m, { t with sv := s.enc, pc := .pLoad }, some ⟨"load", "word", s.enc, 0⟩)
  else match t.pc with
  | .tlCas =>
      if s.enc = t.sv then ({ w := true, p := false, r := 0 }, false, m, t.done .holdW res, some ⟨"cas", "word", t.sv, 1⟩)
      else (s, false, m, { t with pc := .pLoad }, some ⟨"casf", "word", t.sv, s.enc⟩)
  | .pLoad =>
      if !s.p then (s, false, m, { t with pc := .pOr }, some ⟨"load", "word", s.enc, 0⟩)
      else (s, false, m, startWait t .writer, some ⟨"load", "word", s.enc, 0⟩)
  | .pOr => ({ s with p := true }, false, m, startWait t .writer, some ⟨"for", "word", s.enc, ({ s with p := true } : Word).enc⟩)
  | _ => (s, false, m, t, none)

/-- where an adaptive wait returns to -/
def waitBack (op : Op) : WKind → Pc
  | .writer => if op = .upgrade then .lkLoad else .start
  | .reader => .start
  | .upg => .upLoad

def stepOp (tid : Tid) (spinMax : Nat) (op : Op) (s : Word) (m : Mon) (t : Th) : Out :=
  match t.pc with
  | .wait =>
      let r := waitStep tid s.enc (t.wk.cond s) t.wk.ctx spinMax false m t.mw
      (s, false, r.1, { t with mw := r.2.1, pc := if r.2.2.2 then waitBack op t.wk else .wait }, r.2.2.1)
  | .notify =>
      let r := notifyStep m t.mw
      let t' := { t with mw := r.2.1 }
      if !r.2.2.2 then (s, false, r.1, t', r.2.2.1)
      else match t.nk with
        | .done => (s, false, r.1, t'.done t.phase, r.2.2.1)
        | .fail => if op = .lockShared then (s, false, r.1, startWait t' .reader, r.2.2.1) else (s, false, r.1, t'.done t.phase (some 0), r.2.2.1)
        | .slowLock => (s, false, r.1, { t' with pc := .lkLoad }, r.2.2.1)
  | _ =>
  match op with
  | .lock => lockBody s m t .start none
  | .tryLock =>
      (match t.pc with
       | .start =>
           if !busy s then (s, false, m, { t with sv := s.enc, pc := .tlCas }, some ⟨"load", "word", s.enc, 0⟩)
           else (s, false, m, t.done t.phase (some 0), some ⟨"load", "word", s.enc, 0⟩)
       | .tlCas =>
           if s.enc = t.sv then ({ w := true, p := false, r := 0 }, false, m, t.done .holdW (some 1), some ⟨"cas", "word", t.sv, 1⟩)
           else (s, false, m, t.done t.phase (some 0), some ⟨"casf", "word", t.sv, s.enc⟩)
       | _ => (s, false, m, t, none))
  | .unlock =>
      (match t.pc with
       | .start =>
           let s' : Word := { s with w := false }
           (s', false, m, startNotify { t with phase := .idle } (relSel s') .done, some ⟨"fand", "word", s.enc, s'.enc⟩)
       | _ => (s, false, m, t, none))
  | .lockShared | .tryLockShared =>
      (match t.pc with
       | .start =>
           if !(s.w || s.p) then (s, false, m, { t with pc := .shAdd }, some ⟨"load", "word", s.enc, 0⟩)
           else if op = .lockShared then (s, false, m, startWait t .reader, some ⟨"load", "word", s.enc, 0⟩)
           else (s, false, m, t.done t.phase (some 0), some ⟨"load", "word", s.enc, 0⟩)
       | .shAdd =>
           let s' := { s with r := s.r + 1 }
           if !(s.w || s.p) then (s', false, m, t.done .holdR (if op = .lockShared then none else some 1), some ⟨"fadd", "word", s.enc, s'.enc⟩)
           else (s', false, m, { t with pc := .shUndo, phase := .rt }, some ⟨"fadd", "word", s.enc, s'.enc⟩)
       | .shUndo =>
           let s' := { s with r := s.r - 1 }
           (s', s.r = 0, m, startNotify { t with phase := .idle } (.ctx 0) .fail, some ⟨"fsub", "word", s.enc, s'.enc⟩)
       | _ => (s, false, m, t, none))
  | .unlockShared =>
      (match t.pc with
       | .start =>
           let s' := { s with r := s.r - 1 }
           (s', s.r = 0, m, startNotify { t with phase := .idle } (relSel s') .done, some ⟨"fsub", "word", s.enc, s'.enc⟩)
       | _ => (s, false, m, t, none))
  | .upgrade =>
      (match t.pc with
       | .start =>
           let t' := { t with sv := s.enc }
           if s.r = 1 || !s.p then (s, false, m, { t' with pc := .upCas, slow := false }, some ⟨"load", "word", s.enc, 0⟩)
           else (s, false, m, { t' with pc := .upSlowRel, slow := true }, some ⟨"load", "word", s.enc, 0⟩)
       | .upCas =>
           let d : Word := { (Word.dec t.sv) with w := true, p := true }
           if s.enc = t.sv then (d, false, m, { t with pc := .upLoad, phase := .upgWait }, some ⟨"cas", "word", t.sv, d.enc⟩)
           else
             let t' := { t with sv := s.enc }
             if s.r = 1 || !s.p then (s, false, m, t', some ⟨"casf", "word", t.sv, s.enc⟩)
             else (s, false, m, { t' with pc := .upSlowRel, slow := true }, some ⟨"casf", "word", t.sv, s.enc⟩)
       | .upLoad =>
           if s.r = 1 then (s, false, m, { t with pc := .upFin, phase := .upgReady }, some ⟨"load", "word", s.enc, 0⟩)
           else (s, false, m, startWait t .upg, some ⟨"load", "word", s.enc, 0⟩)
       | .upFin =>
           let s' := { s with r := s.r - 1, p := false }
           (s', s.r = 0 || !s.p, m, t.done .holdW (some 1), some ⟨"fsub", "word", s.enc, s'.enc⟩)
       | .upSlowRel =>
           let s' := { s with r := s.r - 1 }
           (s', s.r = 0, m, startNotify { t with phase := .idle } (relSel s') .slowLock, some ⟨"fsub", "word", s.enc, s'.enc⟩)
       | _ => lockBody s m t .lkLoad (some 0))
  | .downgrade =>
      (match t.pc with
       | .start =>
           let s' := { s with w := false, r := s.r + 1 }
           (s', !s.w, m, { t with pc := .dgLoad, phase := .holdR }, some ⟨"fadd", "word", s.enc, s'.enc⟩)
       | .dgLoad =>
           if !s.p then (s, false, m, startNotify t (.ctx 1) .done, some ⟨"load", "word", s.enc, 0⟩)
           else (s, false, m, t.done t.phase, some ⟨"load", "word", s.enc, 0⟩)
       | _ => (s, false, m, t, none))

def stepTh (tid : Tid) (spinMax : Nat) (s : Word) (m : Mon) (t : Th) : Out :=
  match t.ops with
  | [] => (s, false, m, t, none)
  | op :: _ =>
  if t.pc = .start ∧ t.phase ≠ op.pre then
    (s, false, m, { t with ops := t.ops.tail, misuse := true }, none)
  else stepOp tid spinMax op s m t

def stepEv (st : St) (tid : Tid) : St × Option Ev :=
  match st.ths[tid]? with
  | none => (st, none)
  | some t =>
    let (s', b, m', t', ev) := stepTh tid st.spinMax st.word st.mon t
    ({ st with word := s', bad := st.bad || b, mon := m', ths := st.ths.set tid t' }, ev)

def step (st : St) (tid : Tid) : St := (stepEv st tid).1

def sys (progs : List (List Op)) (orcs : List (List Bool)) (spinMax : Nat) : Sys St :=
  { init := { ths := progs.zipIdx.map (fun p => { ops := p.1, mw := { orc := orcs.getD p.2 [] } }), spinMax := spinMax }, step := step }

end Rw

/-! ## trace replay drivers

`e <tid> <kind> <var> <a> <b> <ok>` = the next access of the implementation's thread `tid` (E-SHIM trace, monitor
variables named by the harness).  If it is the access the model's thread performs next, the model steps (`ok | …`);
if it is an access the model does not represent (loads of the monitor's count/epoch/in-list flag that do not decide
anything, list bookkeeping under the monitor mutex, semaphore traffic that does not consume a V) it is skipped
(`skip`); anything else is `MISMATCH expected …`. -/
open Proto

def evMatch (e : Ev) (kind var : String) (a b ok : Nat) : Bool :=
  if e.kind == "psem" then var == e.var && ((kind == "cas" && a == 0 && b == 1 && ok == 1) || (kind == "xchg" && a == 0 && b == 2))
  else if e.kind == "cancel" then
    -- self-removal: the waiter's own decrement of the wait-set count (under the monitor mutex; what a concurrent
    -- `empty()` peek observes); found-removed: its my_is_in_list load that returns false
    (if e.a == 1 then kind == "store" && var == "cnt" && a + 1 == b else var == e.var && kind == "load" && a == 0)
  else if e.kind == "casf" then kind == "cas" && ok == 0 && var == e.var && a == e.a && b == e.b
  else if e.kind == "cas" then kind == "cas" && ok == 1 && var == e.var && a == e.a && b == e.b
  else if e.kind == "load" then kind == "load" && var == e.var && (a == e.a || var == "cnt")   -- (the count read by a peek is vetted by `orcFix`)
  else if e.kind == "xchg" && e.var.startsWith "sem" then kind == "xchg" && var == e.var && b == 0
  else kind == e.kind && var == e.var && a == e.a && b == e.b

def skippable (kind var : String) (a b ok : Nat) : Bool :=
  (kind == "load" && (var == "cnt" || var == "epoch" || var.startsWith "inl")) ||
  (var == "cnt" && kind == "store" && a + 1 == b) ||
  (var.startsWith "inl" && kind == "store") ||
  (var.startsWith "sem" && ((kind == "cas" && ok == 0) || (kind == "xchg" && a != 0 && b == 2) || kind == "store"))

def showEv : Option Ev → String
  | none => "-"
  | some e => s!"{e.kind} {e.var} {e.a} {e.b}"

/-- peek oracle: the implementation read a non-zero count although the model's wait set is (already) empty -/
def orcFix (x : WT) (m : Mon) (kind var : String) (a : Nat) : Option WT :=
  if x.n == .peek && kind == "load" && var == "cnt" then
    if a != 0 && m.waitset.isEmpty then some { x with orc := true :: x.orc }
    else if a == 0 && !m.waitset.isEmpty then none
    else some x
  else some x

structure MxD where
  st : Mx.St := {}
  n : Nat := 0

def driveMx (d : MxD) (ws : List String) : MxD × String :=
  match ws with
  | "prog" :: ops =>
      match ops.mapM (fun o => match o with | "lock" => some Mx.Op.lock | "try_lock" => some .tryLock | "unlock" => some .unlock | _ => none) with
      | some os => ({ st := { d.st with th := Mx.upd d.st.th d.n { ops := os } }, n := d.n + 1 }, "ok")
      | none => (d, "bad-op")
  | ["spin", k] => match nat? k with
      | some k => ({ d with st := { d.st with spinMax := k } }, "ok")
      | none => (d, "bad-op")
  | ["e", t, kind, var, a, b, ok] =>
      match nat? t, nat? a, nat? b, nat? ok with
      | some t, some a, some b, some ok =>
        if t < d.n then
          let me := d.st.th t
          match orcFix me.mw d.st.mon kind var a with
          | none => (d, "MISMATCH the implementation saw an empty wait set, the model's is not empty")
          | some mw' =>
            let st0 := { d.st with th := Mx.upd d.st.th t { me with mw := mw' } }
            let (st', ev) := Mx.stepEv st0 t
            match ev with
            | some e =>
              if evMatch e kind var a b ok then
                let th := st'.th t
                ({ d with st := st' }, s!"ok | {th.ops.length} {showNats th.results}")
              else if skippable kind var a b ok then (d, "skip")
              else (d, s!"MISMATCH expected {showEv ev}")
            | none => if skippable kind var a b ok then (d, "skip") else (d, "MISMATCH expected no access (blocked or finished)")
        else (d, "bad-tid")
      | _, _, _, _ => (d, "bad-op")
  | ["state"] =>
      (d, s!"{Mx.enc d.st.flag} | {showNats (d.st.mon.waitset.map (·.1))} | {d.st.mon.epoch} | {showNats d.st.mon.posted}")
  | ["reset"] => ({}, "ok")
  | _ => (d, "bad-op")

def driverMx : Proto.Driver := { σ := MxD, init := {}, step := driveMx }

def parseRwOp : String → Option Rw.Op
  | "lock" => some .lock | "try_lock" => some .tryLock | "unlock" => some .unlock
  | "lock_shared" => some .lockShared | "try_lock_shared" => some .tryLockShared
  | "unlock_shared" => some .unlockShared | "upgrade" => some .upgrade | "downgrade" => some .downgrade
  | _ => none

def driveRw (st : Rw.St) (ws : List String) : Rw.St × String :=
  match ws with
  | "prog" :: ops =>
      match ops.mapM parseRwOp with
      | some os => ({ st with ths := st.ths ++ [{ ops := os }] }, "ok")
      | none => (st, "bad-op")
  | ["spin", k] => match nat? k with
      | some k => ({ st with spinMax := k }, "ok")
      | none => (st, "bad-op")
  | ["e", t, kind, var, a, b, ok] =>
      match nat? t, nat? a, nat? b, nat? ok with
      | some t, some a, some b, some ok =>
        match st.ths[t]? with
        | none => (st, "bad-tid")
        | some me =>
          match orcFix me.mw st.mon kind var a with
          | none => (st, "MISMATCH the implementation saw an empty wait set, the model's is not empty")
          | some mw' =>
            let st0 := { st with ths := st.ths.set t { me with mw := mw' } }
            let (st', ev) := Rw.stepEv st0 t
            match ev with
            | some e =>
              if evMatch e kind var a b ok then
                match st'.ths[t]? with
                | some th => (st', s!"ok | {th.ops.length} {showNats th.results}")
                | none => (st, "bad-tid")
              else if skippable kind var a b ok then (st, "skip")
              else (st, s!"MISMATCH expected {showEv ev}")
            | none => if skippable kind var a b ok then (st, "skip") else (st, "MISMATCH expected no access (blocked or finished)")
      | _, _, _, _ => (st, "bad-op")
  | ["state"] =>
      (st, s!"{st.word.enc} {showBool st.bad} | {showNats (st.mon.waitset.map (·.1))} | {st.mon.epoch} | {showNats st.mon.posted}")
  | ["reset"] => ({}, "ok")
  | _ => (st, "bad-op")

def driverRw : Proto.Driver := { σ := Rw.St, init := {}, step := driveRw }

end TbbVerif.C08.Slp
