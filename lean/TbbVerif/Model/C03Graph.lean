/-
C03 — flow graph: `graph::wait_for_all`, its exception handler, the status flags and `graph::reset` — a WRAPPER around DispatchEH.
Executable model (core Lean only; linked into drv_c03).

Code (include/oneapi/tbb/detail/_flow_graph_impl.h, flow_graph.h):

    void wait_for_all() {
        cancelled = false;  caught_exception = false;
        try_call([this] {
            my_task_arena->execute([this] { d1::wait(my_wait_context_vertex.get_context(), *my_context); });   -- dispatch loop, rethrow
            cancelled = my_context->is_group_execution_cancelled();
        }).on_exception([this] { my_context->reset(); caught_exception = true; cancelled = true; });
        if (!(my_context->traits() & task_group_context::concurrent_wait)) my_context->reset();
    }
    void reset(f) { deactivate_graph(*this); my_context->reset(); cancelled = false; caught_exception = false;
                    for each node: reset_node(f); prepare_task_arena(true); activate_graph(*this); }

Node bodies are `graph_task`s (apply_body_task_bypass::execute / cancel -> finalize: destroy, release the wait reference; a prioritised
task goes through `priority_task_selector`, whose `cancel()` re-uses the task it already popped); they run under the graph's context in the
dispatch loop of DispatchEH: the component `d` below is a DispatchEH state, every step of a thread other than the waiter is a DispatchEH
step, and so is every step of the waiter except the few that this wrapper adds (flag writes, the handler, `reset()`).  Hence every
DispatchEH theorem holds for `d` (see `Proofs/C03/Graph.lean: d_reachable`).

The waiter (thread 0):  try_put of the roots (`wspawn`) — `enter` (flags cleared) — dispatch loop — exit at count 0, load the exception
(`wexit`) — then EITHER the handler: `my_context->reset()` (DispatchEH's `wreset` step), flags set, the exception leaves;
OR: read the flag, the trailing `reset()` (DispatchEH's `wreset` step), return.  After an exception (or a cancellation) the nodes may be
left in an intermediate state: the next round may only begin after `reset()`.
-/
import TbbVerif.Model.C03

namespace TbbVerif.C03.Graph

open TbbVerif.C03

/-- skeleton of `graph::wait_for_all` and `graph::reset` (regenerated from the headers on every run) -/
structure Skel where
  entryClears : Bool            -- `cancelled = false; caught_exception = false;` before the try
  waitInsideTry : Bool          -- the arena-execute/wait call is inside the try_call body
  readsFlagAfterWait : Bool     -- `cancelled = my_context->is_group_execution_cancelled()` after the wait, inside the try body
  handlerResetsCtx : Bool       -- on_exception: `my_context->reset()`
  handlerSetsCaught : Bool      -- on_exception: `caught_exception = true`
  handlerSetsCancelled : Bool   -- on_exception: `cancelled = true`
  handlerRethrows : Bool        -- the handler is an `on_exception` guard (the exception goes on), not a swallowing catch
  resetAfter : Bool             -- the trailing `my_context->reset()` on the normal path
  resetClearsFlags : Bool       -- graph::reset(): `cancelled = false; caught_exception = false`
  resetResetsCtx : Bool         -- graph::reset(): `my_context->reset()`
  resetReactivates : Bool       -- graph::reset(): deactivate first, activate last
  deriving Repr, DecidableEq

def Skel.ok (k : Skel) : Bool :=
  k.entryClears && k.waitInsideTry && k.readsFlagAfterWait && k.handlerResetsCtx && k.handlerSetsCaught && k.handlerSetsCancelled &&
  k.handlerRethrows && k.resetAfter && k.resetClearsFlags && k.resetResetsCtx && k.resetReactivates

def Skel.expected : Skel :=
  { entryClears := true, waitInsideTry := true, readsFlagAfterWait := true, handlerResetsCtx := true, handlerSetsCaught := true,
    handlerSetsCancelled := true, handlerRethrows := true, resetAfter := true, resetClearsFlags := true, resetResetsCtx := true,
    resetReactivates := true }

inductive GPc where
  | user                      -- outside wait_for_all (try_put of the next round's roots, reset())
  | inner                     -- inside wait_for_all, in the dispatch loop / loading the exception
  | handler (e : ExcId)       -- in the on_exception handler: the context has been reset; next: flags, the exception leaves
  | retReset                  -- normal path: flag read; next: trailing reset, return
  deriving DecidableEq, Repr, Inhabited

structure State where
  sk : Skel
  d : C03.State
  gpc : GPc
  gCancelled : Bool           -- graph::cancelled
  gCaught : Bool              -- graph::caught_exception
  gActive : Bool              -- graph::my_is_active
  needsReset : Bool           -- ghost: wait_for_all threw or reported cancellation since the last reset()
  outs : List ExcId           -- exceptions that left wait_for_all (on thread 0), most recent first
  rets : Nat                  -- normal returns of wait_for_all
  resets : Nat

inductive Act where
  | d (a : C03.Act)           -- a DispatchEH action (thread step / cancellation by somebody else = graph::cancel())
  | reset                     -- the user calls graph::reset() (thread 0, outside wait_for_all)
  deriving DecidableEq, Repr, Inhabited

def init (sk : Skel) (prog : Prog) (rounds : List (List Nat)) : State :=
  { sk := sk, d := C03.init prog rounds, gpc := .user, gCancelled := false, gCaught := false, gActive := true, needsReset := false,
    outs := [], rets := 0, resets := 0 }

def isWspawn : Pc → Bool
  | .wspawn _ => true
  | _ => false

/-- One step.  Second component: an exception that leaves `wait_for_all` in this step. -/
def step (g : State) (a : Act) : State × Option ExcId :=
  match a with
  | .reset =>
    if g.gpc = .user then
      ({ g with gCancelled := if g.sk.resetClearsFlags then false else g.gCancelled,
                gCaught := if g.sk.resetClearsFlags then false else g.gCaught,
                gActive := g.sk.resetReactivates, needsReset := false, resets := g.resets + 1 }, none)
    else (g, none)
  | .d .extCancel => ({ g with d := (C03.step g.d .extCancel).1 }, none)
  | .d (.thr t c) =>
    if t ≠ 0 then ({ g with d := (C03.stepThr g.d t c).1 }, none)
    else
      match g.gpc with
      | .user =>
        if isWspawn (g.d.pcs 0) then
          if g.needsReset then (g, none)                          -- (the next round begins only after reset())
          else
            if (C03.stepThr g.d 0 c).1.pcs 0 = .idle then          -- "wait": wait_for_all entered
              ({ g with d := (C03.stepThr g.d 0 c).1, gpc := .inner,
                        gCancelled := if g.sk.entryClears then false else g.gCancelled,
                        gCaught := if g.sk.entryClears then false else g.gCaught }, none)
            else ({ g with d := (C03.stepThr g.d 0 c).1 }, none)
        else (g, none)
      | .inner =>
        match g.d.pcs 0 with
        | .wreset (some e) =>                                       -- handler, first statement: my_context->reset()
          ({ g with d := (C03.stepThr g.d 0 c).1, gpc := .handler e }, none)
        | .wreset none =>                                           -- cancelled = my_context->is_group_execution_cancelled()
          ({ g with gpc := .retReset, gCancelled := if g.sk.readsFlagAfterWait then g.d.cancelled else g.gCancelled }, none)
        | _ => ({ g with d := (C03.stepThr g.d 0 c).1 }, none)
      | .handler e =>
        ({ g with gpc := .user, gCaught := g.sk.handlerSetsCaught || g.gCaught, gCancelled := g.sk.handlerSetsCancelled || g.gCancelled,
                  needsReset := true, outs := e :: g.outs }, some e)
      | .retReset =>
        ({ g with d := (C03.stepThr g.d 0 c).1, gpc := .user, needsReset := g.gCancelled, rets := g.rets + 1 }, none)

def runFrom (g : State) (acts : List Act) : State := acts.foldl (fun g a => (step g a).1) g

def run (sk : Skel) (prog : Prog) (rounds : List (List Nat)) (acts : List Act) : State := runFrom (init sk prog rounds) acts

/-! ## line driver: DispatchEH's commands plus the wrapper's -/

open TbbVerif.Proto

structure DState where
  sk : Skel := Skel.expected
  prog : Prog := []
  rounds : List (List Nat) := []
  st : Option State := none

def showGPc : GPc → String
  | .user => "user" | .inner => "inner" | .handler e => s!"handler {e}" | .retReset => "retreset"

def showG (g : State) : String :=
  s!"gpc {showGPc g.gpc} cancelled {showBool g.gCancelled} caught {showBool g.gCaught} active {showBool g.gActive} needsreset {showBool g.needsReset} outs {g.outs.length} rets {g.rets} | {C03.showState g.d}"

def describe (g : State) (t : Tid) (c : Nat) (r : State × Option ExcId) : String :=
  let g' := r.1
  if t ≠ 0 then C03.describe g.d t c g'.d none
  else match g.gpc, g'.gpc with
    | .user, .inner => "enter"
    | .user, .user => if g.needsReset ∧ isWspawn (g.d.pcs 0) then "blocked" else C03.describe g.d t c g'.d none
    | .inner, .handler e => s!"handler reset {e}"
    | .inner, .retReset => s!"readflag {showBool g'.gCancelled}"
    | .inner, .inner => C03.describe g.d t c g'.d none
    | .handler _, .user => (match r.2 with
      | some e => s!"throw {e} cancelled {showBool g'.gCancelled} caught {showBool g'.gCaught}"
      | none => "?")
    | .retReset, .user => s!"return cancelled {showBool g'.gCancelled} caught {showBool g'.gCaught}"
    | _, _ => "?"

def skelOfNats (ws : List Nat) : Skel :=
  match ws with
  | [a, b, c, d, e, f, g, h, i, j, k] =>
    { entryClears := a = 1, waitInsideTry := b = 1, readsFlagAfterWait := c = 1, handlerResetsCtx := d = 1, handlerSetsCaught := e = 1,
      handlerSetsCancelled := f = 1, handlerRethrows := g = 1, resetAfter := h = 1, resetClearsFlags := i = 1, resetResetsCtx := j = 1,
      resetReactivates := k = 1 }
  | _ => Skel.expected

def drvStep (d : DState) (ws : List String) : DState × String :=
  match ws with
  | ["reset"] => ({}, "ok")
  | "skel" :: rest =>
    match nats? rest with
    | some ns => ({ d with sk := skelOfNats ns }, "skel")
    | none => (d, "bad-op")
  | "spec" :: b :: j :: kids =>
    match parseOutcome b, parseOutcome j, nats? kids with
    | some b, some j, some ks => ({ d with prog := d.prog ++ [{ kids := ks, body := b, join := j }] }, s!"spec {d.prog.length}")
    | _, _, _ => (d, "bad-op")
  | "round" :: rest =>
    match nats? rest with
    | some rs => if rs.all (· < d.prog.length) then ({ d with rounds := d.rounds ++ [rs] }, s!"round {d.rounds.length}") else (d, "bad-op")
    | none => (d, "bad-op")
  | ["init"] =>
    if d.prog.all (fun sp => sp.kids.all (· < d.prog.length)) then ({ d with st := some (init d.sk d.prog d.rounds) }, "init") else (d, "bad-op")
  | ["a", t, c] =>
    match d.st, nat? t, nat? c with
    | some g, some t, some c =>
      let r := step g (.d (.thr t c))
      ({ d with st := some r.1 }, describe g t c r)
    | _, _, _ => (d, "bad-op")
  | ["x"] =>
    match d.st with
    | some g => ({ d with st := some (step g (.d .extCancel)).1 }, if g.d.cancelled then "extcancel 1" else "extcancel 0")
    | none => (d, "bad-op")
  | ["greset"] =>
    match d.st with
    | some g => let r := step g .reset; ({ d with st := some r.1 }, if g.gpc = .user then s!"greset {showBool r.1.gActive}" else "stutter")
    | none => (d, "bad-op")
  | ["state"] =>
    match d.st with
    | some g => (d, showG g)
    | none => (d, "bad-op")
  | _ => (d, "bad-op")

def driver : Proto.Driver := { σ := DState, init := {}, step := drvStep }

end TbbVerif.C03.Graph
