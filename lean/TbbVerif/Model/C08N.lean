/-
C08 — `QRwN`: the NODE PROTOCOL of tbb::queuing_rw_mutex (src/tbb/queuing_rw_mutex.cpp) at atomic-access granularity.
Executable, core Lean only.

One model step of a thread = one atomic access of `acquire / try_acquire / release / upgrade_to_writer /
downgrade_to_reader` to `q_tail` or to a node field `my_prev / my_next / my_state / my_going / my_internal_lock`
(spin loops: one step per load / per CAS attempt).  Every thread owns one queue node (its scoped_lock), re-used by all of
its operations.  Any number of threads: every node field, every ghost field and the control state + locals (`Loc`) is a
function of the thread id (one function per field, so that a step visibly changes only the fields it writes).

Pointers (`q_tail`, `my_prev`, `my_next`, locals) are encoded with the tag bit kept:
  0 = null, 1 = null|FLAG, 2*(t+1) = the node of thread t, 2*(t+1)+1 = that pointer with FLAG set
so `fetch_add(FLAG)` is `+ 1`, `p & ~FLAG` is `p - p % 2`, `p | FLAG` is `p - p % 2 + 1`, `get_flag p` is `p % 2`.
`my_state` holds the byte values of `state_t_flags` (1 WRITER, 2 READER, 4 READER_UNBLOCKNEXT, 8 ACTIVEREADER,
16 UPGRADE_REQUESTED, 32 UPGRADE_WAITING, 64 UPGRADE_LOSER).

Program counters are named after the access they are ABOUT to perform.  Ghost state (never read by the protocol):
`q` (nodes physically in the queue, in q_tail exchange order: appended at the exchange / successful try-CAS, erased at
the step by which a releasing node hands the queue on), `held` (0 none / 1 reader / 2 writer: from the access by which
acquire / try_acquire / upgrade return until the first access of release / upgrade; a downgrading writer counts as a
reader from its first access), `upg` / `dirty` (inside upgrade_to_writer / some writer held the lock since it began),
`bad` (a null or tagged pointer was dereferenced: must never be set).  Every step also reports the specification
event (`QRw.Ev`, Model/C08Q.lean) it stands for, if any.
-/
import TbbVerif.Core.Sched
import TbbVerif.Core.Proto
import TbbVerif.Model.C08Q

namespace TbbVerif.C08.QRwN

inductive Op where
  | acquire (w : Bool) | tryAcquire (w : Bool) | release | upgrade | downgrade
  deriving Repr, DecidableEq, Hashable

inductive Pc where
  | start
  -- acquire: field initialisation, q_tail exchange
  | aNext | aGoing | aState | aIlock | aXchg
  -- acquire for write
  | awLink | awSpin
  -- acquire for read
  | arPst | arCasU | arReload | arPrev | arLink | arSpin | arCas | arWaitN | arSetA | arLdN | arGo
  -- try_acquire
  | tPrev | tNext | tGoing | tState | tIlock | tCas
  -- release, writer
  | rwLdN | rwCasT | rwSpinN | rwLdN2 | rwGo2 | rwLdS | rwLockI | rwXchgP | rwLoser | rwGo1u | rwPrev0 | rwGo1
  -- release, reader with a predecessor (unlink from the middle)
  | rrFadd | rrTryP | rrCasP | rrRelP | rrSetP | rrLockI | rrPN0 | rrLdN | rrCasT | rrSpinN | rrLdN3 | rrXchgNP | rrLdN4 | rrPN | rrUnlP
  -- release, reader without predecessor (head)
  | rhLockI | rhLdN | rhCasT | rhSpinN | rhLdN2 | rhGo2 | rhXchgP | rhGo1
  -- release: unblock_or_wait_on_internal_lock, lifetime spin, scoped_lock::initialize
  | rUnb | rDone | rInitI | rInitG
  -- downgrade_to_reader
  | dLdN | dSetR | dLdT | dCas | dSpinN | dLdN2 | dLdS | dGo | dLdS2 | dLoser | dSetA
  -- upgrade_to_writer
  | uSetReq | uLockI | uCasT | uSpinN | uFaddN | uLdS | uGo | uXchgP | uUnb | uLoopN | uLoopS | uLoopN2 | uFixN | uFixN2 | uRelI | uCasS
  | uCasT2 | uFaddP | uTryP | uCasPS | uCasP | uSpinP1 | uLdP1 | uSpinP2 | uRelP2 | uSetP | uRelP | uSpinP3 | uLdP3 | uPrev0
  | uWaitI | uWaitG | uLdRes | uSetW | uSetG
  deriving Repr, DecidableEq, Hashable

/-- `state_t_flags` -/
abbrev sWRITER : Nat := 1
abbrev sREADER : Nat := 2
abbrev sUNBLOCK : Nat := 4
abbrev sACTIVE : Nat := 8
abbrev sUPGREQ : Nat := 16
abbrev sUPGWAIT : Nat := 32
abbrev sUPGLOSER : Nat := 64
/-- STATE_COMBINED_WAITINGREADER = READER | READER_UNBLOCKNEXT -/
abbrev mWAITINGREADER : Nat := 6
/-- STATE_COMBINED_READER | STATE_UPGRADE_REQUESTED -/
abbrev mREADERorREQ : Nat := 30
/-- STATE_COMBINED_UPGRADING = UPGRADE_WAITING | UPGRADE_LOSER -/
abbrev mUPGRADING : Nat := 96

/-- control state and locals of a thread -/
structure Loc where
  ops     : List Op := []
  pc      : Pc := .start
  w       : Bool := false     -- `write` argument of acquire / try_acquire
  pred    : Nat := 0          -- `predecessor`
  pst     : Nat := 0          -- `pred_state` / `n_state`
  nxt     : Nat := 0          -- `next` / `l_next`
  tmp     : Nat := 0          -- `tmp`
  succ    : Bool := false     -- `success` (upgrade_to_writer)
  results : List Nat := []    -- results of completed try_acquire / upgrade_to_writer calls, newest first
  misuse  : Bool := false
  deriving Repr, DecidableEq, Hashable

structure St where
  tail  : Nat := 0
  -- the node (scoped_lock) of every thread
  prev  : Tid → Nat := fun _ => 0
  next  : Tid → Nat := fun _ => 0
  state : Tid → Nat := fun _ => 0
  going : Tid → Nat := fun _ => 0
  ilock : Tid → Nat := fun _ => 0
  -- control state and locals
  loc   : Tid → Loc := fun _ => {}
  -- ghost, per thread / node
  held  : Tid → Nat := fun _ => 0          -- 0 none / 1 reader / 2 writer
  inq   : Tid → Bool := fun _ => false     -- the node is in the queue (from its q_tail exchange / successful try-CAS to its hand-on step)
  pos   : Tid → Nat := fun _ => 0          -- ticket: value of `cnt` at the q_tail exchange (queue order)
  gpred : Tid → Nat := fun _ => 0          -- the node's current predecessor in the queue (pointer encoding, never tagged), 0 = head
  gr    : Tid → Bool := fun _ => false     -- entitled to the lock: found the queue empty, saw its predecessor ACTIVEREADER, or was sent my_going = 1
  iown  : Tid → Nat := fun _ => 0          -- owner of this node's my_internal_lock (pointer to the owning THREAD's node), 0 = free
  isW   : Tid → Bool := fun _ => false     -- mode of the request / of the hold (downgrade clears it at its first access, upgrade sets it at its last)
  upg   : Tid → Bool := fun _ => false     -- inside upgrade_to_writer
  dirty : Tid → Bool := fun _ => false     -- some writer held the lock since this thread's upgrade_to_writer began
  -- ghost, global
  bad   : Bool := false
  q     : List Tid := []
  cnt   : Nat := 0                         -- number of q_tail exchanges / successful try-CASes so far

/-- An access as it appears in the E-SHIM trace.  load: a = value; store: a = value written, b = value overwritten;
xchg / fadd: a = old, b = new; cas: a = expected, b = desired (success) / observed (failure).  `ord` = the
std::memory_order of the site ("rlx", "acq", "rel", "acqrel", "sc"). -/
structure Ev where
  kind : String
  var  : String
  ord  : String
  a : Nat
  b : Nat
  ok : Bool
  deriving Repr, DecidableEq, Hashable

inductive Fld where
  | prev | next | state | going | ilock
  deriving Repr, DecidableEq, Hashable

def Fld.name : Fld → String
  | .prev => "prev" | .next => "next" | .state => "state" | .going => "going" | .ilock => "ilock"

def P (t : Tid) : Nat := 2 * (t + 1)
def unflag (p : Nat) : Nat := p - p % 2
def flagOf (p : Nat) : Nat := p % 2
def nodeOf (p : Nat) : Tid := p / 2 - 1
/-- dereferencing `p` is an error (null or tagged) -/
def badPtr (p : Nat) : Bool := p < 2 || p % 2 == 1

def upd {α : Type} (f : Tid → α) (t : Tid) (x : α) : Tid → α := fun i => if i = t then x else f i

/-- read field `f` of node `n` -/
abbrev St.rd (st : St) (n : Tid) (f : Fld) : Nat :=
  match f with
  | .prev => st.prev n | .next => st.next n | .state => st.state n | .going => st.going n | .ilock => st.ilock n
/-- write field `f` of node `n` -/
def St.wr (st : St) (n : Tid) (f : Fld) (v : Nat) : St :=
  match f with
  | .prev => { st with prev := upd st.prev n v } | .next => { st with next := upd st.next n v }
  | .state => { st with state := upd st.state n v } | .going => { st with going := upd st.going n v }
  | .ilock => { st with ilock := upd st.ilock n v }
/-- update the control state / locals of thread `t` -/
def St.lc (st : St) (t : Tid) (g : Loc → Loc) : St := { st with loc := upd st.loc t (g (st.loc t)) }
/-- the access dereferences pointer `p` -/
abbrev St.deref (st : St) (p : Nat) : St := { st with bad := st.bad || badPtr p }

def Loc.done (x : Loc) (res : Option Nat := none) : Loc :=
  { x with ops := x.ops.tail, pc := .start,
           results := match res with | some v => v :: x.results | none => x.results }

/-- pointwise `dirty i || upg i` -/
def orUpg (d u : Tid → Bool) : Tid → Bool := fun i => d i || u i

/-- thread `t` becomes a reader holder and its operation returns -/
def St.grantR (st : St) (t : Tid) (res : Option Nat := none) : St :=
  { st.lc t (fun me => me.done res) with held := upd st.held t 1, upg := upd st.upg t false, dirty := upd st.dirty t false }

/-- thread `t` becomes the writer holder and its operation returns; every thread still inside upgrade_to_writer learns that a
writer holds the lock -/
def St.grantW (st : St) (t : Tid) (res : Option Nat := none) : St :=
  { st.lc t (fun me => me.done res) with
      held := upd st.held t 2, upg := upd st.upg t false, dirty := orUpg (upd st.dirty t false) (upd st.upg t false) }

/-- ghost: thread `t` enters the queue behind `old` (the value its exchange / CAS found in q_tail) -/
def St.enq (st : St) (t : Tid) (old : Nat) : St :=
  { st with inq := upd st.inq t true, pos := upd st.pos t st.cnt, gpred := upd st.gpred t (unflag old), gr := upd st.gr t (old == 0),
            q := st.q ++ [t], cnt := st.cnt + 1 }

/-- ghost: thread `t` leaves the queue; `succ` = the pointer to its successor (0 = none), which inherits `t`'s predecessor -/
def St.deq (st : St) (t : Tid) (succ : Nat) : St :=
  { st with inq := upd st.inq t false, gr := upd st.gr t false, q := st.q.erase t,
            gpred := upd st.gpred (nodeOf succ) (if succ = 0 then st.gpred (nodeOf succ) else st.gpred t) }

/-- ghost: the internal lock of node `n` is now owned by `o` (0 = free) -/
def St.own (st : St) (n : Tid) (o : Nat) : St := { st with iown := upd st.iown n o }

/-- ghost: node `n` becomes entitled to the lock (unless it was an active reader that has left the queue already and only waits for
its predecessor's `my_going := 1` in the lifetime spin of release) -/
def St.entitle (st : St) (n : Tid) : St := { st with gr := upd st.gr n (st.gr n || st.inq n) }

/-- ghost: thread `t` saw its predecessor ACTIVEREADER -/
def St.entitleIf (st : St) (t : Tid) (c : Bool) : St := { st with gr := upd st.gr t (st.gr t || c) }

structure Out where
  st   : St
  ev   : Option Ev := none
  spec : Option QRw.Ev := none

def var (f : Fld) (n : Tid) : String := s!"{f.name}{n}"

def ldEv (f : Fld) (n : Tid) (o : String) (v : Nat) : Option Ev := some ⟨"load", var f n, o, v, 0, true⟩
def stEv (f : Fld) (n : Tid) (o : String) (v old : Nat) : Option Ev := some ⟨"store", var f n, o, v, old, true⟩

/-- plain load of a node field into nothing / a local, then `g` -/
def load (st : St) (t : Tid) (n : Tid) (f : Fld) (o : String) (g : Nat → Loc → Loc) : Out :=
  let v := st.rd n f
  { st := st.lc t (g v), ev := ldEv f n o v }

/-- ghost: thread `t` wrote `v` to field `f` of node `n`: ownership of the internal lock follows the lock byte -/
def St.ownW (st : St) (t : Tid) (n : Tid) (f : Fld) (v : Nat) : St :=
  match f with
  | .ilock => st.own n (if v = 0 then 0 else P t)
  | _ => st

/-- ghost: `t`'s exchange on its successor's my_prev found the tag bit: the successor (pointer `succ`) will release `t`'s internal lock -/
def St.handover (st : St) (t : Tid) (succ : Nat) (old : Nat) : St :=
  st.own t (if flagOf old = 1 then succ else st.iown t)

/-- store to a node field, then `g` on the thread -/
def store (st : St) (t : Tid) (n : Tid) (f : Fld) (o : String) (v : Nat) (g : Loc → Loc) : Out :=
  { st := ((st.wr n f v).ownW t n f v).lc t g, ev := stEv f n o v (st.rd n f) }

/-- exchange on a node field; `g old` on the thread -/
def xchg (st : St) (t : Tid) (n : Tid) (f : Fld) (o : String) (v : Nat) (g : Nat → Loc → Loc) : Out :=
  let old := st.rd n f
  { st := (st.wr n f v).lc t (g old), ev := some ⟨"xchg", var f n, o, old, v, true⟩ }

/-- fetch_add(FLAG) on a node field -/
def fadd (st : St) (t : Tid) (n : Tid) (f : Fld) (o : String) (g : Nat → Loc → Loc) : Out :=
  let old := st.rd n f
  { st := (st.wr n f (old + 1)).lc t (g old), ev := some ⟨"fadd", var f n, o, old, old + 1, true⟩ }

/-- compare_exchange_strong on a node field; `g ok observed` on the thread -/
def cas (st : St) (t : Tid) (n : Tid) (f : Fld) (o : String) (exp des : Nat) (g : Bool → Nat → Loc → Loc) : Out :=
  let cur := st.rd n f
  if cur = exp then { st := ((st.wr n f des).ownW t n f des).lc t (g true cur), ev := some ⟨"cas", var f n, o, exp, des, true⟩ }
  else { st := st.lc t (g false cur), ev := some ⟨"cas", var f n, o, exp, cur, false⟩ }

def goto (pc : Pc) (x : Loc) : Loc := { x with pc := pc }

/-- `unblock_or_wait_on_internal_lock(s, get_flag(tmp))`, then continue at `k` -/
def unblockOrWait (st : St) (t : Tid) (k : Pc) : Out :=
  let me := st.loc t
  if flagOf me.tmp = 1 then load st t t .ilock "acq" (fun v x => if v = 0 then goto k x else x)
  else store st t t .ilock "rel" 0 (goto k)

def tailEv (kind o : String) (a b : Nat) (ok : Bool) : Option Ev := some ⟨kind, "tail", o, a, b, ok⟩

def modeOf (w : Bool) : QRw.Mode := if w then .W else .R

/-- first access of an operation -/
def startOut (st : St) (t : Tid) (op : Op) : Out :=
  match op with
  | .acquire w =>
      if st.held t ≠ 0 ∨ st.upg t then { st := st.lc t (fun x => { x with ops := x.ops.tail, misuse := true }) }
      else store ({ st with isW := upd st.isW t w } : St) t t .prev "rlx" 0 (fun x => { x with w := w, tmp := 0, pc := .aNext })
  | .tryAcquire w =>
      if st.held t ≠ 0 ∨ st.upg t then { st := st.lc t (fun x => { x with ops := x.ops.tail, misuse := true }) }
      else
        let v := st.tail
        if v ≠ 0 then { st := st.lc t (fun x => x.done (some 0)), ev := tailEv "load" "rlx" v 0 true, spec := some (.tryFail t) }
        else { st := ({ st with isW := upd st.isW t w } : St).lc t (fun x => { x with w := w, pc := .tPrev }), ev := tailEv "load" "rlx" v 0 true }
  | .release =>
      if st.held t = 0 then { st := st.lc t (fun x => { x with ops := x.ops.tail, misuse := true }) }
      else
        let o := load ({ st with held := upd st.held t 0 } : St) t t .state "rlx" (fun v x => { x with tmp := 0, pc := if v = sWRITER then .rwLdN else .rrFadd })
        { o with spec := some (.rel t) }
  | .downgrade =>
      if st.held t ≠ 2 then { st := st.lc t (fun x => { x with ops := x.ops.tail, misuse := true }) }
      else
        let o := load ({ st with held := upd st.held t 1, isW := upd st.isW t false } : St) t t .state "rlx" (fun v x => if v = sACTIVE then x.done else goto .dLdN x)
        { o with spec := some (.downgrade t) }
  | .upgrade =>
      if st.held t ≠ 1 then { st := st.lc t (fun x => { x with ops := x.ops.tail, misuse := true }) }
      else
        let v := st.rd t .state
        if v = sWRITER then { st := st.lc t (fun x => x.done (some 1)), ev := ldEv .state t "rlx" v }
        else { st := ({ st with held := upd st.held t 0, upg := upd st.upg t true, dirty := upd st.dirty t false } : St).lc t (fun x => { x with tmp := 0, pc := .uSetReq }),
               ev := ldEv .state t "rlx" v, spec := some (.upgBegin t) }

/-! ### one function per program counter: the access the thread performs there -/

def s_aNext (st : St) (t : Tid) : Out :=
  store st t t .next "rlx" 0 (goto .aGoing)

def s_aGoing (st : St) (t : Tid) : Out :=
  store st t t .going "rlx" 0 (goto .aState)

def s_aState (st : St) (t : Tid) : Out :=
  let me := st.loc t
  store st t t .state "rlx" (if me.w then sWRITER else sREADER) (goto .aIlock)

def s_aIlock (st : St) (t : Tid) : Out :=
  store st t t .ilock "rlx" 0 (goto .aXchg)

def s_aXchg (st : St) (t : Tid) : Out :=
  let me := st.loc t
  let old := st.tail
  let st1 : St := ({ st with tail := P t } : St).enq t old
  let ev := tailEv "xchg" "acqrel" old (P t) true
  if me.w then
    if old = 0 then { st := st1.grantW t, ev := ev, spec := some (.enq t .W) }     -- followed by grant, see `specs`
    else { st := st1.lc t (fun x => { x with pred := unflag old, pc := .awLink }), ev := ev, spec := some (.enq t .W) }
  else
    if old = 0 then { st := st1.lc t (fun x => { x with pred := 0, pc := .arCas }), ev := ev, spec := some (.enq t .R) }
    else if flagOf old = 1 then
      { st := st1.lc t (fun x => { x with pred := unflag old, pst := sUPGWAIT, pc := .arPrev }), ev := ev, spec := some (.enq t .R) }
    else { st := st1.lc t (fun x => { x with pred := old, pc := .arPst }), ev := ev, spec := some (.enq t .R) }

def s_awLink (st : St) (t : Tid) : Out :=
  let me := st.loc t
  store (st.deref me.pred) t (nodeOf me.pred) .next "rel" (P t) (goto .awSpin)

def s_awSpin (st : St) (t : Tid) : Out :=
  let v := st.going t
  if v = 1 then { st := st.grantW t, ev := ldEv .going t "acq" v, spec := some (.grant t .W) }
  else { st := st, ev := ldEv .going t "acq" v }

def s_arPst (st : St) (t : Tid) : Out :=
  let me := st.loc t
  let o := load (st.deref me.pred) t (nodeOf me.pred) .state "rlx"
    (fun v x => { x with pst := v, pc := if v = sREADER then .arCasU else if v = sACTIVE then .arReload else .arPrev })
  { o with st := o.st.entitleIf t (st.state (nodeOf me.pred) == sACTIVE) }

def s_arCasU (st : St) (t : Tid) : Out :=
  let me := st.loc t
  let o := cas st t (nodeOf me.pred) .state "rlx" sREADER sUNBLOCK
    (fun ok cur x => if ok then goto .arPrev x else { x with pst := cur, pc := if cur = sACTIVE then .arReload else .arPrev })
  { o with st := o.st.entitleIf t (st.state (nodeOf me.pred) == sACTIVE) }

def s_arReload (st : St) (t : Tid) : Out :=
  let me := st.loc t
  load st t (nodeOf me.pred) .state "acq" (fun _ x => goto .arPrev x)

def s_arPrev (st : St) (t : Tid) : Out :=
  let me := st.loc t
  store st t t .prev "rlx" me.pred (goto .arLink)

def s_arLink (st : St) (t : Tid) : Out :=
  let me := st.loc t
  store (st.deref me.pred) t (nodeOf me.pred) .next "rel" (P t) (goto (if me.pst ≠ sACTIVE then .arSpin else .arCas))

def s_arSpin (st : St) (t : Tid) : Out :=
  load st t t .going "acq" (fun v x => if v = 1 then goto .arCas x else x)

def s_arCas (st : St) (t : Tid) : Out :=
  if st.state t = sREADER then
    { st := (st.wr t .state sACTIVE).grantR t, ev := some ⟨"cas", var .state t, "rel", sREADER, sACTIVE, true⟩, spec := some (.grant t .R) }
  else { st := st.lc t (goto .arWaitN), ev := some ⟨"cas", var .state t, "rel", sREADER, st.state t, false⟩ }

def s_arWaitN (st : St) (t : Tid) : Out :=
  load st t t .next "acq" (fun v x => if v ≠ 0 then goto .arSetA x else x)

def s_arSetA (st : St) (t : Tid) : Out :=
  store st t t .state "rlx" sACTIVE (goto .arLdN)

def s_arLdN (st : St) (t : Tid) : Out :=
  load st t t .next "rlx" (fun v x => { x with nxt := v, pc := .arGo })

def s_arGo (st : St) (t : Tid) : Out :=
  let me := st.loc t
  let n := nodeOf me.nxt
  { st := ((((st.deref me.nxt).wr n .going 1)).entitle n).grantR t, ev := stEv .going n "rel" 1 (st.rd n .going), spec := some (.grant t .R) }

def s_tPrev (st : St) (t : Tid) : Out :=
  store st t t .prev "rlx" 0 (goto .tNext)

def s_tNext (st : St) (t : Tid) : Out :=
  store st t t .next "rlx" 0 (goto .tGoing)

def s_tGoing (st : St) (t : Tid) : Out :=
  store st t t .going "rlx" 0 (goto .tState)

def s_tState (st : St) (t : Tid) : Out :=
  let me := st.loc t
  store st t t .state "rlx" (if me.w then sWRITER else sACTIVE) (goto .tIlock)

def s_tIlock (st : St) (t : Tid) : Out :=
  store st t t .ilock "rlx" 0 (goto .tCas)

def s_tCas (st : St) (t : Tid) : Out :=
  let me := st.loc t
  if st.tail = 0 then
    (if me.w then
      { st := (({ st with tail := P t } : St).enq t 0).grantW t (some 1),
        ev := tailEv "cas" "acqrel" 0 (P t) true, spec := some (.tryOk t .W) }
     else
      { st := (({ st with tail := P t } : St).enq t 0).grantR t (some 1),
        ev := tailEv "cas" "acqrel" 0 (P t) true, spec := some (.tryOk t .R) })
  else { st := st.lc t (fun x => x.done (some 0)), ev := tailEv "cas" "acqrel" 0 st.tail false, spec := some (.tryFail t) }

def s_rwLdN (st : St) (t : Tid) : Out :=
  load st t t .next "acq" (fun v x => { x with nxt := v, pc := if v = 0 then .rwCasT else .rwGo2 })

def s_rwCasT (st : St) (t : Tid) : Out :=
  if st.tail = P t then
    { st := (({ st with tail := 0 } : St).deq t 0).lc t (goto .rDone), ev := tailEv "cas" "rel" (P t) 0 true }
  else { st := st.lc t (goto .rwSpinN), ev := tailEv "cas" "rel" (P t) st.tail false }

def s_rwSpinN (st : St) (t : Tid) : Out :=
  load st t t .next "rlx" (fun v x => if v ≠ 0 then goto .rwLdN2 x else x)

def s_rwLdN2 (st : St) (t : Tid) : Out :=
  load st t t .next "acq" (fun v x => { x with nxt := v, pc := .rwGo2 })

def s_rwGo2 (st : St) (t : Tid) : Out :=
  let me := st.loc t
  store (st.deref me.nxt) t (nodeOf me.nxt) .going "rlx" 2 (goto .rwLdS)

def s_rwLdS (st : St) (t : Tid) : Out :=
  let me := st.loc t
  load st t (nodeOf me.nxt) .state "acq" (fun v x => goto (if v = sUPGWAIT then .rwLockI else .rwPrev0) x)

def s_rwLockI (st : St) (t : Tid) : Out :=
  cas st t t .ilock "sc" 0 1 (fun ok _ x => if ok then goto .rwXchgP x else x)

def s_rwXchgP (st : St) (t : Tid) : Out :=
  let me := st.loc t
  let o := xchg st t (nodeOf me.nxt) .prev "rel" 0 (fun old x => { x with tmp := old, pc := .rwLoser })
  { o with st := (o.st.deq t me.nxt).handover t me.nxt (st.rd (nodeOf me.nxt) .prev) }

def s_rwLoser (st : St) (t : Tid) : Out :=
  let me := st.loc t
  store st t (nodeOf me.nxt) .state "rel" sUPGLOSER (goto .rwGo1u)

def s_rwGo1u (st : St) (t : Tid) : Out :=
  let me := st.loc t
  let o := store st t (nodeOf me.nxt) .going "rel" 1 (goto .rUnb)
  { o with st := o.st.entitle (nodeOf me.nxt) }

def s_rwPrev0 (st : St) (t : Tid) : Out :=
  let me := st.loc t
  let o := store st t (nodeOf me.nxt) .prev "rel" 0 (goto .rwGo1)
  { o with st := o.st.deq t me.nxt }

def s_rwGo1 (st : St) (t : Tid) : Out :=
  let me := st.loc t
  let o := store st t (nodeOf me.nxt) .going "rel" 1 (goto .rDone)
  { o with st := o.st.entitle (nodeOf me.nxt) }

def s_rrFadd (st : St) (t : Tid) : Out :=
  fadd st t t .prev "acq" (fun old x => { x with pred := old, pc := if old ≠ 0 then .rrTryP else .rhLockI })

def s_rrTryP (st : St) (t : Tid) : Out :=
  let me := st.loc t
  cas (st.deref me.pred) t (nodeOf me.pred) .ilock "sc" 0 1 (fun ok _ x => goto (if ok then .rrSetP else .rrCasP) x)

def s_rrCasP (st : St) (t : Tid) : Out :=
  let me := st.loc t
  cas st t t .prev "acq" (unflag me.pred + 1) me.pred
    (fun ok cur x => if ok then { x with tmp := 0, pc := .rrFadd }
                     else if flagOf cur = 0 then { x with tmp := cur, pc := .rrRelP } else { x with tmp := 0, pc := .rrFadd })

def s_rrRelP (st : St) (t : Tid) : Out :=
  let me := st.loc t
  store st t (nodeOf me.pred) .ilock "rel" 0 (fun x => { x with tmp := 0, pc := .rrFadd })

def s_rrSetP (st : St) (t : Tid) : Out :=
  let me := st.loc t
  store st t t .prev "rlx" me.pred (goto .rrLockI)

def s_rrLockI (st : St) (t : Tid) : Out :=
  cas st t t .ilock "sc" 0 1 (fun ok _ x => if ok then goto .rrPN0 x else x)

def s_rrPN0 (st : St) (t : Tid) : Out :=
  let me := st.loc t
  store st t (nodeOf me.pred) .next "rel" 0 (goto .rrLdN)

def s_rrLdN (st : St) (t : Tid) : Out :=
  load st t t .next "acq" (fun v x => goto (if v ≠ 0 then .rrLdN3 else .rrCasT) x)

def s_rrCasT (st : St) (t : Tid) : Out :=
  let me := st.loc t
  if st.tail = P t then
    { st := (({ st with tail := me.pred } : St).deq t 0).lc t (goto .rrLdN3), ev := tailEv "cas" "rel" (P t) me.pred true }
  else { st := st.lc t (goto .rrSpinN), ev := tailEv "cas" "rel" (P t) st.tail false }

def s_rrSpinN (st : St) (t : Tid) : Out :=
  load st t t .next "acq" (fun v x => if v ≠ 0 then goto .rrLdN3 x else x)

def s_rrLdN3 (st : St) (t : Tid) : Out :=
  load st t t .next "rlx" (fun v x => { x with nxt := v, pc := if v ≠ 0 then .rrXchgNP else .rrUnlP })

def s_rrXchgNP (st : St) (t : Tid) : Out :=
  let me := st.loc t
  let o := xchg (st.deref me.nxt) t (nodeOf me.nxt) .prev "rel" me.pred (fun old x => { x with tmp := old, pc := .rrLdN4 })
  { o with st := (o.st.deq t me.nxt).handover t me.nxt (st.rd (nodeOf me.nxt) .prev) }

def s_rrLdN4 (st : St) (t : Tid) : Out :=
  load st t t .next "rlx" (fun v x => { x with nxt := v, pc := .rrPN })

def s_rrPN (st : St) (t : Tid) : Out :=
  let me := st.loc t
  store st t (nodeOf me.pred) .next "rel" me.nxt (goto .rrUnlP)

def s_rrUnlP (st : St) (t : Tid) : Out :=
  let me := st.loc t
  store st t (nodeOf me.pred) .ilock "rel" 0 (goto .rUnb)

def s_rhLockI (st : St) (t : Tid) : Out :=
  cas st t t .ilock "sc" 0 1 (fun ok _ x => if ok then goto .rhLdN x else x)

def s_rhLdN (st : St) (t : Tid) : Out :=
  load st t t .next "acq" (fun v x => { x with nxt := v, pc := if v = 0 then .rhCasT else .rhGo2 })

def s_rhCasT (st : St) (t : Tid) : Out :=
  if st.tail = P t then
    { st := (({ st with tail := 0 } : St).deq t 0).lc t (goto .rUnb), ev := tailEv "cas" "rel" (P t) 0 true }
  else { st := st.lc t (goto .rhSpinN), ev := tailEv "cas" "rel" (P t) st.tail false }

def s_rhSpinN (st : St) (t : Tid) : Out :=
  load st t t .next "rlx" (fun v x => if v ≠ 0 then goto .rhLdN2 x else x)

def s_rhLdN2 (st : St) (t : Tid) : Out :=
  load st t t .next "acq" (fun v x => { x with nxt := v, pc := .rhGo2 })

def s_rhGo2 (st : St) (t : Tid) : Out :=
  let me := st.loc t
  store (st.deref me.nxt) t (nodeOf me.nxt) .going "rlx" 2 (goto .rhXchgP)

def s_rhXchgP (st : St) (t : Tid) : Out :=
  let me := st.loc t
  let o := xchg st t (nodeOf me.nxt) .prev "rel" 0 (fun old x => { x with tmp := old, pc := .rhGo1 })
  { o with st := (o.st.deq t me.nxt).handover t me.nxt (st.rd (nodeOf me.nxt) .prev) }

def s_rhGo1 (st : St) (t : Tid) : Out :=
  let me := st.loc t
  let o := store st t (nodeOf me.nxt) .going "rel" 1 (goto .rUnb)
  { o with st := o.st.entitle (nodeOf me.nxt) }

def s_rUnb (st : St) (t : Tid) : Out :=
  unblockOrWait st t .rDone

def s_rDone (st : St) (t : Tid) : Out :=
  load st t t .going "rlx" (fun v x => if v ≠ 2 then goto .rInitI x else x)

def s_rInitI (st : St) (t : Tid) : Out :=
  store st t t .ilock "rlx" 0 (goto .rInitG)

def s_rInitG (st : St) (t : Tid) : Out :=
  store st t t .going "rlx" 0 (fun x => x.done)

def s_dLdN (st : St) (t : Tid) : Out :=
  load st t t .next "acq" (fun v x => { x with nxt := v, pc := if v = 0 then .dSetR else .dLdS })

def s_dSetR (st : St) (t : Tid) : Out :=
  store st t t .state "sc" sREADER (goto .dLdT)

def s_dLdT (st : St) (t : Tid) : Out :=
  { st := st.lc t (goto (if st.tail = P t then .dCas else .dSpinN)), ev := tailEv "load" "sc" st.tail 0 true }

def s_dCas (st : St) (t : Tid) : Out :=
  cas st t t .state "rel" sREADER sACTIVE (fun ok _ x => if ok then x.done else goto .dSpinN x)

def s_dSpinN (st : St) (t : Tid) : Out :=
  load st t t .next "rlx" (fun v x => if v ≠ 0 then goto .dLdN2 x else x)

def s_dLdN2 (st : St) (t : Tid) : Out :=
  load st t t .next "acq" (fun v x => { x with nxt := v, pc := .dLdS })

def s_dLdS (st : St) (t : Tid) : Out :=
  let me := st.loc t
  load (st.deref me.nxt) t (nodeOf me.nxt) .state "rlx"
    (fun v x => { x with pst := v, pc := if v &&& mWAITINGREADER ≠ 0 then .dGo else .dLdS2 })

def s_dGo (st : St) (t : Tid) : Out :=
  let me := st.loc t
  let o := store st t (nodeOf me.nxt) .going "rel" 1 (goto .dSetA)
  { o with st := o.st.entitle (nodeOf me.nxt) }

def s_dLdS2 (st : St) (t : Tid) : Out :=
  let me := st.loc t
  load st t (nodeOf me.nxt) .state "acq" (fun v x => goto (if v = sUPGWAIT then .dLoser else .dSetA) x)

def s_dLoser (st : St) (t : Tid) : Out :=
  let me := st.loc t
  store st t (nodeOf me.nxt) .state "rel" sUPGLOSER (goto .dSetA)

def s_dSetA (st : St) (t : Tid) : Out :=
  store st t t .state "rel" sACTIVE (fun x => x.done)

def s_uSetReq (st : St) (t : Tid) : Out :=
  store st t t .state "rel" sUPGREQ (goto .uLockI)

def s_uLockI (st : St) (t : Tid) : Out :=
  cas st t t .ilock "sc" 0 1 (fun ok _ x => if ok then goto .uCasT x else x)

def s_uCasT (st : St) (t : Tid) : Out :=
  if st.tail = P t then { st := ({ st with tail := P t + 1 } : St).lc t (goto .uRelI), ev := tailEv "cas" "acqrel" (P t) (P t + 1) true }
  else { st := st.lc t (goto .uSpinN), ev := tailEv "cas" "acqrel" (P t) st.tail false }

def s_uSpinN (st : St) (t : Tid) : Out :=
  load st t t .next "rlx" (fun v x => if v ≠ 0 then goto .uFaddN x else x)

def s_uFaddN (st : St) (t : Tid) : Out :=
  fadd st t t .next "acq" (fun old x => { x with nxt := old, pc := .uLdS })

def s_uLdS (st : St) (t : Tid) : Out :=
  let me := st.loc t
  load (st.deref me.nxt) t (nodeOf me.nxt) .state "acq"
    (fun v x => { x with pst := v, pc := if v &&& mWAITINGREADER ≠ 0 then .uGo else .uXchgP })

def s_uGo (st : St) (t : Tid) : Out :=
  let me := st.loc t
  let o := store st t (nodeOf me.nxt) .going "rel" 1 (goto .uXchgP)
  { o with st := o.st.entitle (nodeOf me.nxt) }

def s_uXchgP (st : St) (t : Tid) : Out :=
  let me := st.loc t
  let o := xchg st t (nodeOf me.nxt) .prev "rel" (P t) (fun old x => { x with tmp := old, pc := .uUnb })
  { o with st := o.st.handover t me.nxt (st.rd (nodeOf me.nxt) .prev) }

def s_uUnb (st : St) (t : Tid) : Out :=
  let me := st.loc t
  unblockOrWait st t (if me.pst &&& mREADERorREQ ≠ 0 then .uLoopN else .uFixN2)

def s_uLoopN (st : St) (t : Tid) : Out :=
  let me := st.loc t
  load st t t .next "rlx" (fun v x => goto (if v = unflag me.nxt + 1 then .uLoopS else .uLockI) x)

def s_uLoopS (st : St) (t : Tid) : Out :=
  load st t t .state "acq" (fun v x => goto (if v &&& mUPGRADING ≠ 0 then .uLoopN2 else .uLoopN) x)

def s_uLoopN2 (st : St) (t : Tid) : Out :=
  let me := st.loc t
  load st t t .next "acq" (fun v x => goto (if v = unflag me.nxt + 1 then .uFixN else .uCasT2) x)

def s_uFixN (st : St) (t : Tid) : Out :=
  let me := st.loc t
  store st t t .next "rlx" me.nxt (goto .uCasT2)

def s_uFixN2 (st : St) (t : Tid) : Out :=
  let me := st.loc t
  store st t t .next "rlx" me.nxt (goto .uCasS)

def s_uRelI (st : St) (t : Tid) : Out :=
  store st t t .ilock "rel" 0 (goto .uCasS)

def s_uCasS (st : St) (t : Tid) : Out :=
  cas st t t .state "rel" sUPGREQ sUPGWAIT (fun _ _ x => goto .uCasT2 x)

def s_uCasT2 (st : St) (t : Tid) : Out :=
  if st.tail = P t + 1 then { st := ({ st with tail := P t } : St).lc t (goto .uFaddP), ev := tailEv "cas" "rel" (P t + 1) (P t) true }
  else { st := st.lc t (goto .uFaddP), ev := tailEv "cas" "rel" (P t + 1) st.tail false }

def s_uFaddP (st : St) (t : Tid) : Out :=
  fadd st t t .prev "acq" (fun old x => { x with pred := old, pc := if old ≠ 0 then .uTryP else .uPrev0 })

def s_uTryP (st : St) (t : Tid) : Out :=
  let me := st.loc t
  cas (st.deref me.pred) t (nodeOf me.pred) .ilock "sc" 0 1 (fun ok _ x => { x with succ := ok, pc := .uCasPS })

def s_uCasPS (st : St) (t : Tid) : Out :=
  let me := st.loc t
  cas st t (nodeOf me.pred) .state "rel" sUPGREQ sUPGWAIT (fun _ _ x => goto (if me.succ then .uSetP else .uCasP) x)

def s_uCasP (st : St) (t : Tid) : Out :=
  let me := st.loc t
  cas st t t .prev "acq" (unflag me.pred + 1) me.pred
    (fun ok cur x => if ok then { x with tmp := unflag me.pred + 1, pc := .uSpinP1 }
                     else { x with tmp := cur, pc := if flagOf cur = 1 then .uSpinP1 else .uSpinP2 })

def s_uSpinP1 (st : St) (t : Tid) : Out :=
  let me := st.loc t
  load st t t .prev "acq" (fun v x => if v ≠ me.pred then goto .uLdP1 x else x)

def s_uLdP1 (st : St) (t : Tid) : Out :=
  load st t t .prev "rlx" (fun v x => { x with pred := v, pc := if v ≠ 0 then .uCasT2 else .uWaitI })

def s_uSpinP2 (st : St) (t : Tid) : Out :=
  let me := st.loc t
  load st t t .prev "acq" (fun v x => if v ≠ unflag me.pred + 1 then goto .uRelP2 x else x)

def s_uRelP2 (st : St) (t : Tid) : Out :=
  let me := st.loc t
  store st t (nodeOf me.pred) .ilock "rel" 0 (goto .uCasT2)

def s_uSetP (st : St) (t : Tid) : Out :=
  let me := st.loc t
  store st t t .prev "rlx" me.pred (goto .uRelP)

def s_uRelP (st : St) (t : Tid) : Out :=
  let me := st.loc t
  store st t (nodeOf me.pred) .ilock "rel" 0 (goto .uSpinP3)

def s_uSpinP3 (st : St) (t : Tid) : Out :=
  let me := st.loc t
  load st t t .prev "acq" (fun v x => if v ≠ me.pred then goto .uLdP3 x else x)

def s_uLdP3 (st : St) (t : Tid) : Out :=
  load st t t .prev "rlx" (fun v x => { x with pred := v, pc := if v ≠ 0 then .uCasT2 else .uWaitI })

def s_uPrev0 (st : St) (t : Tid) : Out :=
  store st t t .prev "rlx" 0 (goto .uWaitI)

def s_uWaitI (st : St) (t : Tid) : Out :=
  load st t t .ilock "acq" (fun v x => if v = 0 then goto .uWaitG x else x)

def s_uWaitG (st : St) (t : Tid) : Out :=
  load st t t .going "acq" (fun v x => if v ≠ 2 then goto .uLdRes x else x)

def s_uLdRes (st : St) (t : Tid) : Out :=
  load st t t .state "sc" (fun v x => { x with succ := v ≠ sUPGLOSER, pc := .uSetW })

def s_uSetW (st : St) (t : Tid) : Out :=
  store st t t .state "rlx" sWRITER (goto .uSetG)

def s_uSetG (st : St) (t : Tid) : Out :=
  let me := st.loc t
  let r := if me.succ then 1 else 0
  { st := ({ st.wr t .going 1 with isW := upd st.isW t true } : St).grantW t (some r), ev := stEv .going t "rlx" 1 (st.going t), spec := some (.upgEnd t me.succ) }

/-- One atomic access of thread `t`. -/
def stepOut (st : St) (t : Tid) : Out :=
  match (st.loc t).ops with
  | [] => { st := st }
  | op :: _ =>
  match (st.loc t).pc with
  | .start => startOut st t op
  -- acquire -------------------------------------------------------------------------------------------------------
  | .aNext => s_aNext st t
  | .aGoing => s_aGoing st t
  | .aState => s_aState st t
  | .aIlock => s_aIlock st t
  | .aXchg => s_aXchg st t
  | .awLink => s_awLink st t
  | .awSpin => s_awSpin st t
  | .arPst => s_arPst st t
  | .arCasU => s_arCasU st t
  | .arReload => s_arReload st t
  | .arPrev => s_arPrev st t
  | .arLink => s_arLink st t
  | .arSpin => s_arSpin st t
  | .arCas => s_arCas st t
  | .arWaitN => s_arWaitN st t
  | .arSetA => s_arSetA st t
  | .arLdN => s_arLdN st t
  | .arGo => s_arGo st t
  -- try_acquire -----------------------------------------------------------------------------------------------------
  | .tPrev => s_tPrev st t
  | .tNext => s_tNext st t
  | .tGoing => s_tGoing st t
  | .tState => s_tState st t
  | .tIlock => s_tIlock st t
  | .tCas => s_tCas st t
  -- release, writer ---------------------------------------------------------------------------------------------------
  | .rwLdN => s_rwLdN st t
  | .rwCasT => s_rwCasT st t
  | .rwSpinN => s_rwSpinN st t
  | .rwLdN2 => s_rwLdN2 st t
  | .rwGo2 => s_rwGo2 st t
  | .rwLdS => s_rwLdS st t
  | .rwLockI => s_rwLockI st t
  | .rwXchgP => s_rwXchgP st t
  | .rwLoser => s_rwLoser st t
  | .rwGo1u => s_rwGo1u st t
  | .rwPrev0 => s_rwPrev0 st t
  | .rwGo1 => s_rwGo1 st t
  -- release, reader: retry loop -----------------------------------------------------------------------------------------
  | .rrFadd => s_rrFadd st t
  | .rrTryP => s_rrTryP st t
  | .rrCasP => s_rrCasP st t
  | .rrRelP => s_rrRelP st t
  | .rrSetP => s_rrSetP st t
  | .rrLockI => s_rrLockI st t
  | .rrPN0 => s_rrPN0 st t
  | .rrLdN => s_rrLdN st t
  | .rrCasT => s_rrCasT st t
  | .rrSpinN => s_rrSpinN st t
  | .rrLdN3 => s_rrLdN3 st t
  | .rrXchgNP => s_rrXchgNP st t
  | .rrLdN4 => s_rrLdN4 st t
  | .rrPN => s_rrPN st t
  | .rrUnlP => s_rrUnlP st t
  -- release, reader without predecessor --------------------------------------------------------------------------------------
  | .rhLockI => s_rhLockI st t
  | .rhLdN => s_rhLdN st t
  | .rhCasT => s_rhCasT st t
  | .rhSpinN => s_rhSpinN st t
  | .rhLdN2 => s_rhLdN2 st t
  | .rhGo2 => s_rhGo2 st t
  | .rhXchgP => s_rhXchgP st t
  | .rhGo1 => s_rhGo1 st t
  -- release: common tail -----------------------------------------------------------------------------------------------------
  | .rUnb => s_rUnb st t
  | .rDone => s_rDone st t
  | .rInitI => s_rInitI st t
  | .rInitG => s_rInitG st t
  -- downgrade_to_reader ----------------------------------------------------------------------------------------------------------
  | .dLdN => s_dLdN st t
  | .dSetR => s_dSetR st t
  | .dLdT => s_dLdT st t
  | .dCas => s_dCas st t
  | .dSpinN => s_dSpinN st t
  | .dLdN2 => s_dLdN2 st t
  | .dLdS => s_dLdS st t
  | .dGo => s_dGo st t
  | .dLdS2 => s_dLdS2 st t
  | .dLoser => s_dLoser st t
  | .dSetA => s_dSetA st t
  -- upgrade_to_writer --------------------------------------------------------------------------------------------------------------
  | .uSetReq => s_uSetReq st t
  | .uLockI => s_uLockI st t
  | .uCasT => s_uCasT st t
  | .uSpinN => s_uSpinN st t
  | .uFaddN => s_uFaddN st t
  | .uLdS => s_uLdS st t
  | .uGo => s_uGo st t
  | .uXchgP => s_uXchgP st t
  | .uUnb => s_uUnb st t
  | .uLoopN => s_uLoopN st t
  | .uLoopS => s_uLoopS st t
  | .uLoopN2 => s_uLoopN2 st t
  | .uFixN => s_uFixN st t
  | .uFixN2 => s_uFixN2 st t
  | .uRelI => s_uRelI st t
  | .uCasS => s_uCasS st t
  | .uCasT2 => s_uCasT2 st t
  | .uFaddP => s_uFaddP st t
  | .uTryP => s_uTryP st t
  | .uCasPS => s_uCasPS st t
  | .uCasP => s_uCasP st t
  | .uSpinP1 => s_uSpinP1 st t
  | .uLdP1 => s_uLdP1 st t
  | .uSpinP2 => s_uSpinP2 st t
  | .uRelP2 => s_uRelP2 st t
  | .uSetP => s_uSetP st t
  | .uRelP => s_uRelP st t
  | .uSpinP3 => s_uSpinP3 st t
  | .uLdP3 => s_uLdP3 st t
  | .uPrev0 => s_uPrev0 st t
  | .uWaitI => s_uWaitI st t
  | .uWaitG => s_uWaitG st t
  | .uLdRes => s_uLdRes st t
  | .uSetW => s_uSetW st t
  | .uSetG => s_uSetG st t

def step (st : St) (t : Tid) : St := (stepOut st t).st

/-- the specification events a step stands for (an uncontended writer acquire is `enq` immediately followed by `grant`) -/
def specs (st : St) (t : Tid) : List QRw.Ev :=
  match (stepOut st t).spec with
  | none => []
  | some (.enq u .W) => if (stepOut st t).st.held t = 2 then [.enq u .W, .grant u .W] else [.enq u .W]
  | some e => [e]

def initLoc (progs : List (List Op)) : Tid → Loc := fun i => { ops := progs.getD i [] }

def sys (progs : List (List Op)) : Sys St :=
  { init := { loc := initLoc progs }, step := step }

/-! ## line-protocol driver (trace replay) -/

open Proto

def parseOp : String → Option Op
  | "acquire_r" => some (.acquire false) | "acquire_w" => some (.acquire true)
  | "try_r" => some (.tryAcquire false) | "try_w" => some (.tryAcquire true)
  | "release" => some .release | "upgrade" => some .upgrade | "downgrade" => some .downgrade
  | _ => none

structure DSt where
  st : St := {}
  n  : Nat := 0

def pcName (p : Pc) : String := ((reprStr p).splitOn ".").getLast!

def showEv : Option Ev → String
  | none => "-"
  | some e => s!"{e.kind} {e.var} {e.ord} {e.a} {e.b} {showBool e.ok}"

def showMode : QRw.Mode → String
  | .R => "R" | .W => "W"

def showSpec : QRw.Ev → String
  | .enq t m => s!"enq {t} {showMode m}"
  | .grant t m => s!"grant {t} {showMode m}"
  | .tryOk t m => s!"tryOk {t} {showMode m}"
  | .tryFail t => s!"tryFail {t}"
  | .rel t => s!"rel {t}"
  | .upgBegin t => s!"upgBegin {t}"
  | .upgEnd t r => s!"upgEnd {t} {showBool r}"
  | .downgrade t => s!"downgrade {t}"

def nHeld (d : DSt) (m : Nat) : Nat := ((List.range d.n).filter (fun i => d.st.held i == m)).length

/-- `prog <op>*` appends a thread; `s <tid>`: the thread performs its next atomic access, prints
`<kind> <var> <order> <a> <b> <ok> | <ops left> <results newest-first…> | <spec events, ';'-separated> | <#writers held> <#readers held>`;
`state` prints `<tail> <bad> <any misuse> | <q…>`. -/
def drive (d : DSt) (ws : List String) : DSt × String :=
  match ws with
  | "prog" :: ops =>
      match ops.mapM parseOp with
      | some os => ({ st := { d.st with loc := upd d.st.loc d.n { ops := os } }, n := d.n + 1 }, "ok")
      | none => (d, "bad-op")
  | ["s", t] =>
      match nat? t with
      | some t =>
        if t < d.n then
          let o := stepOut d.st t
          let sp := specs d.st t
          let th := o.st.loc t
          let d' := { d with st := o.st }
          (d', s!"{showEv o.ev} | {th.ops.length} {showNats th.results} | {"; ".intercalate (sp.map showSpec)} | {nHeld d' 2} {nHeld d' 1}")
        else (d, "bad-tid")
      | none => (d, "bad-op")
  | ["e", t, kind, v, a, b, ok] =>
      -- conditional step: the access of the implementation must be the model's next access of that thread (kind, variable,
      -- values, CAS outcome); on a mismatch the model state is left unchanged and the model's access is printed
      match nat? t, nat? a, nat? b with
      | some t, some a, some b =>
        if t < d.n then
          let o := stepOut d.st t
          match o.ev with
          | some e =>
            if e.kind == kind && e.var == v && e.a == a && e.b == b && showBool e.ok == ok then
              let sp := specs d.st t
              let th := o.st.loc t
              let d' := { d with st := o.st }
              (d', s!"ok {e.ord} {pcName (d.st.loc t).pc} | {th.ops.length} {showNats th.results} | {"; ".intercalate (sp.map showSpec)} | {nHeld d' 2} {nHeld d' 1}")
            else (d, s!"MISMATCH {showEv o.ev}")
          | none => (d, if ((d.st.loc t).ops).isEmpty then "MISMATCH program-finished" else "MISMATCH misuse")
        else (d, "bad-tid")
      | _, _, _ => (d, "bad-op")
  | ["state"] =>
      (d, s!"{d.st.tail} {showBool d.st.bad} {showBool ((List.range d.n).any (fun i => (d.st.loc i).misuse))} | {showNats d.st.q}")
  | ["reset"] => ({}, "ok")
  | _ => (d, "bad-op")

def driver : Proto.Driver := { σ := DSt, init := {}, step := drive }

end TbbVerif.C08.QRwN
