/-
C07 — `input_buffer` at machine-word level (executable, core Lean only).

`Token` is `unsigned long`: `low_token`, `high_token`, `task_info::my_token` are words of `tokenBits` bits and every
`++`, `-`, `+ 1` on them wraps.  `Model/C07.lean` uses unbounded naturals; this file is the same code with the wrapping
made explicit, so that the ring theorems can be transferred to token numbers that cross 2^64
(`Props.tokenbuf_wrap_refines`, `tokenbuf_no_collision_wrap`).

  try_put_token:   `(long)(token-low_token) >= 0` (assertion) · `token != low_token` · `token-low_token >= array_size`
                   · `grow(token-low_token+1)` · `array[token & (array_size-1)]` · `high_token++`
  note-done:       `array[++low_token & (array_size-1)]`
  grow:            `Token t = low_token; for (i < old_size; ++i, ++t) new_array[t&(new_size-1)] = old_array[t&(old_size-1)]`
-/
import TbbVerif.Model.C07

namespace TbbVerif.C07.Wrap

open TbbVerif.C07

/-- number of values of a `Token` -/
def W : Nat := 2 ^ Generated.C07.tokenBits

/-- `a - b` on words -/
def wsub (a b : Nat) : Nat := (a + (W - b % W)) % W

/-- `a + 1` on words -/
def winc (a : Nat) : Nat := (a + 1) % W

/-- `(long)x >= 0` for a word `x` -/
def nonneg (x : Nat) : Bool := decide (x < W / 2)

def grow (b : TokenBuf) (minSize : Nat) : TokenBuf :=
  let newSize := TokenBuf.growSize b.size minSize
  let fresh : List (Option Info) := List.replicate newSize none
  let slots' := (List.range b.size).foldl
    (fun acc i => acc.set (TokenBuf.idx newSize ((b.low + i) % W)) (b.slots.getD (TokenBuf.idx b.size ((b.low + i) % W)) none)) fresh
  { b with size := newSize, slots := slots' }

def park (b1 : TokenBuf) (info1 : Info) (tok : Nat) : Option (TokenBuf × Info × Nat × Bool) :=
  if !nonneg (wsub tok b1.low) then none
  else if tok ≠ b1.low then
    let b2 := if wsub tok b1.low ≥ b1.size then grow b1 (wsub tok b1.low + 1) else b1
    some ({ b2 with slots := b2.slots.set (TokenBuf.idx b2.size tok) (some info1) }, info1, tok, true)
  else some (b1, info1, tok, false)

def tryPut (b : TokenBuf) (info : Info) : Option (TokenBuf × Info × Nat × Bool) :=
  if b.ordered then
    if info.ready then park b info info.token
    else park { b with high := winc b.high } { info with token := b.high, ready := true } b.high
  else park { b with high := winc b.high } info b.high

def noteDone (b : TokenBuf) : TokenBuf × Option Info :=
  let low' := winc b.low
  let j := TokenBuf.idx b.size low'
  ({ b with low := low', slots := b.slots.set j none }, b.slots.getD j none)

def getOrderedToken (b : TokenBuf) : TokenBuf × Nat := ({ b with high := winc b.high }, b.high)

/-- a buffer whose counters start at `off` (the white-box test sets `low_token = high_token = off`) -/
def newAt (ordered : Bool) (off : Nat) : TokenBuf := { TokenBuf.new ordered with low := off, high := off }

/-! ## driver `c07bufw`: white-box differential of the real `input_buffer` with counters near SIZE_MAX -/

open Proto

def driveBufW (b : TokenBuf) (ws : List String) : TokenBuf × String :=
  match ws with
  | ["neww", o, off] => match nat? o, nat? off with
      | some o, some off => if off < W then let b' := newAt (o != 0) off; (b', showBuf b') else (b, "bad-op")
      | _, _ => (b, "bad-op")
  | ["put", item, ready, token] => match nat? item, nat? ready, nat? token with
      | some item, some ready, some token =>
        if token ≥ W then (b, "bad-op") else
        (match tryPut b { item := item, token := token, ready := ready != 0 } with
         | none => (b, "reject")
         | some (b', i', tok, parked) => (b', s!"P {showBool parked} {showInfo i'} {tok} | {showBuf b'}"))
      | _, _, _ => (b, "bad-op")
  | ["done"] =>
      let r := noteDone b
      (r.1, (match r.2 with | none => "D -" | some i => s!"D {showInfo i}") ++ s!" | {showBuf r.1}")
  | ["tok"] => let r := getOrderedToken b; (r.1, s!"T {r.2} | {showBuf r.1}")
  | _ => (b, "bad-op")

def driverBufW : Proto.Driver := { σ := TokenBuf, init := TokenBuf.new true, step := driveBufW }

end TbbVerif.C07.Wrap
