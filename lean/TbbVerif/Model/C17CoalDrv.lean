/-
C17 — trace replay for the guarded-size protocol model (`Model/C17Coal.lean`): the E-SHIM harness `harness/c17/gs.cpp`
runs the real `FreeBlock::tryLockBlock` / `GuardedSize::tryLock` / `unlock` code under the controlled scheduler and logs
every atomic access to the two tag words; here the model takes the same steps and must predict every access (kind, word,
memory order, value read / expected / written, CAS outcome) and the final outcome.
-/
import TbbVerif.Model.C17Coal
import TbbVerif.Core.Proto

namespace TbbVerif.C17.Coal
open TbbVerif.Generated.C17Backend
open TbbVerif.Proto

/-- the atomic access the next step of a thread performs, as the harness prints it: `kind var order a b ok` -/
def access (s : St) (tid : Nat) : Option String :=
  match s.ths[tid]? with
  | none => none
  | some t =>
    let fm := t.kind.firstIsMy
    let nm (b : Bool) : String := if b then "my" else "lf"
    match t.pc with
    | .start => some s!"load {nm fm} acq {s.word fm} 0 1"
    | .first sz =>
      if sz ≤ gsMaxLockedVal then none
      else if s.word fm = sz then some s!"cas {nm fm} sc {sz} {t.kind.mark} 1"
      else some s!"cas {nm fm} sc {sz} {s.word fm} 0"
    | .mid _ => some s!"load {nm (!fm)} acq {s.word (!fm)} 0 1"
    | .second _ sz =>
      if sz ≤ gsMaxLockedVal then none
      else if s.word (!fm) = sz then some s!"cas {nm (!fm)} sc {sz} {t.kind.mark} 1"
      else some s!"cas {nm (!fm)} sc {sz} {s.word (!fm)} 0"
    | .rollback v1 => some s!"store {nm fm} rel {v1} {s.word fm} 1"
    | .won => none
    | .lost => none

def finished (s : St) (tid : Nat) : Bool :=
  match s.ths[tid]? with
  | some t => t.pc == .won || t.pc == .lost
  | none => true

/-- run the steps of `tid` that touch no shared word (the `sz <= MAX_LOCKED_VAL` tests) -/
def settle (s : St) (tid : Nat) : Nat → St
  | 0 => s
  | fuel + 1 => if (access s tid).isNone && !finished s tid then settle (step s tid) tid fuel else s

structure DSt where
  st : Option St := none
  n : Nat := 0
  err : Option String := none

def kindOf : Char → Option Kind
  | 'g' => some .getter | 'r' => some .coalRight | 'l' => some .coalLeft | _ => none

def dstep (d : DSt) (ws : List String) : DSt × String :=
  match ws with
  | ["kinds", ks, sz] =>
    match ks.toList.mapM kindOf, nat? sz with
    | some kinds, some sz => ({ st := some (sys sz kinds).init }, "")
    | _, _ => ({ err := some "bad kinds line" }, "")
  | "RUN" :: _ => (d, "")
  | "E" :: tid :: rest =>
    match d.st, d.err, nat? tid with
    | some s, none, some tid =>
      let s := settle s tid 4
      let got := " ".intercalate rest
      match access s tid with
      | some a =>
        if a = got then ({ d with st := some (step s tid), n := d.n + 1 }, "")
        else ({ d with err := some s!"event {d.n}: thread {tid}: implementation `{got}`, model `{a}`" }, "")
      | none => ({ d with err := some s!"event {d.n}: thread {tid}: implementation `{got}`, model: the thread makes no access" }, "")
    | _, _, _ => (d, "")
  | "OUT" :: outcome :: rest =>
    match d.st, d.err with
    | some s, none =>
      let s := (List.range s.ths.length).foldl (fun s t => settle s t 4) s
      let pending := (List.range s.ths.length).filter (fun t => !finished s t)
      let o := String.mk (s.ths.map (fun t => if t.pc == .won then 'w' else 'l'))
      let want := s!"{o} my={s.my} lf={s.lf} winners={s.winners}"
      let got := " ".intercalate (outcome :: rest.take 3)
      if !pending.isEmpty then ({}, s!"MISMATCH the implementation finished but model threads {pending} still have accesses to make")
      else if want = got then ({}, "ok") else ({}, s!"MISMATCH outcome: implementation `{got}`, model `{want}`")
    | _, some e => ({}, "MISMATCH " ++ e)
    | none, none => ({}, "MISMATCH no kinds line")
  | _ => (d, "")

def driver : Proto.Driver := { σ := DSt, init := {}, step := dstep }

end TbbVerif.C17.Coal
