/-
C16 (second half) — scheduler observers: entry / exit notifications of one `observer_list` (the list of one arena).

Code modelled (`src/tbb/observer_proxy.{h,cpp}`, call sites in `arena.cpp`, `governor.cpp`, `task_dispatcher.h`):
* the list holds proxies in insertion order (`insert` appends at the tail); `observe(false)` clears `my_observer` of a proxy
  (it never becomes non-null again); a proxy that some thread's `my_last_observer` references stays linked;
* `notify_entry_observers(last)`: nothing if `last == my_tail`; otherwise call `on_scheduler_entry` of every proxy *after*
  `last` that still has its observer, and set `last` to the tail;
* `notify_exit_observers(last)`: nothing if `last == nullptr`; otherwise call `on_scheduler_exit` of every proxy from the
  head up to `last` (inclusive) that still has its observer.
One model step = one whole notification pass (the list is protected by a reader-writer lock; callbacks run outside the lock,
so an `observe(false)` can be serialised before or after the pass — both orders are schedules of this model).
`my_last_observer` is represented by the number of leading proxies it covers (0 = `nullptr`).

The early-return conditions and the presence of the notification calls on every join / leave path are *generated*
(`Generated.C16.obs*`).
-/
import TbbVerif.Generated.C16

namespace TbbVerif.C16.Obs
open TbbVerif.Generated.C16

/-- how a thread attaches to the arena -/
inductive JoinKind where
  | worker      -- arena::process
  | execute     -- nested_arena_context (task_arena::execute, or the first attach of an external thread)
  deriving Repr, DecidableEq

/-- how a thread detaches -/
inductive LeaveKind where
  | worker      -- arena::process after the dispatch loop
  | execute     -- ~nested_arena_context
  | threadEnd   -- governor::auto_terminate
  deriving Repr, DecidableEq

structure OSt where
  active : List Bool := []               -- proxy i: `my_observer != nullptr`
  last : List Nat := []                  -- per thread: number of leading proxies covered by `my_last_observer`
  inside : List Bool := []               -- per thread: attached to this arena
  log : List (Nat × Nat × Bool) := []    -- (thread, proxy, is_entry) in call order
  deriving Repr, DecidableEq

def OSt.init (nthreads : Nat) : OSt :=
  { last := List.replicate nthreads 0, inside := List.replicate nthreads false }

/-- the proxies `lo ≤ p < hi` that still have their observer -/
def activeIn (active : List Bool) (lo hi : Nat) : List Nat :=
  (List.range' lo (hi - lo)).filter (fun p => active.getD p false)

/-- `observer_list::notify_entry_observers(td.my_last_observer, worker)` -/
def entryPass (s : OSt) (t : Nat) : OSt :=
  let k := s.last.getD t 0
  let n := s.active.length
  if obsEntrySkip (k == n) then s
  else { s with log := s.log ++ (activeIn s.active k n).map (fun p => (t, p, true)), last := s.last.set t n }

/-- `observer_list::notify_exit_observers(td.my_last_observer, worker)` (the caller resets `my_last_observer`) -/
def exitPass (s : OSt) (t : Nat) : OSt :=
  let k := s.last.getD t 0
  if obsExitSkip (k == 0) then s
  else { s with log := s.log ++ (activeIn s.active 0 k).map (fun p => (t, p, false)) }

def joinNotifies : JoinKind → Bool
  | .worker => obsEntryOnWorkerJoin
  | .execute => obsEntryOnExecuteJoin

def leaveNotifies : LeaveKind → Bool
  | .worker => obsExitOnWorkerLeave
  | .execute => obsExitOnExecuteLeave
  | .threadEnd => obsExitOnThreadEnd

inductive OOp where
  | join (t : Nat) (k : JoinKind)       -- attach: `my_last_observer = nullptr`, then notify_entry_observers
  | renotify (t : Nat)                  -- notify_entry_observers after a task was found (receive_or_steal_task, get_critical_task)
  | leave (t : Nat) (k : LeaveKind)     -- notify_exit_observers, `my_last_observer` dropped, detach
  | activate (t : Nat)                  -- observe(true) called by thread t: new proxy at the tail, entry for t if it is inside
  | deactivate (p : Nat)                -- observe(false)
  deriving Repr, DecidableEq

def OSt.step (s : OSt) : OOp → OSt
  | .join t k =>
    if s.inside.getD t true then s      -- unknown thread / already inside: rejected
    else
      let s1 := { s with inside := s.inside.set t true, last := s.last.set t 0 }
      if joinNotifies k then entryPass s1 t else s1
  | .renotify t => if s.inside.getD t false then entryPass s t else s
  | .leave t k =>
    if s.inside.getD t false then
      let s1 := if leaveNotifies k then exitPass s t else s
      { s1 with inside := s1.inside.set t false, last := s1.last.set t 0 }
    else s
  | .activate t =>
    let s1 := { s with active := s.active ++ [true] }
    if obsEntryOnActivate && s.inside.getD t false then entryPass s1 t else s1
  | .deactivate p => { s with active := s.active.set p false }

def OSt.run (s : OSt) (ops : List OOp) : OSt := ops.foldl OSt.step s

/-- number of `on_scheduler_entry` calls of proxy `p` on thread `t` -/
def entries (log : List (Nat × Nat × Bool)) (t p : Nat) : Nat := log.countP (fun e => e == (t, p, true))
/-- number of `on_scheduler_exit` calls of proxy `p` on thread `t` -/
def exits (log : List (Nat × Nat × Bool)) (t p : Nat) : Nat := log.countP (fun e => e == (t, p, false))

end TbbVerif.C16.Obs
