/-
C04 — `CtxTree`: task_group_context cancellation propagation vs. concurrent binding, at atomic-access granularity
(executable, core Lean only).

Code modelled (one model step = one atomic access / one successful mutex acquire / one mutex release):
  src/tbb/task_group_context.cpp   bind_to, bind_to_impl, register_with, propagate_task_group_state (chain painting),
                                   cancel_group_execution, reset, destroy
  src/tbb/cancellation_disseminator.h  propagate_task_group_state (hint test, registry lock, re-check, epoch++, walk)
  src/tbb/thread_data.h            context_list (mutex, epoch, push_front, remove), thread_data::propagate_task_group_state
  src/tbb/main.cpp                 the_context_state_propagation_epoch / the_context_state_propagation_mutex

Three facts about the code are *parameters* (`Cfg`), regenerated from the source on every run (Generated/C04.lean):
  propHolds        the propagator holds the mutex that the binder's fall-back takes, for the whole walk
  copyNeverClears  the binder's copies of the parent's flag only ever store "cancelled" (never write 0 over a 1)
  resetSeq         the stores `task_group_context_impl::reset` performs on the modelled fields of its own context, in
                   program order (as coded: `[.can]` — it clears my_cancellation_requested and nothing else)

State is function-based (`Nat → …`): every natural number is a context id / thread id; untouched contexts are in
state `created`, untouched threads have an empty program.  Thread `t` owns context list `t`.

Dynamic registry (src/tbb/governor.cpp init_external_thread / auto_terminate, thread_dispatcher.cpp create_one_job / cleanup,
cancellation_disseminator.h register_thread / unregister_thread, thread_data.h ~thread_data / context_list::orphan):
`reg` (a parameter) lists every thread that ever has a `thread_data` during the run, in the order in which the propagator
would meet them (`my_threads_list` is push_front: newest first); `act t` says whether `t`'s thread_data is in the list NOW.
Threads of `reg` whose program starts with `register` are outside the registry initially.  `register` = thread_data
construction (a new context_list: epoch 0, whatever the global epoch is) + push_front under my_threads_list_mutex; `exit` =
remove under my_threads_list_mutex, then ~thread_data → context_list::orphan() under the list's own mutex.  The list of an
exited thread lives on while it holds contexts (they can still be destroyed), but the propagator walks the lists of
REGISTERED threads only: contexts in an orphaned list are no longer reached (ghost `oc`), and neither are contexts bound
beneath them later.  The walk skips unregistered threads (`nextList`).
Ghost fields (never read by the code paths, except `depth` used as fuel of the ancestor walk): `depth wins resets
srcOf skipSt clk rst wst pst wasReg joined fresh oc`.  The stamps: `clk` is a ghost clock that ticks at every winning exchange of a cancel and at
every store of 0 to a cancellation flag by `reset`; `wst a` = clock value of the latest winning exchange on `a`, `rst x` =
clock value of the latest reset of `x`, `pst n` = stamp (`wst` of its source) of propagation number `n`, `skipSt a` = stamp
of the winning cancel of `a` that returned at the hint test.
`reset` is performed even when it races with other operations on the context's subtree (the code does perform it); such a
call violates the documented precondition of `reset` and is flagged in `misuse` (`resetOk`).
-/
import TbbVerif.Core.Sched
import TbbVerif.Core.Proto

namespace TbbVerif.C04

def upd {α : Type} (f : Nat → α) (k : Nat) (v : α) : Nat → α := fun i => if i = k then v else f i

@[simp] theorem upd_same {α : Type} (f : Nat → α) (k : Nat) (v : α) : upd f k v k = v := by simp [upd]
theorem upd_other {α : Type} (f : Nat → α) (k : Nat) (v : α) (i : Nat) (h : i ≠ k) : upd f k v i = f i := by
  simp [upd, h]
theorem upd_apply {α : Type} (f : Nat → α) (k : Nat) (v : α) (i : Nat) :
    upd f k v i = if i = k then v else f i := rfl

/-- the modelled fields `reset` may store 0 to -/
inductive RF where
  | can      -- my_cancellation_requested
  | mhc      -- my_may_have_children
  deriving Repr, DecidableEq

structure Cfg where
  propHolds : Bool
  copyNeverClears : Bool
  resetSeq : List RF
  deriving Repr, DecidableEq

/-- `task_group_context::state` -/
inductive CState where
  | created | locked | isolated | bound | dead
  deriving Repr, DecidableEq

inductive Op where
  | cancel (x : Nat)
  | bind (x : Nat) (p : Option Nat)   -- p = context of the task the binding thread is running (none: arena default ctx)
  | destroy (x : Nat)
  | reset (x : Nat)
  | register                          -- the calling thread creates its thread_data and enters the registry
  | exit                              -- the calling thread leaves the registry and orphans its context list
  deriving Repr, DecidableEq

/-- Program counters: the constructor names the atomic access the thread performs next. -/
inductive Pc where
  | idle
  -- cancel_group_execution(src)
  | cLoad (src : Nat)                       -- relaxed load of src.cancel
  | cXchg (src : Nat)                       -- src.cancel.exchange(1)
  | cHint (src : Nat)                       -- load src.may_have_children
  | cLockReg (src : Nat)                    -- lock my_threads_list_mutex
  | cLockProp (src : Nat)                   -- lock the fall-back mutex (only if cfg.propHolds)
  | cRecheck (src : Nat)                    -- re-check src.cancel under the lock
  | cEpoch (src : Nat)                      -- ++the_context_state_propagation_epoch
  | cLockList (src i : Nat)                 -- lock the context list of reg[i]
  | cLoad1 (src i x : Nat) (rest : List Nat)    -- thread_data::propagate: load x.cancel
  | cLoad2 (src i x : Nat) (rest : List Nat)    -- task_group_context_impl::propagate: load x.cancel again
  | cPaint (src i x : Nat) (chain rest : List Nat) -- store 1 into the head of `chain`
  | cReadG (src i : Nat)                    -- load global epoch
  | cSync (src i g : Nat)                   -- store list epoch
  | cUnlockList (src i : Nat)
  | cUnlockProp (src : Nat)
  | cUnlockReg (src : Nat)
  -- bind_to(x) by a thread running a task of context p
  | bLoadSt (x : Nat) (p : Option Nat)      -- load x.state
  | bCas (x : Nat) (p : Option Nat)         -- CAS x.state created -> locked (then my_parent := p)
  | bWait (x : Nat)                         -- spin_wait_while_eq(state, locked) (also run by the binder after its own store)
  | bIso (x : Nat)                          -- store state := isolated
  | bHintL (x p : Nat)                      -- load p.may_have_children
  | bHintS (x p : Nat)                      -- store p.may_have_children := 1
  | bSnap (x p : Nat)                       -- load epoch of the PARENT's list
  | bSpecL (x p snap : Nat)                 -- speculative load of p.cancel
  | bSpecS (x p snap : Nat) (v : Bool)      -- speculative store x.cancel := v
  | bRegL (x p : Nat) (snap : Option Nat)   -- lock own list + push_front (snap = none: parent has no parent)
  | bRegU (x p : Nat) (snap : Option Nat)   -- unlock own list
  | bLoadG (x p snap : Nat)                 -- load global epoch, compare with snapshot
  | bFbLock (x p : Nat)                     -- lock the_context_state_propagation_mutex
  | bFbL (x p : Nat)                        -- load p.cancel under it
  | bFbS (x p : Nat) (v : Bool)             -- store x.cancel := v
  | bFbU (x p : Nat)                        -- unlock
  | bRootL (x p : Nat)                      -- no grand-parent: load p.cancel after registration
  | bRootS (x p : Nat) (v : Bool)           -- store x.cancel := v
  | bPub (x : Nat)                          -- store state := bound
  -- destroy(x)
  | dLock (x : Nat)                         -- lock x's list + remove
  | dUnlock (x : Nat)
  | dDead (x : Nat)                         -- store state := dead
  -- reset(x)
  | rSeq (x : Nat) (l : List RF)            -- the remaining stores of reset(x); the head is performed next
  -- register / exit of the calling thread
  | gLock                                   -- lock my_threads_list_mutex + push_front(thread_data)
  | gUnlock
  | xLock                                   -- lock my_threads_list_mutex + remove(thread_data)
  | xUnlock
  | xOrphL                                  -- context_list::orphan(): lock the own list's mutex, orphaned := true
  | xOrphU                                  -- unlock (an empty list is destroyed)
  deriving Repr, DecidableEq

structure St where
  -- contexts
  par : Nat → Option Nat := fun _ => none      -- my_parent
  can : Nat → Bool := fun _ => false           -- my_cancellation_requested
  mhc : Nat → Bool := fun _ => false           -- my_may_have_children
  cst : Nat → CState := fun _ => .created      -- my_state
  lst : Nat → Option Nat := fun _ => none      -- my_context_list (owner thread id)
  depth : Nat → Nat := fun _ => 0              -- ghost: length of the parent chain
  wins : Nat → Nat := fun _ => 0               -- ghost: number of cancel calls on x that returned true
  resets : Nat → Nat := fun _ => 0             -- ghost: number of resets of x
  dying : Nat → Bool := fun _ => false         -- ghost: destroy(x) has been called
  -- per-thread context lists
  items : Nat → List Nat := fun _ => []        -- newest first (push_front)
  lmx : Nat → Option Nat := fun _ => none      -- context_list::m_mutex holder
  epoch : Nat → Nat := fun _ => 0              -- context_list::epoch
  -- globals
  G : Nat := 0                                 -- the_context_state_propagation_epoch
  regMx : Option Nat := none                   -- my_threads_list_mutex holder
  propMx : Option Nat := none                  -- the_context_state_propagation_mutex holder
  srcOf : Nat → Nat := fun _ => 0              -- ghost: source of propagation number n (n ≥ 1)
  skipSt : Nat → Nat := fun _ => 0             -- ghost: stamp of the winning cancel of x that returned at the hint test (0: none)
  clk : Nat := 0                               -- ghost clock: ticks at every winning exchange and at every reset
  rst : Nat → Nat := fun _ => 0                -- ghost: clock value of the latest reset of x (0: never)
  wst : Nat → Nat := fun _ => 0                -- ghost: clock value of the latest winning exchange on x (0: never)
  pst : Nat → Nat := fun _ => 0                -- ghost: stamp of propagation number n = wst of its source at the epoch increment
  -- registry membership
  act : Nat → Bool := fun _ => false           -- the thread's thread_data is in my_threads_list
  orph : Nat → Bool := fun _ => false          -- context_list::orphaned
  wasReg : Nat → Bool := fun _ => false        -- ghost: the thread has (had) a thread_data
  joined : Nat → Nat := fun _ => 0             -- ghost: global epoch when the thread registered
  fresh : Nat → Bool := fun _ => false         -- ghost: registered after the start and not yet synced by a propagation
  oc : Nat → Bool := fun _ => false            -- ghost: the context was in the list of a thread when that thread left the registry
  -- threads
  pc : Nat → Pc := fun _ => .idle
  prog : Nat → List Op := fun _ => []
  res : Nat → List Bool := fun _ => []         -- results of completed cancel calls, newest first
  misuse : Nat → Bool := fun _ => false        -- an op was issued against its precondition (dropped)

/-! ## helpers -/

/-- The ancestor walk of `task_group_context_impl::propagate_task_group_state`: starting at `c`, follow `my_parent`
until `src` is met; the result is the chain `c, parent c, …` up to (excluding) `src`, or `none` if the root is
reached first.  `fuel` bounds the walk (the model passes `depth c`; `Proofs` show it never runs out). -/
def chainUp (par : Nat → Option Nat) (src : Nat) : Nat → Nat → Option (List Nat)
  | 0, _ => none
  | fuel + 1, c =>
    match par c with
    | none => none
    | some a => if a = src then some [c] else (chainUp par src fuel a).map (c :: ·)

/-- pc after the walk of all lists: release the locks in reverse order of acquisition -/
def afterLists (cfg : Cfg) (src : Nat) : Pc := if cfg.propHolds then .cUnlockProp src else .cUnlockReg src

/-- index (counted from `j`) of the first registered thread in `l` -/
def nextActFrom (act : Nat → Bool) : List Nat → Nat → Option Nat
  | [], _ => none
  | L :: rest, j => if act L then some j else nextActFrom act rest (j + 1)

/-- the next list of the walk: the propagator iterates over my_threads_list, i.e. over the registered threads -/
def nextList (cfg : Cfg) (reg : List Nat) (act : Nat → Bool) (src i : Nat) : Pc :=
  match nextActFrom act (reg.drop i) i with
  | some j => .cLockList src j
  | none => afterLists cfg src

/-- the parent a thread's pc refers to while it is inside `bind_to` (keeps the parent alive) -/
def Pc.bindParent : Pc → Option Nat
  | .bLoadSt _ p | .bCas _ p => p
  | .bHintL _ p | .bHintS _ p | .bSnap _ p | .bSpecL _ p _ | .bSpecS _ p _ _ | .bRegL _ p _ | .bRegU _ p _
  | .bLoadG _ p _ | .bFbLock _ p | .bFbL _ p | .bFbS _ p _ | .bFbU _ p | .bRootL _ p | .bRootS _ p _ => some p
  | _ => none

/-- the context a thread is binding (any pc inside `bind_to`) -/
def Pc.bindTarget : Pc → Option Nat
  | .bLoadSt x _ | .bCas x _ | .bWait x | .bIso x | .bHintL x _ | .bHintS x _ | .bSnap x _ | .bSpecL x _ _
  | .bSpecS x _ _ _ | .bRegL x _ _ | .bRegU x _ _ | .bLoadG x _ _ | .bFbLock x _ | .bFbL x _ | .bFbS x _ _ | .bFbU x _
  | .bRootL x _ | .bRootS x _ _ | .bPub x => some x
  | _ => none

def finishOp (s : St) (t : Nat) : St := { s with pc := upd s.pc t .idle }

def finishCancel (s : St) (t : Nat) (r : Bool) : St :=
  { s with pc := upd s.pc t .idle, res := upd s.res t (r :: s.res t) }

def setPc (s : St) (t : Nat) (pc : Pc) : St := { s with pc := upd s.pc t pc }

/-- destroy(x) is legal only if nobody is binding x or binding beneath x and no registered context has x as parent
(the user contract: a parent outlives its children), and x is not in the middle of being bound. -/
def destroyOk (reg : List Nat) (s : St) (x : Nat) : Bool :=
  (s.cst x == .bound || s.cst x == .isolated || s.cst x == .created) &&
  reg.all (fun t => (s.pc t).bindParent != some x && (s.pc t).bindTarget != some x &&
    (s.items t).all (fun y => s.par y != some x))

/-- consume the head of `t`'s program -/
def popOp (s : St) (t : Nat) (rest : List Op) : St := { s with prog := upd s.prog t rest }

/-- drop an operation that violates the API's preconditions, and flag it -/
def badOp (s : St) (t : Nat) (rest : List Op) : St :=
  { s with prog := upd s.prog t rest, misuse := upd s.misuse t true }

def bindOk (reg : List Nat) (s : St) (t x : Nat) (p : Option Nat) : Bool :=
  reg.contains t && s.act t && s.cst x != .dead && !s.dying x &&
  (match p with
   | none => true
   | some q => (s.cst q == .bound || s.cst q == .isolated) && !s.dying q && q != x)

/-- the contexts an in-flight operation works on -/
def Pc.subjects : Pc → List Nat
  | .idle => []
  | .cLoad x | .cXchg x | .cHint x | .cLockReg x | .cLockProp x | .cRecheck x | .cEpoch x | .cLockList x _
  | .cLoad1 x _ _ _ | .cLoad2 x _ _ _ | .cPaint x _ _ _ _ | .cReadG x _ | .cSync x _ _ | .cUnlockList x _
  | .cUnlockProp x | .cUnlockReg x => [x]
  | .bLoadSt x p | .bCas x p => x :: p.toList
  | .bWait x | .bIso x | .bPub x => [x]
  | .bHintL x p | .bHintS x p | .bSnap x p | .bSpecL x p _ | .bSpecS x p _ _ | .bRegL x p _ | .bRegU x p _
  | .bLoadG x p _ | .bFbLock x p | .bFbL x p | .bFbS x p _ | .bFbU x p | .bRootL x p | .bRootS x p _ => [x, p]
  | .dLock x | .dUnlock x | .dDead x => [x]
  | .rSeq x _ => [x]
  | .gLock | .gUnlock | .xLock | .xUnlock | .xOrphL | .xOrphU => []

/-- `y` is `x` or is bound (directly or transitively) beneath `x` -/
def inSubtree (s : St) (x y : Nat) : Bool := y == x || (chainUp s.par x (s.depth y) y).isSome

/-- The documented precondition of `task_group_context::reset` ("not thread safe; must be called only when the tasks of
the group and of its subordinate groups have completed"): no operation of another registered thread on the context or on a
context bound beneath it is in flight.  (Cancellations of proper ancestors may be in flight: `task_group::wait` resets its
context while an enclosing group may be cancelled by anybody.) -/
def resetOk (reg : List Nat) (s : St) (t x : Nat) : Bool :=
  reg.all (fun u => u == t || (s.pc u).subjects.all (fun y => !inSubtree s x y))

/-- record a violation of an API precondition by `t` when `bad` -/
def noteMisuse (s : St) (t : Nat) (bad : Bool) : St := { s with misuse := upd s.misuse t (s.misuse t || bad) }

/-- Start the next operation of thread `t` (no shared access: only sets the pc).  Calls on dead contexts and binds that
violate the API's preconditions are dropped and flagged; a `reset` that races with operations on its subtree is performed
(as the code does) and flagged. -/
def begin (cfg : Cfg) (reg : List Nat) (s : St) (t : Nat) : St :=
  match s.prog t with
  | [] => s
  | .cancel x :: rest => if s.cst x == .dead || s.dying x then badOp s t rest else setPc (popOp s t rest) t (.cLoad x)
  | .reset x :: rest =>
    if s.cst x == .dead || s.dying x then badOp s t rest
    else setPc (popOp (noteMisuse s t (!resetOk reg s t x)) t rest) t (.rSeq x cfg.resetSeq)
  | .bind x p :: rest => if bindOk reg s t x p then setPc (popOp s t rest) t (.bLoadSt x p) else badOp s t rest
  | .register :: rest =>
    if reg.contains t && !s.act t && !s.wasReg t then setPc (popOp s t rest) t .gLock else badOp s t rest
  | .exit :: rest => if s.act t then setPc (popOp s t rest) t .xLock else badOp s t rest
  | .destroy x :: rest =>
    if destroyOk reg s x then
      if s.dying x then badOp s t rest
      else setPc { popOp s t rest with dying := upd s.dying x true } t (match s.lst x with | some _ => .dLock x | none => .dDead x)
    else badOp s t rest

/-! ## one atomic access -/

/-- the next item of the list walk, or the epoch sync when the list is exhausted -/
def walkNext (s : St) (t src i : Nat) (rest : List Nat) : St :=
  match rest with
  | [] => setPc s t (.cReadG src i)
  | y :: ys => setPc s t (.cLoad1 src i y ys)

def execCancel (cfg : Cfg) (reg : List Nat) (s : St) (t : Nat) : St :=
  match s.pc t with
  | .cLoad src => if s.can src then finishCancel s t false else setPc s t (.cXchg src)
  | .cXchg src =>
    if s.can src then finishCancel s t false
    else setPc { s with can := upd s.can src true, wins := upd s.wins src (s.wins src + 1),
                        clk := s.clk + 1, wst := upd s.wst src (s.clk + 1) } t (.cHint src)
  | .cHint src =>
    if s.mhc src then setPc s t (.cLockReg src)
    else finishCancel { s with skipSt := upd s.skipSt src (s.wst src) } t true
  | .cLockReg src =>
    match s.regMx with
    | some _ => s
    | none => setPc { s with regMx := some t } t (if cfg.propHolds then .cLockProp src else .cRecheck src)
  | .cLockProp src =>
    match s.propMx with
    | some _ => s
    | none => setPc { s with propMx := some t } t (.cRecheck src)
  | .cRecheck src => if s.can src then setPc s t (.cEpoch src) else setPc s t (afterLists cfg src)
  | .cEpoch src =>
    setPc { s with G := s.G + 1, srcOf := upd s.srcOf (s.G + 1) src, pst := upd s.pst (s.G + 1) (s.wst src) } t
      (nextList cfg reg s.act src 0)
  | .cLockList src i =>
    match reg[i]? with
    | none => setPc s t (afterLists cfg src)          -- unreachable (nextList checks the bound)
    | some L =>
      match s.lmx L with
      | some _ => s
      | none => walkNext { s with lmx := upd s.lmx L (some t) } t src i (s.items L)
  | .cLoad1 src i x rest => if s.can x then walkNext s t src i rest else setPc s t (.cLoad2 src i x rest)
  | .cLoad2 src i x rest =>
    if s.can x || x == src then walkNext s t src i rest
    else match chainUp s.par src (s.depth x) x with
      | none => walkNext s t src i rest
      | some chain => setPc s t (.cPaint src i x chain rest)
  | .cPaint src i x chain rest =>
    match chain with
    | [] => walkNext s t src i rest                   -- unreachable (chains are never empty)
    | e :: es =>
      let s' : St := { s with can := upd s.can e true }
      if es.isEmpty then walkNext s' t src i rest else setPc s' t (.cPaint src i x es rest)
  | .cReadG src i => setPc s t (.cSync src i s.G)
  | .cSync src i g =>
    match reg[i]? with
    | none => setPc s t (afterLists cfg src)
    | some L => setPc { s with epoch := upd s.epoch L g, fresh := upd s.fresh L false } t (.cUnlockList src i)
  | .cUnlockList src i =>
    match reg[i]? with
    | none => setPc s t (afterLists cfg src)
    | some L => setPc { s with lmx := upd s.lmx L none } t (nextList cfg reg s.act src (i + 1))
  | .cUnlockProp src => setPc { s with propMx := none } t (.cUnlockReg src)
  | .cUnlockReg _ => finishCancel { s with regMx := none } t true
  | _ => s

/-- `if (ctx.my_parent->my_parent)`: snapshot branch, or plain registration when the parent is a root -/
def afterHint (s : St) (x p : Nat) : Pc :=
  match s.par p with
  | some _ => .bSnap x p
  | none => .bRegL x p none

def execBind (cfg : Cfg) (s : St) (t : Nat) : St :=
  match s.pc t with
  | .bLoadSt x p =>
    match s.cst x with
    | .created => setPc s t (.bCas x p)
    | .locked => setPc s t (.bWait x)
    | _ => finishOp s t
  | .bCas x p =>
    if s.cst x = .created then
      let s' : St := { s with cst := upd s.cst x .locked, par := upd s.par x p,
                              depth := upd s.depth x (match p with | some q => s.depth q + 1 | none => 0) }
      match p with
      | none => setPc s' t (.bIso x)
      | some q => setPc s' t (.bHintL x q)
    else setPc s t (.bWait x)
  | .bWait x => if s.cst x = .locked then s else finishOp s t
  | .bIso x => setPc { s with cst := upd s.cst x .isolated } t (.bWait x)
  | .bHintL x p =>
    if s.mhc p then setPc s t (afterHint s x p) else setPc s t (.bHintS x p)
  | .bHintS x p => setPc { s with mhc := upd s.mhc p true } t (afterHint s x p)
  | .bSnap x p =>
    match s.lst p with
    | none => finishOp { s with misuse := upd s.misuse t true } t     -- unreachable: a parent with a parent is registered
    | some L => setPc s t (.bSpecL x p (s.epoch L))
  | .bSpecL x p snap =>
    if cfg.copyNeverClears && !s.can p then setPc s t (.bRegL x p (some snap))
    else setPc s t (.bSpecS x p snap (s.can p))
  | .bSpecS x p snap v => setPc { s with can := upd s.can x v } t (.bRegL x p (some snap))
  | .bRegL x p sn =>
    match s.lmx t with
    | some _ => s
    | none => setPc { s with lmx := upd s.lmx t (some t), items := upd s.items t (x :: s.items t),
                             lst := upd s.lst x (some t) } t (.bRegU x p sn)
  | .bRegU x p sn =>
    setPc { s with lmx := upd s.lmx t none } t (match sn with | some snap => .bLoadG x p snap | none => .bRootL x p)
  | .bLoadG x p snap => if snap != s.G then setPc s t (.bFbLock x p) else setPc s t (.bPub x)
  | .bFbLock x p =>
    match s.propMx with
    | some _ => s
    | none => setPc { s with propMx := some t } t (.bFbL x p)
  | .bFbL x p =>
    if cfg.copyNeverClears && !s.can p then setPc s t (.bFbU x p) else setPc s t (.bFbS x p (s.can p))
  | .bFbS x p v => setPc { s with can := upd s.can x v } t (.bFbU x p)
  | .bFbU x _ => setPc { s with propMx := none } t (.bPub x)
  | .bRootL x p =>
    if cfg.copyNeverClears && !s.can p then setPc s t (.bPub x) else setPc s t (.bRootS x p (s.can p))
  | .bRootS x _ v => setPc { s with can := upd s.can x v } t (.bPub x)
  | .bPub x => setPc { s with cst := upd s.cst x .bound } t (.bWait x)
  | _ => s

/-- one store of `reset(x)`: the cancellation flag (ticks the ghost clock and stamps the reset), or the hint -/
def applyReset (s : St) (x : Nat) : RF → St
  | .can => { s with can := upd s.can x false, resets := upd s.resets x (s.resets x + 1),
                     clk := s.clk + 1, rst := upd s.rst x (s.clk + 1) }
  | .mhc => { s with mhc := upd s.mhc x false }

/-- ghost: mark the contexts of a list whose owner leaves the registry -/
def orphanMark (oc : Nat → Bool) (l : List Nat) : Nat → Bool := fun z => oc z || l.contains z

def execOther (s : St) (t : Nat) : St :=
  match s.pc t with
  | .dLock x =>
    match s.lst x with
    | none => setPc s t (.dDead x)
    | some L =>
      match s.lmx L with
      | some _ => s
      | none => setPc { s with lmx := upd s.lmx L (some t), items := upd s.items L ((s.items L).erase x) } t (.dUnlock x)
  | .dUnlock x =>
    match s.lst x with
    | none => setPc s t (.dDead x)
    | some L => setPc { s with lmx := upd s.lmx L none, lst := upd s.lst x none } t (.dDead x)
  | .dDead x => finishOp { s with cst := upd s.cst x .dead } t
  | .gLock =>
    match s.regMx with
    | some _ => s
    | none => setPc { s with regMx := some t, act := upd s.act t true, wasReg := upd s.wasReg t true,
                             joined := upd s.joined t s.G, fresh := upd s.fresh t true } t .gUnlock
  | .gUnlock => finishOp { s with regMx := none } t
  | .xLock =>
    match s.regMx with
    | some _ => s
    | none => setPc { s with regMx := some t, act := upd s.act t false,
                             oc := orphanMark s.oc (s.items t) } t .xUnlock
  | .xUnlock => setPc { s with regMx := none } t .xOrphL
  | .xOrphL =>
    match s.lmx t with
    | some _ => s
    | none => setPc { s with lmx := upd s.lmx t (some t), orph := upd s.orph t true } t .xOrphU
  | .xOrphU => finishOp { s with lmx := upd s.lmx t none } t
  | .rSeq x l =>
    match l with
    | [] => finishOp s t
    | f :: rest =>
      let s' : St := applyReset s x f
      if rest.isEmpty then finishOp s' t else setPc s' t (.rSeq x rest)
  | _ => s

/-- which family a pc belongs to -/
def Pc.isCancel : Pc → Bool
  | .cLoad _ | .cXchg _ | .cHint _ | .cLockReg _ | .cLockProp _ | .cRecheck _ | .cEpoch _ | .cLockList _ _
  | .cLoad1 _ _ _ _ | .cLoad2 _ _ _ _ | .cPaint _ _ _ _ _ | .cReadG _ _ | .cSync _ _ _ | .cUnlockList _ _
  | .cUnlockProp _ | .cUnlockReg _ => true
  | _ => false

def Pc.isBind : Pc → Bool
  | .bLoadSt _ _ | .bCas _ _ | .bWait _ | .bIso _ | .bHintL _ _ | .bHintS _ _ | .bSnap _ _ | .bSpecL _ _ _
  | .bSpecS _ _ _ _ | .bRegL _ _ _ | .bRegU _ _ _ | .bLoadG _ _ _ | .bFbLock _ _ | .bFbL _ _ | .bFbS _ _ _ | .bFbU _ _
  | .bRootL _ _ | .bRootS _ _ _ | .bPub _ => true
  | _ => false

def exec (cfg : Cfg) (reg : List Nat) (s : St) (t : Nat) : St :=
  if (s.pc t).isCancel then execCancel cfg reg s t
  else if (s.pc t).isBind then execBind cfg s t
  else execOther s t

/-- One step of thread `t`: if it is between operations it starts the next one, then it performs one access. -/
def step (cfg : Cfg) (reg : List Nat) (s : St) (t : Nat) : St :=
  exec cfg reg (if s.pc t = .idle then begin cfg reg s t else s) t

/-- does the program start with `register` (a thread that creates its thread_data during the run) ? -/
def startsLate : List Op → Bool
  | .register :: _ => true
  | _ => false

def init (reg : List Nat) (prog : Nat → List Op) : St :=
  { prog := prog, act := fun t => reg.contains t && !startsLate (prog t), wasReg := fun t => reg.contains t && !startsLate (prog t) }

/-- `CtxTree`: the interleaving system for a registry and per-thread programs, from the initial state in which no
context has been used yet. -/
def CtxTree (cfg : Cfg) (reg : List Nat) (prog : Nat → List Op) : Sys St :=
  { init := init reg prog, step := step cfg reg }

/-- no cancel / bind / destroy / reset in flight -/
def St.quiescentOn (s : St) (ts : List Nat) : Bool := ts.all (fun t => s.pc t == .idle)

/-! ## trace events and the line driver (E-SHIM replay) -/

def CState.enc : CState → Nat
  | .created => 0 | .locked => 1 | .isolated => 2 | .bound => 3 | .dead => 4

def b2n (b : Bool) : Nat := if b then 1 else 0

/-- The access thread `t` is about to perform in `s` (its pc is not idle), as canonical trace text;
`blocked` = the mutex it wants is held; `none` = nothing to do. -/
def evOf (_cfg : Cfg) (reg : List Nat) (s : St) (t : Nat) : String :=
  let lockEv (h : Option Nat) (name : String) : String := match h with | some _ => "blocked" | none => s!"lock {name}"
  match s.pc t with
  | .idle => "none"
  | .cLoad src => s!"load can{src} {b2n (s.can src)}"
  | .cXchg src => s!"xchg can{src} {b2n (s.can src)} 1"
  | .cHint src => s!"load mhc{src} {b2n (s.mhc src)}"
  | .cLockReg _ => lockEv s.regMx "regmx"
  | .cLockProp _ => lockEv s.propMx "propmx"
  | .cRecheck src => s!"load can{src} {b2n (s.can src)}"
  | .cEpoch _ => s!"fadd G {s.G} {s.G + 1}"
  | .cLockList _ i => match reg[i]? with | some L => lockEv (s.lmx L) s!"lm{L}" | none => "none"
  | .cLoad1 _ _ x _ => s!"load can{x} {b2n (s.can x)}"
  | .cLoad2 _ _ x _ => s!"load can{x} {b2n (s.can x)}"
  | .cPaint _ _ _ chain _ => match chain with | e :: _ => s!"store can{e} 1" | [] => "none"
  | .cReadG _ _ => s!"load G {s.G}"
  | .cSync _ i g => match reg[i]? with | some L => s!"store ep{L} {g}" | none => "none"
  | .cUnlockList _ i => match reg[i]? with | some L => s!"unlock lm{L}" | none => "none"
  | .cUnlockProp _ => "unlock propmx"
  | .cUnlockReg _ => "unlock regmx"
  | .bLoadSt x _ => s!"load st{x} {(s.cst x).enc}"
  | .bCas x _ => if s.cst x == .created then s!"cas st{x} 0 1 ok" else s!"cas st{x} 0 {(s.cst x).enc} fail"
  | .bWait x => s!"load st{x} {(s.cst x).enc}"
  | .bIso x => s!"store st{x} 2"
  | .bHintL _ p => s!"load mhc{p} {b2n (s.mhc p)}"
  | .bHintS _ p => s!"store mhc{p} 1"
  | .bSnap _ p => match s.lst p with | some L => s!"load ep{L} {s.epoch L}" | none => "none"
  | .bSpecL _ p _ => s!"load can{p} {b2n (s.can p)}"
  | .bSpecS x _ _ v => s!"store can{x} {b2n v}"
  | .bRegL _ _ _ => lockEv (s.lmx t) s!"lm{t}"
  | .bRegU _ _ _ => s!"unlock lm{t}"
  | .bLoadG _ _ _ => s!"load G {s.G}"
  | .bFbLock _ _ => lockEv s.propMx "propmx"
  | .bFbL _ p => s!"load can{p} {b2n (s.can p)}"
  | .bFbS x _ v => s!"store can{x} {b2n v}"
  | .bFbU _ _ => "unlock propmx"
  | .bRootL _ p => s!"load can{p} {b2n (s.can p)}"
  | .bRootS x _ v => s!"store can{x} {b2n v}"
  | .bPub x => s!"store st{x} 3"
  | .dLock x => match s.lst x with | some L => lockEv (s.lmx L) s!"lm{L}" | none => "none"
  | .dUnlock x => match s.lst x with | some L => s!"unlock lm{L}" | none => "none"
  | .dDead x => s!"store st{x} 4"
  | .gLock => lockEv s.regMx "regmx"
  | .gUnlock => "unlock regmx"
  | .xLock => lockEv s.regMx "regmx"
  | .xUnlock => "unlock regmx"
  | .xOrphL => lockEv (s.lmx t) s!"lm{t}"
  | .xOrphU => s!"unlock lm{t}"
  | .rSeq x l => match l with | .can :: _ => s!"store can{x} 0" | .mhc :: _ => s!"store mhc{x} 0" | [] => "none"

structure DrvSt where
  cfg : Cfg := ⟨false, false, [.can]⟩
  reg : List Nat := []
  st : St := {}
  started : Bool := false

/-- the initial registry membership is fixed when the first step is taken (all `prog` lines have been read) -/
def DrvSt.start (d : DrvSt) : DrvSt :=
  if d.started then d else { d with started := true, st := { d.st with act := (init d.reg d.st.prog).act, wasReg := (init d.reg d.st.prog).wasReg } }

def parseOp : List String → Option Op
  | ["cancel", x] => x.toNat?.map Op.cancel
  | ["reset", x] => x.toNat?.map Op.reset
  | ["destroy", x] => x.toNat?.map Op.destroy
  | ["register"] => some Op.register
  | ["exit"] => some Op.exit
  | ["bind", x, "-"] => x.toNat?.map (Op.bind · none)
  | ["bind", x, p] => do let x ← x.toNat?; let p ← p.toNat?; pure (Op.bind x (some p))
  | _ => none

/-- the stores of `reset` as a word over c (cancellation flag) and m (may_have_children); "-" = none -/
def parseResetSeq (w : String) : Option (List RF) :=
  if w == "-" then some [] else
  w.toList.mapM (fun c => if c == 'c' then some RF.can else if c == 'm' then some RF.mhc else none)

/-- split a word list at ";" -/
def splitOps (ws : List String) : List (List String) :=
  let (cur, acc) := ws.foldl (fun (p : List String × List (List String)) w =>
    if w == ";" then ([], p.1.reverse :: p.2) else (w :: p.1, p.2)) ([], [])
  ((if cur.isEmpty then acc else cur.reverse :: acc).reverse).filter (fun l => !l.isEmpty)

/-- Line protocol:
  `cfg <propHolds 0|1> <copyNeverClears 0|1> [<reset stores: word over c m, or ->]`   `reg t0 t1 …`   `prog t op ; op ; …` (ops: cancel x | bind x p|- | destroy x | reset x)
  `s t`     one step of thread t → `<event> | <pc idle?> <ops left>`
  `ctx x`   → `st can mhc par lst`      `res t` → results of t's cancel calls, oldest first
  `thr t`   → `registered-now orphaned`
  `quiet t0 t1 …` → 1 iff all listed threads are idle with empty programs -/
def drvStep (d : DrvSt) (ws : List String) : DrvSt × String :=
  match ws with
  | ["reset"] => ({}, "ok")
  | ["cfg", a, b] => ({ d with cfg := ⟨a == "1", b == "1", [.can]⟩ }, "ok")
  | ["cfg", a, b, r] => match parseResetSeq r with
    | some l => ({ d with cfg := ⟨a == "1", b == "1", l⟩ }, "ok")
    | none => (d, "bad-op")
  | "reg" :: ts => match Proto.nats? ts with
    | some l => ({ d with reg := l }, "ok")
    | none => (d, "bad-op")
  | "prog" :: t :: rest => match t.toNat?, (splitOps rest).mapM parseOp with
    | some t, some ops => ({ d with st := { d.st with prog := upd d.st.prog t ops } }, "ok")
    | _, _ => (d, "bad-op")
  | ["s", t] => match t.toNat? with
    | none => (d, "bad-op")
    | some t =>
      let d := d.start
      let s1 := if d.st.pc t = .idle then begin d.cfg d.reg d.st t else d.st
      let ev := evOf d.cfg d.reg s1 t
      let s2 := exec d.cfg d.reg s1 t
      ({ d with st := s2 }, s!"{ev} | {if s2.pc t = .idle then 1 else 0} {(s2.prog t).length} {b2n (s2.misuse t)}")
  | ["ctx", x] => match x.toNat? with
    | none => (d, "bad-op")
    | some x =>
      let s := d.st
      let o (v : Option Nat) : String := match v with | some n => toString n | none => "-"
      (d, s!"{(s.cst x).enc} {b2n (s.can x)} {b2n (s.mhc x)} {o (s.par x)} {o (s.lst x)}")
  | ["thr", t] => match t.toNat? with
    | none => (d, "bad-op")
    | some t => (d, s!"{b2n (d.start.st.act t)} {b2n (d.st.orph t)}")
  | ["res", t] => match t.toNat? with
    | none => (d, "bad-op")
    | some t => (d, " ".intercalate ((d.st.res t).reverse.map (fun b => toString (b2n b))))
  | "quiet" :: ts => match Proto.nats? ts with
    | some l => (d, toString (b2n (l.all (fun t => d.st.pc t == .idle && (d.st.prog t).isEmpty))))
    | none => (d, "bad-op")
  | _ => (d, "bad-op")

def driver : Proto.Driver := { σ := DrvSt, init := {}, step := drvStep }

end TbbVerif.C04
