/-
C16 (second half) — task isolation (`this_task_arena::isolate`).

Code modelled, one model step per serialised operation on a task container (the atomic-access level protocols of the
containers are C01's models: deque, proxy, mailbox, stream):
* tags: `r1::spawn(t, ctx)`, `r1::spawn(t, ctx, slot)` (task + `task_proxy`), `arena::enqueue_task`, `r1::submit(.., as_critical)`
  write `task_accessor::isolation(..)`; `isolate_within_arena` replaces `m_execute_data_ext.isolation` for the duration of the
  callable; a dispatch loop (`local_wait_for_all`) reads its constant `isolation` from the execute data at loop entry and
  restores the execute data at loop exit; after every successful take `ed.isolation = isolation(*t)`;
* take points, with the filter exactly as coded: `arena_slot::get_task` / `get_task_impl` (owner, from the tail, skipping and
  hole punching), `arena_slot::steal_task` + the proxy extraction of `arena::steal_task` (thief, from the head, skipping,
  hole punching, the "mailed task is likely to be grabbed by its destination" rule), `mail_outbox::internal_pop` +
  `task_dispatcher::get_mailbox_task` (isolation walk, dead proxies), the fifo stream (only `fifo_allowed && isolation ==
  no_isolation`), the critical stream (`pop_specific` / `look_specific`).  The resume stream is not modelled (resume tasks
  carry `no_isolation` and are exempt by design: `__TBB_ASSERT(is_resume_task(*t) || isolation == no_isolation || ...)`).
All conditions, the isolation argument handed down to each take point and the tag assignments are *generated*
(`Generated.C16.iso*`, `tag*`, `edAfter*`, `isolate*`).

Ghost state: every task carries the isolation *region* it was spawned in (`region`; 0 = none; an enqueued task belongs to no
region), every thread the region of the code it is running (`reg`); the log records, for every executed task, the loop
isolation word and the ghost region of the waiting dispatch loop.
-/
import TbbVerif.Generated.C16

namespace TbbVerif.C16.Iso
open TbbVerif.Generated.C16

structure Task where
  id : Nat
  tag : Nat         -- task_accessor::isolation(t)
  region : Nat      -- ghost
  deriving Repr, DecidableEq

/-- a `task_proxy`: its pool handle and its mailbox handle carry the same record -/
structure PEntry where
  pid : Nat
  ptag : Nat        -- task_accessor::isolation(*proxy)
  task : Task
  dest : Nat        -- destination slot (`proxy->slot`, `proxy->outbox`)
  deriving Repr, DecidableEq

inductive Entry where
  | plain (x : Task)
  | proxy (p : PEntry)
  deriving Repr, DecidableEq

def Entry.tag : Entry → Nat
  | .plain x => x.tag
  | .proxy p => p.ptag

def Entry.isProxy : Entry → Bool
  | .plain _ => false
  | .proxy _ => true

/-- a task pool between head and tail, head (steal end) first; `none` = a hole (`nullptr`) -/
abbrev Pool := List (Option Entry)

inductive Fr where
  | loop (iso ghost savedEd savedReg : Nat)    -- a dispatch loop: its `isolation` constant, the ghost region it waits in, saved execute data
  | region (savedEd savedReg : Nat)            -- isolate_within_arena: `previous_isolation`
  deriving Repr, DecidableEq

structure Th where
  ed : Nat := 0            -- m_execute_data_ext.isolation of the thread's task dispatcher
  reg : Nat := 0           -- ghost: region of the running code
  stack : List Fr := []
  deriving Repr, DecidableEq

structure LogE where
  thread : Nat
  task : Task
  iso : Nat                -- the dispatch loop's isolation word
  ghost : Nat              -- the ghost region the dispatch loop waits in
  deriving Repr, DecidableEq

structure ISt where
  pools : List Pool
  mail : List (List PEntry)
  idle : List Bool                 -- mail_outbox::my_is_idle per slot
  claimed : List Nat := []         -- proxies whose task was extracted (`task_and_tag` no longer holds the task)
  fifo : List Task := []
  crit : List Task := []
  ths : List Th
  next : Nat := 0                  -- fresh ids
  log : List LogE := []
  spawned : List Task := []        -- ghost: every task ever created
  proxies : List PEntry := []      -- ghost: every proxy ever created
  deriving Repr, DecidableEq

def ISt.init (n : Nat) : ISt :=
  { pools := List.replicate n [], mail := List.replicate n [], idle := List.replicate n false, ths := List.replicate n {} }

/-! ### the scans -/

/-- what happens to the position of a taken entry: with skipped tasks above it a hole is punched (`task_pool_ptr[T] = nullptr;
tail = T0`), otherwise the tail simply stays below it.  (Only when a thief has concurrently moved `head` past the last entry does
the owner drop that entry instead, `++H0`; holes carry no task, the difference is immaterial here.) -/
def ownTakeRest (rest : List (Option Entry)) (om : Bool) : List (Option Entry) :=
  if om then none :: rest else rest

/-- `arena_slot::get_task` + `get_task_impl`, on the pool listed tail first.  Returns the remaining pool (tail first), the task
to execute, the proxy that was claimed. -/
def ownScan (iso : Nat) (claimed : List Nat) : List (Option Entry) → Bool → List (Option Entry) × Option Task × Option PEntry
  | [], _ => ([], none, none)
  | none :: rest, om =>
    if om then (none :: (ownScan iso claimed rest om).1, (ownScan iso claimed rest om).2)
    else ownScan iso claimed rest false
  | some e :: rest, om =>
    if isoOwnPlain (isoOwnOmit iso e.tag) e.isProxy then
      match e with
      | .plain x => (ownTakeRest rest om, some x, none)
      | .proxy _ => (some e :: (ownScan iso claimed rest true).1, (ownScan iso claimed rest true).2)   -- (a proxy returned as a task: not reachable with sound conditions)
    else if isoOwnSkip (isoOwnOmit iso e.tag) then
      (some e :: (ownScan iso claimed rest true).1, (ownScan iso claimed rest true).2)
    else
      match e with
      | .proxy p =>
        if p.pid ∈ claimed then
          -- "Proxy was empty, so it's our responsibility to free it"; `if (tasks_omitted) task_pool_ptr[T] = nullptr`
          if om then (none :: (ownScan iso claimed rest om).1, (ownScan iso claimed rest om).2)
          else ownScan iso claimed rest false
        else (ownTakeRest rest om, some p.task, some p)
      | .plain _ => (some e :: (ownScan iso claimed rest true).1, (ownScan iso claimed rest true).2)   -- (a plain task cast to a proxy: not reachable)

/-- the test of `arena_slot::steal_task` on one non-null entry: isolation, then plain task or the proxy rule -/
def stealTakes (iso : Nat) (claimed : List Nat) (destIdle : Nat → Bool) (victimIdle : Bool) (e : Entry) : Bool :=
  isoStealOk iso e.tag &&
    (isoStealPlain e.isProxy ||
      match e with
      | .proxy p => isoStealProxyTake (!(claimed.contains p.pid)) (destIdle p.dest) victimIdle
      | .plain _ => false)

/-- `arena_slot::steal_task` on the pool listed head first: remaining pool and the entry taken -/
def stealScan (iso : Nat) (claimed : List Nat) (destIdle : Nat → Bool) (victimIdle : Bool) :
    List (Option Entry) → Bool → List (Option Entry) × Option Entry
  | [], _ => ([], none)
  | none :: rest, om =>
    if om then (none :: (stealScan iso claimed destIdle victimIdle rest om).1, (stealScan iso claimed destIdle victimIdle rest om).2)
    else stealScan iso claimed destIdle victimIdle rest false
  | some e :: rest, om =>
    if stealTakes iso claimed destIdle victimIdle e then ((if om then none :: rest else rest), some e)
    else (some e :: (stealScan iso claimed destIdle victimIdle rest true).1, (stealScan iso claimed destIdle victimIdle rest true).2)

/-- `get_mailbox_task`: `while (tp = inbox.pop(isolation))` — entries the walk skips stay, dead proxies are popped and freed,
the first live one is taken -/
def mailScan (iso : Nat) (claimed : List Nat) : List PEntry → List PEntry × Option PEntry
  | [] => ([], none)
  | p :: rest =>
    if isoMailGuard iso && isoMailSkip iso p.ptag then (p :: (mailScan iso claimed rest).1, (mailScan iso claimed rest).2)
    else if p.pid ∈ claimed then mailScan iso claimed rest
    else (rest, some p)

/-! ### threads -/

/-- the innermost dispatch loop, if the thread is in one (not inside user code of an isolate callable) -/
def Th.curLoop (th : Th) : Option (Nat × Nat) :=
  match th.stack with
  | .loop i g _ _ :: _ => some (i, g)
  | _ => none

/-- isolation argument chains from the loop's constant to each take point -/
def argOwn (i : Nat) : Nat := isoArgOwn2 (isoArgOwn1 i)
def argMail (i : Nat) : Nat := isoArgMail3 (isoArgMail2 (isoArgMail1 (isoArgIdle i)))
def argSteal (i : Nat) : Nat := isoArgSteal3 (isoArgSteal2 (isoArgSteal1 (isoArgIdle i)))
def argFifo (i : Nat) : Nat := isoArgIdle i
def argCrit (i : Nat) : Nat := isoArgCrit3 (isoArgCrit2 (isoArgCrit1 i))

/-- thread `t` got task `x` in a loop with isolation `i`, ghost region `g`: the execute data follow the task -/
def ISt.exec (s : ISt) (t : Nat) (th : Th) (x : Task) (i g : Nat) (edNew : Nat) : ISt :=
  { s with ths := s.ths.set t { th with ed := edNew, reg := x.region },
           log := s.log ++ [{ thread := t, task := x, iso := i, ghost := g }] }

def claim (claimed : List Nat) : Option PEntry → List Nat
  | some p => p.pid :: claimed
  | none => claimed

inductive IOp where
  | wait (t : Nat)                     -- enter a dispatch loop (local_wait_for_all)
  | endWait (t : Nat)
  | isolate (t : Nat) (fresh : Nat)    -- isolate_within_arena(d, 0): the tag is `&d` (`fresh`)
  | endIsolate (t : Nat)
  | spawn (t : Nat)
  | spawnAff (t : Nat) (dest : Nat)
  | enqueue (t : Nat)
  | critical (t : Nat)
  | setIdle (t : Nat) (b : Bool)       -- the owner of slot t marks its mailbox idle / not idle
  | own (t : Nat)                      -- arena_slot::get_task
  | steal (t : Nat) (v : Nat)          -- arena::steal_task from slot v
  | mailbox (t : Nat)                  -- get_mailbox_task
  | popFifo (t : Nat) (fifoAllowed : Bool) (k : Nat)   -- the k-th task of the stream (lanes: relaxed FIFO)
  | popCrit (t : Nat) (k : Nat)
  deriving Repr, DecidableEq

def ISt.step (s : ISt) : IOp → ISt
  | .wait t =>
    match s.ths[t]? with
    | some th => { s with ths := s.ths.set t { th with stack := .loop (isoLoop th.ed) th.reg th.ed th.reg :: th.stack } }
    | none => s
  | .endWait t =>
    match s.ths[t]? with
    | some th =>
      match th.stack with
      | .loop _ _ se sr :: st => { s with ths := s.ths.set t { ed := se, reg := sr, stack := st } }
      | _ => s
    | none => s
  | .isolate t fresh =>
    match s.ths[t]? with
    | some th =>
      if fresh = 0 then s
      else { s with ths := s.ths.set t { ed := isolateSet (isolateTag 0 fresh), reg := fresh, stack := .region th.ed th.reg :: th.stack } }
    | none => s
  | .endIsolate t =>
    match s.ths[t]? with
    | some th =>
      match th.stack with
      | .region se sr :: st => { s with ths := s.ths.set t { ed := isolateRestore se, reg := sr, stack := st } }
      | _ => s
    | none => s
  | .spawn t =>
    match s.ths[t]?, s.pools[t]? with
    | some th, some pool =>
      let x : Task := { id := s.next, tag := tagSpawn th.ed, region := th.reg }
      { s with pools := s.pools.set t (pool ++ [some (.plain x)]), next := s.next + 1, spawned := s.spawned ++ [x] }
    | _, _ => s
  | .spawnAff t dest =>
    match s.ths[t]?, s.pools[t]? with
    | some th, some pool =>
      let x : Task := { id := s.next, tag := tagSpawnAff th.ed, region := th.reg }
      match (if dest = t then none else s.mail[dest]?) with
      | some box =>
        let p : PEntry := { pid := s.next, ptag := tagProxy th.ed, task := x, dest := dest }
        { s with pools := s.pools.set t (pool ++ [some (.proxy p)]), mail := s.mail.set dest (box ++ [p]),
                 next := s.next + 1, spawned := s.spawned ++ [x], proxies := s.proxies ++ [p] }
      | none => { s with pools := s.pools.set t (pool ++ [some (.plain x)]), next := s.next + 1, spawned := s.spawned ++ [x] }
    | _, _ => s
  | .enqueue t =>
    match s.ths[t]? with
    | some th =>
      let x : Task := { id := s.next, tag := tagEnqueue th.ed, region := 0 }
      { s with fifo := s.fifo ++ [x], next := s.next + 1, spawned := s.spawned ++ [x] }
    | none => s
  | .critical t =>
    match s.ths[t]? with
    | some th =>
      let x : Task := { id := s.next, tag := tagCritical th.ed, region := th.reg }
      { s with crit := s.crit ++ [x], next := s.next + 1, spawned := s.spawned ++ [x] }
    | none => s
  | .setIdle t b => if t < s.idle.length then { s with idle := s.idle.set t b } else s
  | .own t =>
    match s.ths[t]?, s.pools[t]? with
    | some th, some pool =>
      match th.curLoop with
      | some (i, g) =>
        let r := ownScan (argOwn i) s.claimed pool.reverse false
        let s1 := { s with pools := s.pools.set t r.1.reverse, claimed := claim s.claimed r.2.2 }
        match r.2.1 with
        | some x => s1.exec t th x i g (edAfterOwn x.tag)
        | none => s1
      | none => s
    | _, _ => s
  | .steal t v =>
    match s.ths[t]?, s.pools[v]? with
    | some th, some pool =>
      match th.curLoop with
      | some (i, g) =>
        if v = t then s else
        let r := stealScan (argSteal i) s.claimed (fun d => s.idle.getD d false) (s.idle.getD v false) pool false
        let s1 := { s with pools := s.pools.set v r.1 }
        match r.2 with
        | some (.plain x) => s1.exec t th x i g (edAfterIdle x.tag)
        | some (.proxy p) =>
          -- arena::steal_task: `tp.extract_task<pool_bit>()`; an empty proxy is freed
          if p.pid ∈ s.claimed then s1
          else ({ s1 with claimed := p.pid :: s.claimed }).exec t th p.task i g (edAfterIdle p.task.tag)
        | none => s1
      | none => s
    | _, _ => s
  | .mailbox t =>
    match s.ths[t]?, s.mail[t]? with
    | some th, some box =>
      match th.curLoop with
      | some (i, g) =>
        let r := mailScan (argMail i) s.claimed box
        let s1 := { s with mail := s.mail.set t r.1, claimed := claim s.claimed r.2 }
        match r.2 with
        | some p => s1.exec t th p.task i g (edAfterIdle p.task.tag)
        | none => s1
      | none => s
    | _, _ => s
  | .popFifo t fa k =>
    match s.ths[t]?, s.fifo[k]? with
    | some th, some x =>
      match th.curLoop with
      | some (i, g) =>
        if isoFifoOk fa (argFifo i) then ({ s with fifo := s.fifo.eraseIdx k }).exec t th x i g (edAfterIdle x.tag) else s
      | none => s
    | _, _ => s
  | .popCrit t k =>
    match s.ths[t]?, s.crit[k]? with
    | some th, some x =>
      match th.curLoop with
      | some (i, g) =>
        -- `isolation != no_isolation ? pop_specific(hint, isolation) : pop(..)`; look_specific takes a task iff its tag matches
        if !isoCritSpecific (isoArgCrit1 i) || isoCritMatch true (argCrit i) x.tag then
          ({ s with crit := s.crit.eraseIdx k }).exec t th x i g (edAfterCrit x.tag)
        else s
      | none => s
    | _, _ => s

def ISt.run (s : ISt) (ops : List IOp) : ISt := ops.foldl ISt.step s

end TbbVerif.C16.Iso
