/-
C18 — line-protocol driver of the ladder model: C17's back-end driver (`Model/C17BackendDrv.lean`, same script syntax as
`harness/c17/be.cpp bk`) extended by
  * a `T` line after every operation: `totalMemSize` as it must be (sum of the registered regions) and the region count;
  * a `K` line (model only): the hypotheses of `recovery` evaluated on the state after the operation — `quiet`, `WF`,
    the `maxRequestedSize` bound, fixed pool or not;
  * `destroy <hasRawFree> <keyOk> | <answer>...`: `pool_destroy` on the model (`poolDestroy`), the raw-free answers being what
    the real callback reported, in call order (1 = success).
-/
import TbbVerif.Model.C17BackendDrv
import TbbVerif.Model.C18Ladder

namespace TbbVerif.C18.Ladder
open TbbVerif.C17.BE
open TbbVerif.Generated.C17Backend
open TbbVerif.Proto

def bit (b : Bool) : String := if b then "1" else "0"

def extra (s : St) : List String :=
  [s!"T total={totalMem s.regions} regions={s.regions.length}",
   s!"K quiet={bit (decide (quiet s))} wf={bit (decide (WF s))} maxreq={bit (decide (s.g.maxReq < beMaxBinnedSmallPage))} fixed={bit s.g.cfg.fixedPool}"]

def insertExtra (out : String) (ls : List String) : String :=
  if out.endsWith "\n." then (out.dropRight 2) ++ "\n" ++ "\n".intercalate ls ++ "\n." else out

def showEv : C18.Ev → String
  | .rawFree a n => s!"[F {a} {n}]"
  | .rawAlloc a n => s!"[P {a} {n}]"
  | .block a n => s!"[B {a} {n}]"

def lstep (d : DSt) (ws : List String) : DSt × String :=
  let (cmd, rest) := match ws.span (· ≠ "|") with
    | (c, _ :: r) => (c, r)
    | (c, []) => (c, [])
  match d.st, cmd with
  | some s, ["destroy", hasFree, keyOk] =>
    match nat? hasFree, nat? keyOk, rest.mapM nat? with
    | some hf, some ko, some ans =>
      let (res, evs) := poolDestroy s (hf != 0) (ko != 0) (ans.map (· != 0))
      -- the pool is gone
      ({ d with st := none }, "> destroy\n= " ++ bit res ++ String.join (evs.map (fun e => " " ++ showEv e)) ++ "\n.")
    | _, _, _ => (d, "> " ++ " ".intercalate cmd ++ "\n= bad-op\n.")
  | some _, ["rawfreefail", a, b] =>
    -- an instruction to the harness' raw-free callback: no effect on the back end
    let (d', out) := dstep d ["osfail", a, b]
    match d'.st with
    | some s' => (d', insertExtra (out.replace "> osfail" "> rawfreefail") (extra s'))
    | none => (d', out)
  | _, _ =>
    let (d', out) := dstep d ws
    match d'.st with
    | some s' => if (out.splitOn "\nS maxReq=").length > 1 then (d', insertExtra out (extra s')) else (d', out)
    | none => (d', out)

def driver : Proto.Driver := { σ := DSt, init := {}, step := lstep }

end TbbVerif.C18.Ladder
