/-
C12 — IEEE-754 binary32 arithmetic as far as the table-sizing code of the unordered containers uses it
(`max_load_factor()` is a `float`; `reserve` multiplies a bucket count by it, `adjust_table_size` divides two
converted counts and compares with it).  Core Lean only; executable (linked into drv_c12).

Values: the non-negative finite floats `m * 2^e` (`m < 2^24`, `e ≥ -149`; canonical: `m ≥ 2^23` unless `e = -149`,
zero is `fin 0 0`), `+inf`, `NaN` and one token `neg` for "some negative value" (a negative load factor is only ever
compared with 0 by the setter's guard and rejected).  Conversions and `*`, `/` round to nearest, ties to even, with
gradual underflow and overflow to `inf`, which is what the SSE instructions g++ emits for `float` do.  The E-PURE
differential (`c12sz`) runs these definitions against the real container.
-/
namespace TbbVerif.C12

inductive F32 where
  | fin (m : Nat) (e : Int)
  | inf
  | nan
  | neg
  deriving DecidableEq, Repr, Inhabited

namespace F32

def pow2i (e : Int) : Nat := 2 ^ e.toNat

/-- `num / den ≥ 2^l` -/
def geScaled (num den : Nat) (l : Int) : Bool :=
  if l ≥ 0 then decide (num ≥ den * pow2i l) else decide (num * pow2i (-l) ≥ den)

/-- round the exact rational `num / den` (`den > 0`) to the nearest binary32, ties to even -/
def roundQ (num den : Nat) : F32 :=
  if num = 0 ∨ den = 0 then .fin 0 0 else
  let l0 : Int := (Nat.log2 num : Int) - (Nat.log2 den : Int)
  -- floor(log2(num/den)) is l0 or l0 - 1
  let l : Int := if geScaled num den l0 then l0 else l0 - 1
  let e : Int := if l - 23 < -149 then -149 else l - 23
  let N : Nat := if e ≥ 0 then num else num * pow2i (-e)
  let D : Nat := if e ≥ 0 then den * pow2i e else den
  let q := N / D
  let r := N % D
  let q := if 2 * r > D ∨ (2 * r = D ∧ q % 2 = 1) then q + 1 else q
  let (q, e) := if q = 2 ^ 24 then (2 ^ 23, e + 1) else (q, e)
  if e > 104 then .inf else .fin q e

/-- round `m * 2^e` -/
def roundDy (m : Nat) (e : Int) : F32 :=
  if e ≥ 0 then roundQ (m * pow2i e) 1 else roundQ m (pow2i (-e))

/-- conversion of an unsigned integer (`float(n)`, and the implicit conversion in mixed arithmetic) -/
def ofNat (n : Nat) : F32 := roundQ n 1

def mul : F32 → F32 → F32
  | .fin m1 e1, .fin m2 e2 => roundDy (m1 * m2) (e1 + e2)
  | .fin m _, .inf => if m = 0 then .nan else .inf
  | .inf, .fin m _ => if m = 0 then .nan else .inf
  | .inf, .inf => .inf
  | _, _ => .nan

def div : F32 → F32 → F32
  | .fin m1 e1, .fin m2 e2 =>
    if m2 = 0 then (if m1 = 0 then .nan else .inf) else
    let d := e1 - e2
    if d ≥ 0 then roundQ (m1 * pow2i d) m2 else roundQ m1 (m2 * pow2i (-d))
  | .fin _ _, .inf => .fin 0 0
  | .inf, .fin _ _ => .inf
  | _, _ => .nan

/-- `a < b` (false whenever a NaN is involved; `neg` is below every non-negative value) -/
def lt : F32 → F32 → Bool
  | .fin m1 e1, .fin m2 e2 =>
    let d := if e1 ≤ e2 then e1 else e2
    decide (m1 * pow2i (e1 - d) < m2 * pow2i (e2 - d))
  | .fin _ _, .inf => true
  | .neg, .fin _ _ => true
  | .neg, .inf => true
  | _, _ => false

/-- `a == b` -/
def eq : F32 → F32 → Bool
  | .fin m1 e1, .fin m2 e2 =>
    let d := if e1 ≤ e2 then e1 else e2
    decide (m1 * pow2i (e1 - d) = m2 * pow2i (e2 - d))
  | .inf, .inf => true
  | _, _ => false          -- NaN compares unequal to everything; `neg` stands for many values: never claimed equal

def le (a b : F32) : Bool := lt a b || eq a b

/-- `size_type(x)`: truncation towards zero (out-of-range conversions are undefined behaviour in C++; the model
saturates) -/
def toNat : F32 → Nat
  | .fin m e => if e ≥ 0 then (m * pow2i e) % 2 ^ 64 else m / pow2i (-e)
  | .inf => 2 ^ 64 - 1
  | _ => 0

/-- decode the 32 bits of a `float` -/
def ofBits (b : Nat) : F32 :=
  let sign : Nat := (b / 2 ^ 31) % 2
  let ex : Nat := (b / 2 ^ 23) % 256
  let man : Nat := b % 2 ^ 23
  if ex = 255 then (if man ≠ 0 then .nan else if sign = 1 then .neg else .inf)
  else if ex = 0 then (if man = 0 then .fin 0 0 else if sign = 1 then .neg else .fin man (-149))
  else if sign = 1 then .neg else .fin (2 ^ 23 + man) ((ex : Int) - 150)

/-- encode (canonical values only; `neg` has no single encoding) -/
def toBits : F32 → Nat
  | .fin m e => if m < 2 ^ 23 then m else (((e + 150).toNat) * 2 ^ 23 + (m - 2 ^ 23))
  | .inf => 255 * 2 ^ 23
  | .nan => 255 * 2 ^ 23 + 2 ^ 22
  | .neg => 2 ^ 31 + 127 * 2 ^ 23

end F32

/-- `tbb::detail::log2` on a non-zero word -/
def clog2 (x : Nat) : Nat := Nat.log2 x

end TbbVerif.C12
