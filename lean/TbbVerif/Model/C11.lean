/-
C11 — concurrent_vector / segment_table model (executable, core Lean only).

Code modelled: include/oneapi/tbb/detail/_segment_table.h (segment_index_of, segment_base,
segment_size, first-block fusion in create_segment / internal_subscript) and
include/oneapi/tbb/concurrent_vector.h (internal_emplace_back, internal_grow_by_delta,
internal_grow_to_at_least: the operations on the `my_size` word that hand out index ranges).
-/
import TbbVerif.Core.Sched
import TbbVerif.Core.Proto
import TbbVerif.Generated.C11

namespace TbbVerif.C11

/-- `segment_index_of(index) = log2(index | 1)` -/
def segIndex (i : Nat) : Nat := Nat.log2 (i ||| 1)

/-- `segment_base(k) = size_type(1) << k & ~size_type(1)` (64-bit `size_type`; `k < 64`). -/
def segBase (k : Nat) : Nat := (1 <<< k) &&& (2 ^ 64 - 2)

/-- `segment_size(k) = k == 0 ? 2 : size_type(1) << k` -/
def segSize (k : Nat) : Nat := if k = 0 then 2 else 1 <<< k

/-- Where element `i` lives once `my_first_block = fb` (fb ≥ 1): segments `< fb` are one allocation of
`segment_size(fb)` elements indexed by `i` itself (the table stores the unshifted pointer for them);
a segment `k ≥ fb` is its own allocation and the table stores `ptr - segment_base(k)`, so the offset
within the allocation is `i - segment_base(k)`.  Returns `(allocation id, offset)`. -/
def addrOf (fb i : Nat) : Nat × Nat :=
  let k := segIndex i
  if k < fb then (0, i) else (k, i - segBase k)

/-- Number of elements in allocation `a` under first block `fb`. -/
def allocSize (fb a : Nat) : Nat := if a < fb then segSize fb else segSize a

/-! ### The `my_size` word: how concurrent growers obtain index ranges -/

inductive Op where
  | pushBack                -- `my_size++`
  | growBy (delta : Nat)    -- `my_size.fetch_add(delta)` (delta = 0 returns without touching the word)
  | growTo (n : Nat)        -- `grow_to_at_least(n)`: load; `while (old < n && !CAS(old, n)) {}`
  deriving Repr, DecidableEq

/-- Thread-local program state of one grower: the calls it still has to make (head = current), `pc = 0`: the
current call has not touched the size word yet; `1`: inside the CAS loop of `growTo` holding `old`; `2`: a `growTo`
that found nothing to grow, about to read `size()` for its return value. -/
structure Th where
  ops    : List Op
  pc     : Nat := 0
  old    : Nat := 0
  claims : List (Nat × Nat) := []   -- half-open ranges `[start, end)` its completed calls must construct, newest first
  deriving Repr, DecidableEq

structure St where
  size   : Nat := 0
  ths    : List Th := []
  /-- ghost: ranges in the order in which the `my_size` word handed them out -/
  log    : List (Nat × Nat) := []
  deriving Repr, DecidableEq

/-- An access to `my_size` as it appears in the E-SHIM trace. -/
structure Ev where
  kind : String
  a : Nat
  b : Nat
  ok : Bool
  deriving Repr, DecidableEq

/-- One access to the size word by thread state `t`: new size, new thread state, range handed out (if any), event. -/
def stepTh (size : Nat) (t : Th) : Nat × Th × Option (Nat × Nat) × Option Ev :=
  match t.ops with
  | [] => (size, t, none, none)
  | op :: rest =>
  match t.pc, op with
  | 0, .pushBack =>
      (size + 1, { t with ops := rest, claims := (size, size + 1) :: t.claims }, some (size, size + 1), some ⟨"fadd", size, size + 1, true⟩)
  | 0, .growBy d =>
      if d = 0 then (size, { t with ops := rest }, none, some ⟨"load", size, 0, true⟩)   -- `return end()`: reads size() only
      else (size + d, { t with ops := rest, claims := (size, size + d) :: t.claims }, some (size, size + d), some ⟨"fadd", size, size + d, true⟩)
  | 0, .growTo n =>
      if n = 0 then (size, { t with ops := rest, old := size }, none, some ⟨"load", size, 0, true⟩)
      else if size < n then (size, { t with pc := 1, old := size }, none, some ⟨"load", size, 0, true⟩)   -- relaxed load
      else (size, { t with pc := 2, old := size }, none, some ⟨"load", size, 0, true⟩)                    -- loop not entered
  | 1, .growTo n =>
      if size = t.old then                                        -- CAS succeeds
        (n, { t with ops := rest, pc := 0, claims := (t.old, n) :: t.claims }, some (t.old, n), some ⟨"cas", t.old, n, true⟩)
      else if size < n then (size, { t with old := size }, none, some ⟨"cas", t.old, size, false⟩)   -- CAS fails, `old` reloaded, retry
      else (size, { t with pc := 2, old := size }, none, some ⟨"cas", t.old, size, false⟩)            -- someone else grew past n
  | 2, .growTo _ =>   -- nothing to grow: (wait for segments, then) `return iterator(*this, size())` reads the word once more
      (size, { t with ops := rest, pc := 0 }, none, some ⟨"load", size, 0, true⟩)
  | _, _ => (size, t, none, none)

def step (s : St) (tid : Tid) : St :=
  match s.ths[tid]? with
  | none => s
  | some t =>
    let (size', t', c, _) := stepTh s.size t
    { size := size', ths := s.ths.set tid t',
      log := match c with | none => s.log | some r => s.log ++ [r] }

def sys (progs : List (List Op)) : Sys St :=
  { init := { size := 0, ths := progs.map (fun p => { ops := p }), log := [] }, step := step }

/-- `tiles lo rs hi`: the ranges `rs`, in order, are non-empty, contiguous and cover `[lo, hi)`. -/
def tiles : Nat → List (Nat × Nat) → Nat → Prop
  | lo, [], hi => lo = hi
  | lo, (a, b) :: rs, hi => a = lo ∧ a < b ∧ tiles b rs hi

instance : ∀ lo rs hi, Decidable (tiles lo rs hi)
  | lo, [], hi => by unfold tiles; infer_instance
  | lo, (a, b) :: rs, hi => by
      unfold tiles
      have := instDecidableTiles b rs hi
      infer_instance
where instDecidableTiles : ∀ lo rs hi, Decidable (tiles lo rs hi)
  | lo, [], hi => by unfold tiles; infer_instance
  | lo, (a, b) :: rs, hi => by
      unfold tiles
      have := instDecidableTiles b rs hi
      infer_instance

/-! ### `grow_to_at_least`: does the call construct `[old, new)`?  The guard is *generated* from the
source text of `internal_grow_to_at_least` on every run (`Generated.C11.gtalGuard`). -/

/-- What `grow_to_at_least(new)` does after its CAS loop left `old` in the local: `true` = it calls
`internal_grow(old, new)` and therefore constructs the claimed range before returning. -/
def gtalGrows (old new : Nat) : Bool := Generated.C11.gtalGuard old new

/-! ### line-protocol driver -/

open Proto in
def drive (ws : List String) : String :=
  match ws with
  | ["idx", i] => match nat? i with
      | some i => s!"{segIndex i}"
      | none => "bad-op"
  | ["base", k] => match nat? k with
      | some k => if k < 64 then s!"{segBase k}" else "bad-op"
      | none => "bad-op"
  | ["size", k] => match nat? k with
      | some k => if k < 64 then s!"{segSize k}" else "bad-op"
      | none => "bad-op"
  | ["addr", fb, i] => match nat? fb, nat? i with
      | some fb, some i => let (a, o) := addrOf fb i; s!"{a} {o}"
      | _, _ => "bad-op"
  | ["gtal", o, n] => match nat? o, nat? n with
      | some o, some n => showBool (gtalGrows o n)
      | _, _ => "bad-op"
  | _ => "bad-op"

def parseOps : List String → Option (List Op)
  | [] => some []
  | "push" :: _ :: rest => (parseOps rest).map (Op.pushBack :: ·)
  | "by" :: x :: rest => match x.toNat?, parseOps rest with
      | some x, some r => some (Op.growBy x :: r)
      | _, _ => none
  | "to" :: x :: rest => match x.toNat?, parseOps rest with
      | some x, some r => some (Op.growTo x :: r)
      | _, _ => none
  | _ => none

/-- Stateful replay of the size word: `prog (push 0|by <d>|to <n>)*` registers a thread, `s <tid>` makes the thread
perform its next access to the size word; output = `<kind> <a> <b> <ok> | <ops left> <claims oldest first as a:b>`. -/
structure DSt where
  st : St := {}

open Proto in
def driveSt (d : DSt) (ws : List String) : DSt × String :=
  match ws with
  | "prog" :: ops => match parseOps ops with
      | some os => ({ st := { d.st with ths := d.st.ths ++ [{ ops := os }] } }, "ok")
      | none => (d, "bad-op")
  | ["s", t] => match nat? t with
      | some t =>
        match d.st.ths[t]? with
        | none => (d, "bad-tid")
        | some th0 =>
          let ev := (stepTh d.st.size th0).2.2.2
          let s' := step d.st t
          match s'.ths[t]? with
          | some th =>
            let evs := match ev with | some e => s!"{e.kind} {e.a} {e.b} {showBool e.ok}" | none => "-"
            let cl := " ".intercalate (th.claims.reverse.map (fun r => s!"{r.1}:{r.2}"))
            ({ st := s' }, s!"{evs} | {th.ops.length} {cl}")
          | none => (d, "bad-tid")
      | none => (d, "bad-op")
  | ["skip", t] =>   -- a call that does not touch the size word (grow_by(0)): advance past it
      match nat? t with
      | some t => ({ st := step d.st t }, "ok")
      | none => (d, "bad-op")
  | ["tiles"] => (d, s!"{Proto.showBool (decide (tiles 0 d.st.log d.st.size))} {d.st.size}")
  | ["reset"] => ({}, "ok")
  | _ => (d, "bad-op")

def driver : Proto.Driver := Proto.pureDriver drive
def driverSt : Proto.Driver := { σ := DSt, init := {}, step := driveSt }

end TbbVerif.C11
