/-
C11 — concurrent_vector / segment_table model (executable, core Lean only).

Code modelled: include/oneapi/tbb/detail/_segment_table.h (segment_index_of, segment_base,
segment_size, first-block fusion in create_segment / internal_subscript) and
include/oneapi/tbb/concurrent_vector.h (internal_emplace_back, internal_grow_by_delta,
internal_grow_to_at_least: the operations on the `my_size` word that hand out index ranges).
-/
import TbbVerif.Core.Sched
import TbbVerif.Core.Proto
import TbbVerif.Generated.C11

namespace TbbVerif.C11

/-- `segment_index_of(index) = log2(index | 1)` -/
def segIndex (i : Nat) : Nat := Nat.log2 (i ||| 1)

/-- `segment_base(k) = size_type(1) << k & ~size_type(1)` (64-bit `size_type`; `k < 64`). -/
def segBase (k : Nat) : Nat := (1 <<< k) &&& (2 ^ 64 - 2)

/-- `segment_size(k) = k == 0 ? 2 : size_type(1) << k` -/
def segSize (k : Nat) : Nat := if k = 0 then 2 else 1 <<< k

/-- Where element `i` lives once `my_first_block = fb` (fb ≥ 1): segments `< fb` are one allocation of
`segment_size(fb)` elements indexed by `i` itself (the table stores the unshifted pointer for them);
a segment `k ≥ fb` is its own allocation and the table stores `ptr - segment_base(k)`, so the offset
within the allocation is `i - segment_base(k)`.  Returns `(allocation id, offset)`. -/
def addrOf (fb i : Nat) : Nat × Nat :=
  let k := segIndex i
  if k < fb then (0, i) else (k, i - segBase k)

/-- Number of elements in allocation `a` under first block `fb`. -/
def allocSize (fb a : Nat) : Nat := if a < fb then segSize fb else segSize a

/-! ### The `my_size` word: how concurrent growers obtain index ranges -/

inductive Op where
  | pushBack                -- `my_size++`
  | growBy (delta : Nat)    -- `my_size.fetch_add(delta)` (delta = 0 returns without touching the word)
  | growTo (n : Nat)        -- `grow_to_at_least(n)`: load; `while (old < n && !CAS(old, n)) {}`
  deriving Repr, DecidableEq

/-- Thread-local program state of one grower. `pc = 0`: not started; `1`: inside the CAS loop of
`growTo` holding `old`; `2`: done. -/
structure Th where
  op    : Op
  pc    : Nat := 0
  old   : Nat := 0
  claim : Option (Nat × Nat) := none   -- the half-open range `[start, end)` this call must construct
  deriving Repr, DecidableEq

structure St where
  size   : Nat := 0
  ths    : List Th := []
  /-- ghost: ranges in the order in which the `my_size` word handed them out -/
  log    : List (Nat × Nat) := []
  deriving Repr, DecidableEq

def stepTh (size : Nat) (t : Th) : Nat × Th × Option (Nat × Nat) :=
  match t.pc, t.op with
  | 0, .pushBack => (size + 1, { t with pc := 2, claim := some (size, size + 1) }, some (size, size + 1))
  | 0, .growBy d =>
      if d = 0 then (size, { t with pc := 2 }, none)
      else (size + d, { t with pc := 2, claim := some (size, size + d) }, some (size, size + d))
  | 0, .growTo n =>
      if n = 0 then (size, { t with pc := 2 }, none)
      else (size, { t with pc := 1, old := size }, none)            -- relaxed load of my_size
  | 1, .growTo n =>
      if t.old < n then
        if size = t.old then                                        -- CAS succeeds
          (n, { t with pc := 2, claim := some (t.old, n) }, some (t.old, n))
        else (size, { t with old := size }, none)                  -- CAS fails, `old` reloaded
      else (size, { t with pc := 2 }, none)
  | _, _ => (size, t, none)

def step (s : St) (tid : Tid) : St :=
  match s.ths[tid]? with
  | none => s
  | some t =>
    let (size', t', c) := stepTh s.size t
    { size := size', ths := s.ths.set tid t',
      log := match c with | none => s.log | some r => s.log ++ [r] }

def sys (ops : List Op) : Sys St :=
  { init := { size := 0, ths := ops.map (fun o => { op := o }), log := [] }, step := step }

/-- `tiles lo rs hi`: the ranges `rs`, in order, are non-empty, contiguous and cover `[lo, hi)`. -/
def tiles : Nat → List (Nat × Nat) → Nat → Prop
  | lo, [], hi => lo = hi
  | lo, (a, b) :: rs, hi => a = lo ∧ a < b ∧ tiles b rs hi

instance : ∀ lo rs hi, Decidable (tiles lo rs hi)
  | lo, [], hi => by unfold tiles; infer_instance
  | lo, (a, b) :: rs, hi => by
      unfold tiles
      have := instDecidableTiles b rs hi
      infer_instance
where instDecidableTiles : ∀ lo rs hi, Decidable (tiles lo rs hi)
  | lo, [], hi => by unfold tiles; infer_instance
  | lo, (a, b) :: rs, hi => by
      unfold tiles
      have := instDecidableTiles b rs hi
      infer_instance

/-! ### `grow_to_at_least`: does the call construct `[old, new)`?  The guard is *generated* from the
source text of `internal_grow_to_at_least` on every run (`Generated.C11.gtalGuard`). -/

/-- What `grow_to_at_least(new)` does after its CAS loop left `old` in the local: `true` = it calls
`internal_grow(old, new)` and therefore constructs the claimed range before returning. -/
def gtalGrows (old new : Nat) : Bool := Generated.C11.gtalGuard old new

/-! ### line-protocol driver -/

open Proto in
def drive (ws : List String) : String :=
  match ws with
  | ["idx", i] => match nat? i with
      | some i => s!"{segIndex i}"
      | none => "bad-op"
  | ["base", k] => match nat? k with
      | some k => if k < 64 then s!"{segBase k}" else "bad-op"
      | none => "bad-op"
  | ["size", k] => match nat? k with
      | some k => if k < 64 then s!"{segSize k}" else "bad-op"
      | none => "bad-op"
  | ["addr", fb, i] => match nat? fb, nat? i with
      | some fb, some i => let (a, o) := addrOf fb i; s!"{a} {o}"
      | _, _ => "bad-op"
  | ["gtal", o, n] => match nat? o, nat? n with
      | some o, some n => showBool (gtalGrows o n)
      | _, _ => "bad-op"
  | _ => "bad-op"

/-- Stateful replay of the size word: `op <tid> push|by <d>|to <n>` registers a call, `s <tid>` makes
the thread take one atomic step, output = the range it was handed (or `-`). -/
structure DSt where
  st : St := {}

open Proto in
def driveSt (d : DSt) (ws : List String) : DSt × String :=
  match ws with
  | ["op", "push"] => ({ st := { d.st with ths := d.st.ths ++ [{ op := .pushBack }] } }, "ok")
  | ["op", "by", x] => match nat? x with
      | some x => ({ st := { d.st with ths := d.st.ths ++ [{ op := .growBy x }] } }, "ok")
      | none => (d, "bad-op")
  | ["op", "to", x] => match nat? x with
      | some x => ({ st := { d.st with ths := d.st.ths ++ [{ op := .growTo x }] } }, "ok")
      | none => (d, "bad-op")
  | ["s", t] => match nat? t with
      | some t =>
        let s' := step d.st t
        let out := match s'.ths[t]? with
          | some th => (match th.claim with
              | some (a, b) => s!"{th.pc} {a} {b} {s'.size}"
              | none => s!"{th.pc} - - {s'.size}")
          | none => "bad-tid"
        ({ st := s' }, out)
      | none => (d, "bad-op")
  | ["tiles"] => (d, Proto.showBool (decide (tiles 0 d.st.log d.st.size)))
  | ["reset"] => ({}, "ok")
  | _ => (d, "bad-op")

def driver : Proto.Driver := Proto.pureDriver drive
def driverSt : Proto.Driver := { σ := DSt, init := {}, step := driveSt }

end TbbVerif.C11
