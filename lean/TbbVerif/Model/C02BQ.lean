/-
C02 — concurrent_bounded_queue's blocking push / pop (ticket-tagged waits on two concurrent monitors), as coded in
include/oneapi/tbb/concurrent_queue.h (`internal_push`, `internal_pop`, `internal_push_if_not_full`,
`internal_pop_if_present` → `internal_try_pop_impl`, `internal_abort`) and src/tbb/concurrent_bounded_queue.cpp
(`wait_bounded_queue_monitor`, `notify_bounded_queue_monitor` with `predicate_leq`, `abort_bounded_queue_monitors`).

State = the code's own words: `head_counter`, `tail_counter`, `my_abort_counter`, `my_capacity`, and the TWO
`concurrent_monitor`s `my_monitors[cbq_slots_avail_tag]` / `my_monitors[cbq_items_avail_tag]`, each of which is a complete
`C02.St` of the Monitor model (Model/C02.lean): N threads, thread `t` owns sleeper `t` and notifier `t` of both monitors.
One model step = one atomic access of the code.  While a thread is inside `monitor.wait(...)` / `monitor.notify(...)` /
`monitor.abort_all()` its steps ARE the Monitor model's steps (`C02.step`) on the monitor concerned; the queue-level
accesses around them (ticket fetch_add, counter loads, the two loads of the wait predicate, `head_counter--` /
`abort_push` on `user_abort`) are modelled here.  The micro-queue level below a ticket (pages, `micro_queue::push/pop`) is
C09's; here a ticket is *published* (valid, or invalid after `abort_push`) by one step and consumed by one step that is
blocked until the ticket is published (`spin_wait_while_eq(tail_counter, k)` in `micro_queue::pop`).

Ghost state: the monitors' `conds` (condition `c` of the slots monitor = "head_counter > c", of the items monitor =
"tail_counter > c" — the wake-up predicates of the ticket-tagged waits) and `raced` / `ninvalid`, which record the two
history shapes of KNOWN_FINDINGS.txt (C09): an aborted pop undoing its ticket after a later pop ticket was handed out,
and a ticket invalidated by `abort_push`.
-/
import TbbVerif.Model.C02

namespace TbbVerif.C02.BQ

inductive Op where
  | push | pop | tryPush | tryPop | abort
  deriving Repr, DecidableEq

/-- program counters = the next atomic access of the thread (queue level); `…Wait` / `…Notify` / `aItems` / `aSlots`:
the thread is inside the monitor call and its next access is the Monitor model's -/
inductive Pc where
  -- internal_push
  | pLoadAbort   -- old_abort_counter = my_abort_counter.load(relaxed)
  | pTailInc     -- ticket = tail_counter++
  | pLoadHead    -- head_counter.load(relaxed) <= ticket - my_capacity ?
  | pWait        -- internal_wait(my_monitors, cbq_slots_avail_tag, target, pred)
  | pAbortPush   -- on_exception: choose(ticket).abort_push(ticket, ...)
  | pPublish     -- choose(ticket).push(ticket, ...)
  | pNotify      -- notify_bounded_queue_monitor(my_monitors, cbq_items_avail_tag, ticket)
  -- internal_pop
  | qLoadAbort
  | qHeadInc     -- target = head_counter++
  | qLoadTail    -- tail_counter.load(relaxed) <= target ?
  | qWait        -- internal_wait(my_monitors, cbq_items_avail_tag, target, pred)
  | qHeadDec     -- on_exception: head_counter--
  | qConsume     -- choose(target).pop(dst, target, ...)  (false for an invalidated ticket: the do-while takes a new ticket)
  | qNotify      -- notify_bounded_queue_monitor(my_monitors, cbq_slots_avail_tag, target)
  -- internal_push_if_not_full
  | tLoadTail    -- ticket = tail_counter.load(relaxed)
  | tLoadHead    -- ticket - head_counter.load(relaxed) >= my_capacity ?
  | tCasTail     -- tail_counter.compare_exchange_strong(ticket, ticket + 1)
  | tPublish
  | tNotify
  -- internal_pop_if_present -> internal_try_pop_impl
  | rLoadHead    -- ticket = head_counter.load(acquire)
  | rLoadTail    -- tail_counter.load(relaxed) - ticket <= 0 ?
  | rCasHead     -- head_counter.compare_exchange_strong(ticket, ticket + 1)
  | rConsume
  | rNotify
  -- internal_abort
  | aInc         -- ++my_abort_counter
  | aItems       -- items_avail.abort_all()
  | aSlots       -- slots_avail.abort_all()
  deriving Repr, DecidableEq

def Op.startPc : Op → Pc
  | .push => .pLoadAbort | .pop => .qLoadAbort | .tryPush => .tLoadTail | .tryPop => .rLoadHead | .abort => .aInc

structure Thr where
  ops     : List Op := []
  pc      : Pc := .pLoadAbort
  ticket  : Nat := 0          -- `ticket` (push) / `target` (pop)
  old     : Nat := 0          -- old_abort_counter
  aOk     : Bool := false     -- inside the wait predicate: the abort-counter load found it unchanged, the counter load is next
  thrown  : Bool := false     -- the wait predicate threw user_abort (guarded_call: cancel_wait, then rethrow)
  results : List Nat := []    -- newest first: 1 = done / true, 0 = false (try_*), 2 = user_abort
  deriving Repr, DecidableEq

structure St where
  cap      : Nat := 1                    -- my_capacity
  head     : Nat := 0                    -- head_counter
  tail     : Nat := 0                    -- tail_counter
  abortc   : Nat := 0                    -- my_abort_counter
  pubd     : List (Nat × Bool) := []     -- tickets whose micro-queue slot was released by its pusher: (ticket, valid)
  slots    : C02.St := {}                -- my_monitors[cbq_slots_avail_tag]
  items    : C02.St := {}                -- my_monitors[cbq_items_avail_tag]
  thr      : List Thr := []
  raced    : Bool := false               -- ghost: some `head_counter--` ran after a later pop ticket had been handed out
  ninvalid : Nat := 0                    -- ghost: number of tickets invalidated by abort_push
  deriving Repr, DecidableEq

def St.setT (s : St) (i : Nat) (th : Thr) : St := { s with thr := s.thr.set i th }
def St.nT (s : St) : Nat := s.thr.length

def St.published (s : St) (k : Nat) : Option Bool := (s.pubd.find? (fun e => e.1 == k)).map (·.2)

/-- the operation returns `res`; the next one starts -/
def Thr.ret (th : Thr) (res : Nat) : Thr :=
  { th with ops := th.ops.tail, pc := (match th.ops.tail with | o :: _ => o.startPc | [] => .pLoadAbort),
            aOk := false, thrown := false, results := res :: th.results }

/-! ### the monitor of a thread as seen from the queue: installing / withdrawing its calls -/

/-- `monitor.wait(pred, thread_context(target))` begins: sleeper `i` (idle) gets the one-call program
`[wait(ctx = target, cond = target)]` -/
def startWait (m : C02.St) (i : Nat) (target : Nat) : C02.St :=
  match m.slp[i]? with
  | some sl => if sl.ops.isEmpty then m.setS i { sl with ops := [⟨target, target⟩] } else m
  | none => m

/-- notifier `i`'s pending call is withdrawn (the pop that took ticket `c` left by `user_abort`, or its ticket turned out
to be invalid and the loop takes a new one: the `notify(slots_avail, c)` never happens); the ghost condition goes with it -/
def disarm (m : C02.St) (i : Nat) : C02.St :=
  match m.ntf[i]? with
  | some n =>
      match n.ops, n.pc with
      | [.sig (some c) _ _], .fence => (m.setCond c false).setN i (mkNotifier [])
      | _, _ => m
  | none => m

/-- the ticket `k` was taken (`counter++` / successful CAS): condition `k` of monitor `m` becomes true, and the thread
now owes `m` the call `notify(predicate_leq(k))` — as a Monitor notifier: program `[cond k := true; notify(ctx ≤ k)]`
whose first step (the state change) is this very access -/
def arm (m : C02.St) (i : Nat) (k : Nat) : C02.St :=
  match m.ntf[i]? with
  | some n =>
      if n.ops.isEmpty then
        C02.step (m.setN i (mkNotifier [.sig (some k) (.leq k) false])) (m.slp.length + i)
      else m
  | none => m

/-- `monitor.abort_all()` is owed: notifier `i` (idle) gets the program `[abort_all]` -/
def armAbort (m : C02.St) (i : Nat) : C02.St :=
  match m.ntf[i]? with
  | some n => if n.ops.isEmpty then m.setN i (mkNotifier [.sig none .abort false]) else m
  | none => m

/-- one access of notifier `i` inside `notify` / `abort_all` (never a `cond :=` step: those are queue-level accesses) -/
def ntfStep (m : C02.St) (i : Nat) : C02.St :=
  match m.ntf[i]? with
  | some n => if n.pc = .set ∨ n.pc = .clr then m else C02.step m (m.slp.length + i)
  | none => m

def ntfDone (m : C02.St) (i : Nat) : Bool :=
  match m.ntf[i]? with | some n => n.ops.isEmpty | none => true

def slpDone (m : C02.St) (i : Nat) : Bool :=
  match m.slp[i]? with | some sl => sl.ops.isEmpty | none => true

/-- outcome of the finished wait: 2 = `user_abort` (thrown by the predicate, or `my_aborted` set by `abort_all`) -/
def waitAborted (m : C02.St) (i : Nat) (th : Thr) : Bool :=
  th.thrown || (match m.slp[i]? with | some sl => sl.results.head? == some 2 | none => false)

/-- One access of thread `i` inside `monitor.wait(pred, node)`; `real` = the wake-up condition as the code evaluates it
(`head_counter > target` / `tail_counter > target`).  The predicate is two loads: the abort counter (throws on a change),
then the counter.  Returns the new monitor, the new thread record and whether the wait is over. -/
def waitStep (m : C02.St) (i : Nat) (th : Thr) (abortc : Nat) (real : Bool) : C02.St × Thr × Bool :=
  match m.slp[i]? with
  | none => (m, th, false)
  | some sl =>
    if sl.ops.isEmpty then (m, th, true) else
    if sl.pc = .check ∧ th.aOk = false then
      -- pred(): my_abort_counter.load(relaxed) != old_abort_counter → throw_exception(user_abort)
      if abortc ≠ th.old then (m.setS i { sl with again := false, pc := .cLoad }, { th with thrown := true }, false)
      else (m, { th with aOk := true }, false)
    else if sl.pc = .check then
      -- pred(): the counter load; wait() cancels when the condition holds, commits otherwise
      if real then (m.setS i { sl with again := false, pc := .cLoad }, { th with aOk := false }, false)
      else (C02.step m i, { th with aOk := false }, false)
    else
      let m' := C02.step m i
      (m', { th with aOk := false }, slpDone m' i)

/-! ### the queue-level accesses -/

def St.withMon (s : St) (items : Bool) (m : C02.St) : St := if items then { s with items := m } else { s with slots := m }

def stepT (s : St) (i : Nat) (th : Thr) : St :=
  match th.ops with
  | [] => s
  | _ :: _ =>
  match th.pc with
  -- ---------------------------------------------------------------- internal_push
  | .pLoadAbort => s.setT i { th with old := s.abortc, pc := .pTailInc }
  | .pTailInc =>
      { s with tail := s.tail + 1, items := arm s.items i s.tail }.setT i { th with ticket := s.tail, pc := .pLoadHead }
  | .pLoadHead =>
      if s.head + s.cap ≤ th.ticket then        -- head_counter <= ticket - my_capacity: the queue is full
        { s with slots := startWait s.slots i (th.ticket - s.cap) }.setT i { th with aOk := false, thrown := false, pc := .pWait }
      else s.setT i { th with pc := .pPublish }
  | .pWait =>
      let r := waitStep s.slots i th s.abortc (decide (s.head > th.ticket - s.cap))
      if r.2.2 then
        { s with slots := r.1 }.setT i { r.2.1 with pc := if waitAborted r.1 i r.2.1 then .pAbortPush else .pPublish }
      else { s with slots := r.1 }.setT i r.2.1
  | .pAbortPush =>
      { s with pubd := (th.ticket, false) :: s.pubd, ninvalid := s.ninvalid + 1, items := disarm s.items i }.setT i (th.ret 2)
  | .pPublish => { s with pubd := (th.ticket, true) :: s.pubd }.setT i { th with pc := .pNotify }
  | .pNotify =>
      let m := ntfStep s.items i
      if ntfDone m i then { s with items := m }.setT i (th.ret 1) else { s with items := m }
  -- ---------------------------------------------------------------- internal_pop
  | .qLoadAbort => s.setT i { th with old := s.abortc, pc := .qHeadInc }
  | .qHeadInc =>
      { s with head := s.head + 1, slots := arm s.slots i s.head }.setT i { th with ticket := s.head, pc := .qLoadTail }
  | .qLoadTail =>
      if s.tail ≤ th.ticket then
        { s with items := startWait s.items i th.ticket }.setT i { th with aOk := false, thrown := false, pc := .qWait }
      else s.setT i { th with pc := .qConsume }
  | .qWait =>
      let r := waitStep s.items i th s.abortc (decide (s.tail > th.ticket))
      if r.2.2 then
        { s with items := r.1 }.setT i { r.2.1 with pc := if waitAborted r.1 i r.2.1 then .qHeadDec else .qConsume }
      else { s with items := r.1 }.setT i r.2.1
  | .qHeadDec =>
      { s with head := s.head - 1, raced := s.raced || decide (s.head ≠ th.ticket + 1),
               slots := (disarm s.slots i).setCond (s.head - 1) false }.setT i (th.ret 2)
  | .qConsume =>
      match s.published th.ticket with
      | none => s                                 -- spin_wait_while_eq(tail_counter, k)
      | some true => s.setT i { th with pc := .qNotify }
      | some false =>                             -- pop() == false: the loop takes the next ticket (no notify for this one)
          { s with slots := disarm s.slots i }.setT i { th with pc := .qHeadInc }
  | .qNotify =>
      let m := ntfStep s.slots i
      if ntfDone m i then { s with slots := m }.setT i (th.ret 1) else { s with slots := m }
  -- ---------------------------------------------------------------- internal_push_if_not_full
  | .tLoadTail => s.setT i { th with ticket := s.tail, pc := .tLoadHead }
  | .tLoadHead =>
      if s.head + s.cap ≤ th.ticket then s.setT i (th.ret 0)           -- ticket - head_counter >= my_capacity
      else s.setT i { th with pc := .tCasTail }
  | .tCasTail =>
      if s.tail = th.ticket then
        { s with tail := s.tail + 1, items := arm s.items i s.tail }.setT i { th with pc := .tPublish }
      else s.setT i { th with ticket := s.tail, pc := .tLoadHead }
  | .tPublish => { s with pubd := (th.ticket, true) :: s.pubd }.setT i { th with pc := .tNotify }
  | .tNotify =>
      let m := ntfStep s.items i
      if ntfDone m i then { s with items := m }.setT i (th.ret 1) else { s with items := m }
  -- ---------------------------------------------------------------- internal_pop_if_present
  | .rLoadHead => s.setT i { th with ticket := s.head, pc := .rLoadTail }
  | .rLoadTail =>
      if s.tail ≤ th.ticket then s.setT i (th.ret 0)                   -- the queue is empty
      else s.setT i { th with pc := .rCasHead }
  | .rCasHead =>
      if s.head = th.ticket then
        { s with head := s.head + 1, slots := arm s.slots i s.head }.setT i { th with pc := .rConsume }
      else s.setT i { th with ticket := s.head, pc := .rLoadTail }
  | .rConsume =>
      match s.published th.ticket with
      | none => s
      | some true => s.setT i { th with pc := .rNotify }
      | some false => { s with slots := disarm s.slots i }.setT i { th with pc := .rLoadHead }
  | .rNotify =>
      let m := ntfStep s.slots i
      if ntfDone m i then { s with slots := m }.setT i (th.ret 1) else { s with slots := m }
  -- ---------------------------------------------------------------- internal_abort
  | .aInc =>
      { s with abortc := s.abortc + 1, items := armAbort s.items i, slots := armAbort s.slots i }.setT i { th with pc := .aItems }
  | .aItems =>
      let m := ntfStep s.items i
      if ntfDone m i then { s with items := m }.setT i { th with pc := .aSlots } else { s with items := m }
  | .aSlots =>
      let m := ntfStep s.slots i
      if ntfDone m i then { s with slots := m }.setT i (th.ret 1) else { s with slots := m }

def step (s : St) (t : Tid) : St :=
  match s.thr[t]? with
  | some th => stepT s t th
  | none => s

def mkThr (p : List Op) : Thr := { ops := p, pc := match p with | o :: _ => o.startPc | [] => .pLoadAbort }

def monInit (n : Nat) : C02.St := C02.init (List.replicate n []) (List.replicate n [])

def init (cap : Nat) (progs : List (List Op)) : St :=
  { cap := cap, thr := progs.map mkThr, slots := monInit progs.length, items := monInit progs.length }

/-- `cap` = `my_capacity`, `progs` = one program (sequence of push / pop / try_push / try_pop / abort calls) per thread -/
def sys (cap : Nat) (progs : List (List Op)) : Sys St := { init := init cap progs, step := step }

/-- the two history shapes excluded by the wake-up theorem (KNOWN_FINDINGS.txt, C09): no `head_counter--` after a later
pop ticket was handed out ("abort racing a new pop"), no ticket invalidated (aborted blocked push; throwing
constructors are not in the model's alphabet) -/
def St.clean (s : St) : Bool := !s.raced && s.ninvalid == 0

/-- the call of thread `i` that is an `abort_all` still before its flush on monitor `m` (it will dequeue every waiter) -/
def pendingAbort (n : Notifier) : Bool :=
  n.ops == [.sig none .abort false] &&
    (n.pc == .fence || n.pc == .test || n.pc == .lock || n.pc == .epoch || n.pc == .flush)

/-! ### the access a step performs, for trace replay -/

def tagVars (tag : String) (e : String) : String :=
  match e.splitOn " " with
  | k :: v :: rest =>
      if v == "epoch" || v == "count" || v == "mflag" then " ".intercalate (k :: (tag ++ v) :: rest) else e
  | _ => e

def evWait (tag : String) (m : C02.St) (i : Nat) (th : Thr) (s : St) (ctr : String) (v : Nat) : String :=
  match m.slp[i]? with
  | none => "-"
  | some sl =>
    if sl.ops.isEmpty then "-" else
    if sl.pc = .check ∧ th.aOk = false then s!"load abortc rlx {s.abortc}"
    else if sl.pc = .check then s!"load {ctr} rlx {v}"
    else tagVars tag (C02.ev m i)

def evNtf (tag : String) (m : C02.St) (i : Nat) : String :=
  match m.ntf[i]? with
  | some n => if n.pc = .set ∨ n.pc = .clr then "-" else tagVars tag (C02.ev m (m.slp.length + i))
  | none => "-"

def ev (s : St) (t : Tid) : String :=
  match s.thr[t]? with
  | none => "-"
  | some th =>
    match th.ops with
    | [] => "-"
    | _ :: _ =>
    match th.pc with
    | .pLoadAbort | .qLoadAbort => s!"load abortc rlx {s.abortc}"
    | .pTailInc => s!"fadd tail sc {s.tail} {s.tail + 1}"
    | .pLoadHead | .tLoadHead => s!"load head rlx {s.head}"
    | .pWait => evWait "S." s.slots t th s "head" s.head
    | .pAbortPush => "pub 0"
    | .pPublish | .tPublish => "pub 1"
    | .pNotify | .tNotify | .aItems => evNtf "I." s.items t
    | .qHeadInc => s!"fadd head sc {s.head} {s.head + 1}"
    | .qLoadTail | .rLoadTail => s!"load tail rlx {s.tail}"
    | .qWait => evWait "I." s.items t th s "tail" s.tail
    | .qHeadDec => s!"fsub head sc {s.head} {s.head - 1}"
    | .qConsume | .rConsume =>
        match s.published th.ticket with | none => "-" | some true => "con 1" | some false => "con 0"
    | .qNotify | .rNotify | .aSlots => evNtf "S." s.slots t
    | .tLoadTail => s!"load tail rlx {s.tail}"
    | .tCasTail => if s.tail = th.ticket then s!"cas tail sc {th.ticket} {th.ticket + 1} 1" else s!"cas tail sc {th.ticket} {s.tail} 0"
    | .rLoadHead => s!"load head acq {s.head}"
    | .rCasHead => if s.head = th.ticket then s!"cas head sc {th.ticket} {th.ticket + 1} 1" else s!"cas head sc {th.ticket} {s.head} 0"
    | .aInc => s!"fadd abortc sc {s.abortc} {s.abortc + 1}"

/-! ### line-protocol driver: `init <cap>` / `T <op>*` (one line per thread) / `s <tid>` / `state` / `left` -/

open Proto

def parseOp (w : String) : Option Op :=
  if w == "push" then some .push else if w == "pop" then some .pop else if w == "tpush" then some .tryPush
  else if w == "tpop" then some .tryPop else if w == "abort" then some .abort else none

def reinit (s : St) : St :=
  { s with slots := monInit s.thr.length, items := monInit s.thr.length }

def drive (st : St) (ws : List String) : St × String :=
  match ws with
  | ["init", c] => match nat? c with | some c => ({ cap := c }, "ok") | none => (st, "bad-op")
  | "T" :: ops =>
      match ops.mapM parseOp with
      | some os => (reinit { st with thr := st.thr ++ [mkThr os] }, "ok")
      | none => (st, "bad-op")
  | ["s", t] =>
      match nat? t with
      | some t => if t < st.thr.length then (step st t, ev st t) else (st, "bad-tid")
      | none => (st, "bad-op")
  | ["state"] =>
      (st, s!"{st.head} {st.tail} {st.abortc} {showBool st.clean} | " ++ " | ".intercalate (st.thr.map (fun th => showNats th.results.reverse)))
  | ["left"] => (st, toString ((st.thr.filter (fun th => !th.ops.isEmpty)).length))
  | _ => (st, "bad-op")

def driver : Proto.Driver := { σ := St, init := {}, step := drive }

end TbbVerif.C02.BQ
