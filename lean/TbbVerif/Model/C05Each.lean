/-
C05 — parallel_for_each and parallel_invoke: the tasks the headers create, as a small-step task system
(executable model, core Lean only).

Code modelled
  include/oneapi/tbb/parallel_for_each.h   run_parallel_for_each, for_each_root_task (three iterator categories),
                                           input_block_handling_task, forward_block_handling_task,
                                           for_each_iteration_task, feeder_impl::internal_add_*, feeder_item_task,
                                           parallel_for_body_wrapper
  include/oneapi/tbb/parallel_invoke.h     invoke_recursive_separation (1, 2, 3, 3+N functions), invoke_subroot_task,
                                           function_invoker, invoke_root_task
  include/oneapi/tbb/detail/_task.h        wait_context reserve/release, reference_vertex (per-thread vertex of the
                                           feeder: forwards 0->1 / 1->0 transitions to the parent wait context)

Granularity.  A *task* is a descriptor in the pool of spawned-but-not-started tasks; an *activation* is a task (or the
calling thread) being executed: the list of operations it still has to perform, in program order.  One model step =
one operation of one activation (a reference-count update, a spawn, a logged action, one iteration of the root task's
for-loop) or the start of a pending task by some thread.  A *schedule* is an arbitrary list of such choices: any number
of threads, any interleaving, tasks started in any order, `await` (execute_and_wait / wait) blocks until the counter
is zero.  What a body call feeds is an arbitrary function `feeds : item -> list of new items`.

State words follow the code: the root wait context, one wait context per block task (`my_wait_context`), the child
counters that forward to the root (per-thread `reference_vertex`, `invoke_subroot_task::ref_count`), the input
iterator position `my_first`.
-/
import TbbVerif.Core.Proto
import TbbVerif.Generated.C05Each

namespace TbbVerif.C05.Each

/-- which `for_each_root_task` specialisation `iterator_tag_dispatch` selects -/
inductive Cat where
  | input | forward | random
  deriving DecidableEq, Repr, Inhabited

/-- reference counters -/
inductive Ctr where
  /-- `wait_context_vertex w_context` of run_parallel_for_each / `root_wait_ctx` of parallel_invoke_impl -/
  | root
  /-- `my_wait_context` of the `b`-th block handling task (for the random-access path: the wait of the nested parallel_for) -/
  | blk (b : Nat)
  /-- a counter that forwards to the root: per-thread `reference_vertex` (index < number of threads) or the
  `ref_count` of an invoke_subroot_task (allocated when the subroot runs) -/
  | kid (i : Nat)
  deriving DecidableEq, Repr, Inhabited

/-- where the item passed to a body call lives -/
inductive Src where
  /-- copy number `s` in `block_iteration_space` of block `b` (input iterators) -/
  | slot (b s : Nat)
  /-- element `k` of the user's sequence (forward / random access iterators: the iterator is dereferenced in the call) -/
  | pos (k : Nat)
  /-- the copy held by a feeder_item_task -/
  | fed
  deriving DecidableEq, Repr, Inhabited

inductive Task where
  /-- `for_each_root_task` (re-spawns itself for the next block) -/
  | root
  /-- `for_each_iteration_task` of block `b` for item `x` -/
  | iter (b x : Nat) (src : Src)
  /-- `feeder_item_task` holding a copy of `x`, its reference reserved on vertex `v` -/
  | feed (x v : Nat)
  /-- a leaf `start_for` task of the nested parallel_for: body wrapper over positions `lo, lo+1, …` (items `xs`) -/
  | chunk (b lo : Nat) (xs : List Nat)
  /-- `invoke_subroot_task<F1,F2,F3>` -/
  | subroot (f1 f2 f3 : Nat)
  /-- `function_invoker` for function `f`, releasing `c` (the root, or a subroot's ref_count) -/
  | inv (f : Nat) (c : Ctr)
  deriving DecidableEq, Repr, Inhabited

/-- observable actions, logged in execution order -/
inductive Act where
  | cmp (k : Nat)               -- `my_first == my_last` evaluated at position k on entry of root::execute
  | deref (k : Nat)             -- `*my_first` at position k (input iterators: to copy the item)
  | inc (k : Nat)               -- `++my_first` from position k
  | copy (b s x : Nat)          -- `new (block_iterator++) Item(*my_first)`
  | destroy (b s x : Nat)       -- `~Item()` in ~input_block_handling_task
  | block (b k0 m : Nat)        -- block b formed: positions [k0, k0+m)
  | pfor (b : Nat)              -- nested parallel_for started (random access)
  | bodyS (x : Nat) (src : Src) -- user body entered for item x
  | bodyE (x : Nat) (src : Src) -- user body returned
  | callS (f : Nat)             -- parallel_invoke: function f entered
  | callE (f : Nat)
  | arm (k : Nat)               -- subroot: ref_count.fetch_add(3), counter k allocated
  | spawn (t : Task)
  | pass (c : Ctr)              -- a wait returned
  | done                        -- parallel_for_each / parallel_invoke returns to the caller
  deriving DecidableEq, Repr, Inhabited

inductive Op where
  | reserve (c : Ctr) (n : Nat)
  | release (c : Ctr)
  | spawn (t : Task)
  | await (c : Ctr)
  | act (a : Act)
  /-- call the user body on item `x`; what it feeds is decided when it is called -/
  | body (x : Nat) (src : Src)
  /-- `for_each_root_task::execute` -/
  | rootExec
  /-- the for-loop of `for_each_root_task::execute` filling block `b` (started at position `k0`, `items` so far) -/
  | rootLoop (b k0 : Nat) (items : List Nat)
  /-- `invoke_subroot_task::execute` -/
  | subExec (f1 f2 f3 : Nat)
  deriving Repr, Inhabited

structure Cfg where
  cat : Cat := .input
  /-- ids of the items of the input sequence -/
  inp : List Nat := []
  /-- the items a body call on item `x` adds through the feeder -/
  feeds : Nat → List Nat := fun _ => []
  /-- `block_handling_type::max_block_size` of the selected path -/
  maxBlock : Nat := 1
  /-- random access path: the chunks `[lo, hi)` the nested parallel_for hands to the body wrapper -/
  chunks : List (Nat × Nat) := []

/-- an activation: the thread it runs on and the operations it still has to perform -/
structure Actv where
  tid : Nat
  ops : List Op
  deriving Repr, Inhabited

structure St where
  root : Nat := 0
  blk : List Nat := []
  kid : List Nat := []
  pool : List Task := []
  acts : List Actv := []
  /-- most recent first -/
  log : List Act := []
  /-- position of `my_first` -/
  iter : Nat := 0
  /-- a reference counter was released below zero -/
  bad : Bool := false
  deriving Repr, Inhabited

/-- write entry `i` of a counter table; a counter that was never touched is 0 -/
def setPad (l : List Nat) (i v : Nat) : List Nat :=
  if i < l.length then l.set i v else l ++ List.replicate (i - l.length) 0 ++ [v]

namespace St

def val (s : St) : Ctr → Nat
  | .root => s.root
  | .blk b => s.blk.getD b 0
  | .kid i => s.kid.getD i 0

/-- `wait_context::reserve(n)`; for a forwarding counter `reference_vertex::reserve`: `if (fetch_add(n) == 0) parent->reserve()` -/
def reserve (s : St) (c : Ctr) (n : Nat) : St :=
  match c with
  | .root => { s with root := s.root + n }
  | .blk b => { s with blk := setPad s.blk b (s.blk.getD b 0 + n) }
  | .kid i =>
    let v := s.kid.getD i 0
    let s' := { s with kid := setPad s.kid i (v + n) }
    if v = 0 ∧ 0 < n then { s' with root := s'.root + 1 } else s'

/-- `release()`; a forwarding counter releases the parent when it reaches zero -/
def release (s : St) (c : Ctr) : St :=
  match c with
  | .root => if s.root = 0 then { s with bad := true } else { s with root := s.root - 1 }
  | .blk b =>
    let v := s.blk.getD b 0
    if v = 0 then { s with bad := true } else { s with blk := setPad s.blk b (v - 1) }
  | .kid i =>
    let v := s.kid.getD i 0
    if v = 0 then { s with bad := true }
    else
      let s' := { s with kid := setPad s.kid i (v - 1) }
      if v = 1 then (if s'.root = 0 then { s' with bad := true } else { s' with root := s'.root - 1 }) else s'

end St

/-- what a pending task does when some thread starts it -/
def code : Task → List Op
  | .root => [.rootExec]
  | .iter b x src => [.body x src, .release (.blk b)]
  | .feed x v => [.body x .fed, .release (.kid v)]
  | .chunk b lo xs => (xs.zipIdx.map (fun p => Op.body p.1 (.pos (lo + p.2)))) ++ [.release (.blk b)]
  | .subroot f1 f2 f3 => [.subExec f1 f2 f3]
  | .inv f c => [.act (.callS f), .act (.callE f), .release c]

/-- `feeder_impl::internal_add_*` for every item the body adds: the feeder_item_task constructor reserves the
per-thread vertex, then the task is spawned -/
def feedOps (tid : Nat) (ys : List Nat) : List Op :=
  ys.flatMap (fun y => [.reserve (.kid tid) 1, .spawn (.feed y tid)])

def srcOf (cat : Cat) (b k0 j : Nat) : Src :=
  match cat with
  | .input => .slot b j
  | _ => .pos (k0 + j)

/-- spawn the iteration tasks 1 … m-1 of a block (`my_wait_context.reserve(); spawn(task_pool[counter])`) -/
def blockSpawns (cat : Cat) (b k0 : Nat) : Nat → List Nat → List Op
  | _, [] => []
  | j, x :: xs => .reserve (.blk b) 1 :: .spawn (.iter b x (srcOf cat b k0 j)) :: blockSpawns cat b k0 (j + 1) xs

def destroys (b : Nat) : Nat → List Nat → List Op
  | _, [] => []
  | j, x :: xs => .act (.destroy b j x) :: destroys b (j + 1) xs

/-- `{input,forward}_block_handling_task::execute` + `finalize` (+ destructor) for the items of block `b` -/
def blockCode (cat : Cat) (b k0 : Nat) : List Nat → List Op
  | [] => [.release .root]          -- not reachable: a block has at least one item
  | x :: xs =>
    blockSpawns cat b k0 1 xs ++
    [.reserve (.blk b) 1, .body x (srcOf cat b k0 0), .release (.blk b), .await (.blk b), .release .root] ++
    (if cat = .input then destroys b 0 (x :: xs) else [])

/-- what follows the for-loop of `for_each_root_task::execute`: (forward iterators: `my_wait_context.reserve()` and the
construction of the block task happen only now;) `spawn(*this)`; `return block_handling_task` (task bypass: the same
thread continues with the block task) -/
def loopExit (cat : Cat) (b k0 : Nat) (items : List Nat) : List Op :=
  (if cat = .forward then [Op.reserve .root 1] else []) ++ .spawn .root :: blockCode cat b k0 items

/-- the nested `tbb::parallel_for` of the random-access root task, as the flat set of its leaf tasks -/
def pforOps (cfg : Cfg) (b : Nat) : List (Nat × Nat) → List Op
  | [] => []
  | (lo, hi) :: cs => .reserve (.blk b) 1 :: .spawn (.chunk b lo (cfg.inp.extract lo hi)) :: pforOps cfg b cs

/-- the calling thread of `parallel_for_each(first, last, body)` -/
def mainEach (cfg : Cfg) : List Op :=
  if cfg.inp = [] then [.act .done] else [.reserve .root 1, .rootExec, .await .root, .act .done]

/-- the calling thread of `parallel_invoke(f_i, …, f_{i+rem-1})`: `invoke_recursive_separation` -/
def mainInvoke : Nat → Nat → List Op
  | _, 0 => [.await .root, .act .done]                -- not reachable (static_assert: at least two functions)
  | i, 1 => [.reserve .root 1, .act (.callS i), .act (.callE i), .release .root, .await .root, .act .done]
  | i, 2 => [.reserve .root 2, .spawn (.inv i .root), .act (.callS (i + 1)), .act (.callE (i + 1)), .release .root,
             .await .root, .act .done]
  | i, 3 => [.reserve .root 3, .spawn (.inv i .root), .spawn (.inv (i + 1) .root), .act (.callS (i + 2)), .act (.callE (i + 2)),
             .release .root, .await .root, .act .done]
  | i, rem + 3 => .reserve .root 1 :: .spawn (.subroot i (i + 1) (i + 2)) :: mainInvoke (i + 3) rem

def initEach (cfg : Cfg) (threads : Nat) : St :=
  { kid := List.replicate threads 0, acts := [{ tid := 0, ops := mainEach cfg }] }

def initInvoke (n : Nat) : St :=
  { acts := [{ tid := 0, ops := mainInvoke 0 n }] }

inductive Choice where
  /-- activation `i` performs its next operation (no effect if it has none or is blocked in a wait) -/
  | step (i : Nat)
  /-- thread `tid` takes the pending task number `j` -/
  | start (j tid : Nat)
  deriving Repr, Inhabited

def setOps (s : St) (i : Nat) (a : Actv) (ops : List Op) : St :=
  { s with acts := s.acts.set i { a with ops := ops } }

/-- one operation of activation `i` (= `a`), whose remaining operations are `op :: rest` -/
def stepOp (cfg : Cfg) (s : St) (i : Nat) (a : Actv) (op : Op) (rest : List Op) : St :=
  match op with
  | .reserve c n => setOps (s.reserve c n) i a rest
  | .release c => setOps (s.release c) i a rest
  | .spawn t => setOps { s with pool := s.pool ++ [t], log := .spawn t :: s.log } i a rest
  | .await c => if s.val c = 0 then setOps { s with log := .pass c :: s.log } i a rest else s
  | .act x => setOps { s with log := x :: s.log } i a rest
  | .body x src =>
    setOps { s with log := .bodyS x src :: s.log } i a (feedOps a.tid (cfg.feeds x) ++ .act (.bodyE x src) :: rest)
  | .rootExec =>
    match cfg.cat with
    | .random =>
      let b := s.blk.length
      setOps { s with blk := s.blk ++ [0], log := .pfor b :: s.log } i a
        (pforOps cfg b cfg.chunks ++ .await (.blk b) :: .release .root :: rest)
    | .input =>
      if s.iter < cfg.inp.length then
        let b := s.blk.length
        setOps { s with blk := s.blk ++ [0], log := .cmp s.iter :: s.log } i a (.reserve .root 1 :: .rootLoop b s.iter [] :: rest)
      else setOps { s with log := .cmp s.iter :: s.log } i a (.release .root :: rest)
    | .forward =>
      if s.iter < cfg.inp.length then
        let b := s.blk.length
        setOps { s with blk := s.blk ++ [0], log := .cmp s.iter :: s.log } i a (.rootLoop b s.iter [] :: rest)
      else setOps { s with log := .cmp s.iter :: s.log } i a (.release .root :: rest)
  | .rootLoop b k0 items =>
    match cfg.inp[s.iter]? with
    | some x =>
      if items.length < cfg.maxBlock then
        let lg := if cfg.cat = .input then [Act.inc s.iter, .copy b items.length x, .deref s.iter] else [Act.inc s.iter]
        setOps { s with iter := s.iter + 1, log := lg ++ s.log } i a (.rootLoop b k0 (items ++ [x]) :: rest)
      else
        setOps { s with log := .block b k0 items.length :: s.log } i a (loopExit cfg.cat b k0 items ++ rest)
    | none => setOps { s with log := .block b k0 items.length :: s.log } i a (loopExit cfg.cat b k0 items ++ rest)
  | .subExec f1 f2 f3 =>
    let k := s.kid.length
    setOps { s with kid := s.kid ++ [Generated.C05Each.invokeSubrootRefs], log := .arm k :: s.log } i a
      (.spawn (.inv f3 (.kid k)) :: .spawn (.inv f2 (.kid k)) :: .act (.callS f1) :: .act (.callE f1) :: .release (.kid k) :: rest)

def exec (cfg : Cfg) (s : St) : Choice → St
  | .step i =>
    match s.acts[i]? with
    | some a =>
      match a.ops with
      | op :: rest => stepOp cfg s i a op rest
      | [] => s
    | none => s
  | .start j tid =>
    match s.pool[j]? with
    | some t => { s with pool := s.pool.eraseIdx j, acts := s.acts ++ [{ tid := tid, ops := code t }] }
    | none => s

def run (cfg : Cfg) (s : St) (sched : List Choice) : St := sched.foldl (exec cfg) s

/-! ### observers used by the theorems and the driver -/

def bodies (log : List Act) : List Nat :=
  log.filterMap (fun a => match a with | .bodyS x _ => some x | _ => none)

def bodyEnds (log : List Act) : List Nat :=
  log.filterMap (fun a => match a with | .bodyE x _ => some x | _ => none)

def calls (log : List Act) : List Nat :=
  log.filterMap (fun a => match a with | .callS f => some f | _ => none)

def callEnds (log : List Act) : List Nat :=
  log.filterMap (fun a => match a with | .callE f => some f | _ => none)

/-- the blocks formed so far, oldest first: (block id, first position, size) -/
def blocks (log : List Act) : List (Nat × Nat × Nat) :=
  log.reverse.filterMap (fun a => match a with | .block b k m => some (b, k, m) | _ => none)

/-- the iterator increments so far, oldest first -/
def incs (log : List Act) : List Nat :=
  log.reverse.filterMap (fun a => match a with | .inc k => some k | _ => none)

def derefs (log : List Act) : List Nat :=
  log.reverse.filterMap (fun a => match a with | .deref k => some k | _ => none)

/-- the call has returned to the caller -/
def returned (s : St) : Bool := s.log.contains .done

/-- nothing is pending and every activation has finished -/
def quiescent (s : St) : Bool := s.pool.isEmpty && s.acts.all (fun a => a.ops.isEmpty)

/-- a simple fair scheduler for examples and the driver: round-robin over the activations, starting every pending task
at once on thread `tid` -/
def fairRound (s : St) (tid : Nat) : List Choice :=
  (List.range s.pool.length).map (fun _ => Choice.start 0 tid) ++ (List.range (s.acts.length + s.pool.length)).map Choice.step

def runFair (cfg : Cfg) : Nat → St → St
  | 0, s => s
  | f + 1, s => if quiescent s then s else runFair cfg f (run cfg s (fairRound s 0))

/-- an explicit schedule for examples: `n` rounds of "thread 1 takes the oldest pending task, then activations 0 … k-1 each
perform one operation" -/
def roundRobin (n k : Nat) : List Choice :=
  (List.range n).flatMap (fun _ => Choice.start 0 1 :: (List.range k).map Choice.step)

end TbbVerif.C05.Each
