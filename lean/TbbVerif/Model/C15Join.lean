/-
C15 (extension b) — join_node AS CODED: `join_node_base::handle_operations` over a batch, on top of the three
front ends (`join_node_FE<queueing|reserving|key_matching>`), for any number of ports.

Code modelled (include/oneapi/tbb/detail/_flow_graph_join_impl.h):
* `join_node_base::handle_operations`: the op kinds `reg_succ` (register + create a forwarding task iff
  `tuple_build_may_succeed() && !forwarder_busy`, setting `forwarder_busy`), `rem_succ`, `try__get`
  (`try_to_make_tuple` + `tuple_accepted`), `do_fwrd_bypass` (the loop `do { try_to_make_tuple; my_successors.try_put_task;
  tuple_accepted / tuple_rejected } while (build_succeeded)`, then `forwarder_busy = false`), processed in list order
  (reversed arrival, `Batch.batchOf`);
* `broadcast_cache::try_put_task`: EVERY successor is offered the tuple; the tuple counts as accepted iff at least one took
  it; a refusing successor whose `register_predecessor` succeeds is erased (pull mode);
* the front ends through the interface `FE`: `tuple_build_may_succeed`, the tuple `try_to_make_tuple` would build, and the
  state after `try_to_make_tuple` followed by `tuple_accepted` / `tuple_rejected` (or after a failed build):
  - queueing: `ports_with_no_items`, `join_helper::get_items`, `reset_port_count(); reset_ports()` — `jqStep` of Model/C15.lean;
  - key_matching: the FE's output buffer of complete tuples, `destroy_front` on acceptance — `jkStep`;
  - reserving: `ports_with_no_inputs`, `join_helper::reserve` (ports N-1 … 0, releasing on the first failure; a port whose
    only predecessor fails drops it and counts as "no inputs" again), `consume_reservations` / `release_reservations` —
    `jrEvents` of Model/C15.lean plus the port bookkeeping (one scripted predecessor per port).
Port operations (a message arriving at a port, a predecessor registering) are the atomic steps of the existing port
machines; they run on the ports' own aggregators, between the batches of the base node.
-/
import TbbVerif.Model.C15Batch

namespace TbbVerif.C15.Join
open TbbVerif.C15 TbbVerif.C15.Batch

/-- what `join_node_base` uses of its front end -/
structure FE (σ : Type) where
  maySucceed : σ → Bool                  -- tuple_build_may_succeed()
  peek       : σ → Option (List Nat)     -- the tuple try_to_make_tuple would return (none = it returns false)
  attempt    : σ → Bool → σ              -- after try_to_make_tuple and tuple_accepted (true) / tuple_rejected (false)
  size       : σ → Nat                   -- a bound on the number of tuples that can still be built (loop fuel)
  spawnsOnAccept : σ → Bool              -- (on the state after tuple_accepted) did a port's decrement_port_count create a task?

/-- `broadcast_cache::try_put_task(t)`: (accepted by someone?, remaining successors, tick, offers) -/
def bcastTry (ω : Nat → Verdict) (t : List Nat) : List Nat → Nat → Bool × List Nat × Nat × List (Nat × List Nat × Verdict)
  | [], k => (false, [], k, [])
  | r :: rs, k =>
    let q := bcastTry ω t rs (k + 1)
    match ω k with
    | .accept => (true, r :: q.2.1, q.2.2.1, (r, t, .accept) :: q.2.2.2)
    | .reject => (q.1, r :: q.2.1, q.2.2.1, (r, t, .reject) :: q.2.2.2)
    | .rejectPull => (q.1, q.2.1, q.2.2.1, (r, t, .rejectPull) :: q.2.2.2)

structure JSt (σ : Type) where
  fe     : σ
  succs  : List Nat := []
  busy   : Bool := false                              -- forwarder_busy
  tick   : Nat := 0
  offers : List (Nat × List Nat × Verdict) := []      -- ghost
  got    : List (List Nat) := []                      -- ghost: tuples handed to try_get callers
  tasks  : Nat := 0                                   -- ghost: forwarding tasks created by reg_succ
  pending : Nat := 0                                  -- ghost: forwarding tasks created and not yet run (each runs one do_fwrd_bypass)

inductive JOp where
  | regSucc (r : Nat) | remSucc (r : Nat) | tryGet | doFwd
  deriving Repr, DecidableEq

inductive JRes where
  | succeeded | failed
  | tuple (t : List Nat)
  deriving Repr, DecidableEq

variable {σ : Type}

/-- the do-while of `do_fwrd_bypass` -/
def fwdLoop (F : FE σ) (ω : Nat → Verdict) : Nat → JSt σ → JSt σ
  | 0, s => s
  | fuel + 1, s =>
    match F.peek s.fe with
    | none => { s with fe := F.attempt s.fe false }
    | some t =>
      let r := bcastTry ω t s.succs s.tick
      let fe' := F.attempt s.fe r.1
      let s' : JSt σ := { s with fe := fe', succs := r.2.1, tick := r.2.2.1, offers := s.offers ++ r.2.2.2,
                                 pending := s.pending + (if r.1 && F.spawnsOnAccept fe' then 1 else 0) }
      if r.1 then fwdLoop F ω fuel s' else s'

def handleOne (F : FE σ) (ω : Nat → Verdict) (s : JSt σ) : JOp → JSt σ × JRes
  | .regSucc r =>
    let s1 := { s with succs := s.succs ++ [r] }
    if F.maySucceed s.fe && !s.busy then ({ s1 with busy := true, tasks := s.tasks + 1, pending := s.pending + 1 }, .succeeded)
    else (s1, .succeeded)
  | .remSucc r => ({ s with succs := s.succs.erase r }, .succeeded)
  | .tryGet =>
    if F.maySucceed s.fe then
      match F.peek s.fe with
      | some t =>
        let fe' := F.attempt s.fe true
        ({ s with fe := fe', got := s.got ++ [t], pending := s.pending + (if F.spawnsOnAccept fe' then 1 else 0) }, .tuple t)
      | none => ({ s with fe := F.attempt s.fe false }, .failed)
    else (s, .failed)
  | .doFwd =>
    let s1 := if F.maySucceed s.fe then fwdLoop F ω (F.size s.fe + 1) s else s
    ({ s1 with busy := false }, .succeeded)

def handleOps (F : FE σ) (ω : Nat → Verdict) : List JOp → JSt σ → JSt σ × List JRes
  | [], s => (s, [])
  | op :: ops, s =>
    let r := handleOne F ω s op
    let q := handleOps F ω ops r.1
    (q.1, r.2 :: q.2)

/-- a history: port events (on the ports' own aggregators) and batches of the base node (arrival order) -/
inductive Ev (π : Type) where
  | port (op : π)
  | batch (arrivals : List JOp)

def runHistory {π : Type} (F : FE σ) (portStep : σ → π → σ) (ω : Nat → Verdict) (s : JSt σ) : List (Ev π) → JSt σ
  | [] => s
  | .port op :: rest => runHistory F portStep ω { s with fe := portStep s.fe op } rest
  | .batch arr :: rest => runHistory F portStep ω (handleOps F ω arr.reverse s).1 rest

/-! ## the three front ends -/

def jqFE : FE JqSt :=
  { maySucceed := fun s => s.pwni == 0
    peek := fun s => if s.ub || s.pwni ≠ 0 then none else jqHeads s.ports
    attempt := fun s a => (jqStep s (.fwd a)).1
    size := fun s => (s.ports.map List.length).sum
    spawnsOnAccept := fun s => s.pwni == 0 }

def jkFE (kf : Nat → Nat) : FE JkSt :=
  { maySucceed := fun s => !s.outbuf.isEmpty
    peek := fun s => if s.ub then none else s.outbuf.head?
    attempt := fun s a => (jkStep kf s (.fwd a)).1
    size := fun s => s.outbuf.length
    spawnsOnAccept := fun _ => false }

/-- reserving front end with one scripted predecessor per port -/
structure JrFe where
  core  : JrSt
  avail : List (Option Nat)       -- what each port's predecessor currently offers
  regd  : List Bool               -- is the predecessor in the port's cache (pull edge)
  pwni  : Nat                     -- ports_with_no_inputs
  evs   : List JrEv := []         -- ghost: reserve / release / consume events of the last attempt
  log   : List JrEv := []         -- ghost: all port events so far
  deriving Repr, DecidableEq

def jrInit (n : Nat) : JrFe :=
  { core := { n := n, resv := List.replicate n false }, avail := List.replicate n none,
    regd := List.replicate n false, pwni := n }

/-- the port whose reservation fails first (`join_helper<k>::reserve` starts at port k-1) -/
def jrFailPort (avail : List (Option Nat)) : Nat → Option Nat
  | 0 => none
  | k + 1 => if (avail.getD k none).isNone then some k else jrFailPort avail k

def jrAttempt (s : JrFe) (a : Bool) : JrFe :=
  if s.pwni ≠ 0 then { s with evs := [] } else
  match jrFailPort s.avail s.core.n with
  | some k =>
    -- `try_reserve` of port k fails: its predecessor leaves the cache, the port counts as "no inputs";
    -- the ports reserved so far are released
    let r := jrStep s.core (s.avail, false)
    { s with core := r.1, regd := s.regd.set k false, pwni := s.pwni + 1,
             evs := match r.2 with | .none es => es | .tuple _ _ es => es,
             log := s.log ++ (match r.2 with | .none es => es | .tuple _ _ es => es) }
  | none =>
    let r := jrStep s.core (s.avail, a)
    { s with core := r.1, avail := if a then s.avail.map (fun _ => none) else s.avail,
             evs := match r.2 with | .none es => es | .tuple _ _ es => es,
             log := s.log ++ (match r.2 with | .none es => es | .tuple _ _ es => es) }

def jrFE : FE JrFe :=
  { maySucceed := fun s => s.pwni == 0
    peek := fun s => if s.pwni ≠ 0 then none else
      match jrFailPort s.avail s.core.n with
      | some _ => none
      | none => some (s.avail.map (·.getD 0))
    attempt := jrAttempt
    size := fun s => s.core.n
    spawnsOnAccept := fun _ => false }

/-- port events of the reserving join: a predecessor gets an item (and registers with the port if it is not in its cache) -/
def jrOffer (s : JrFe) (pv : Nat × Nat) : JrFe :=
  if pv.1 < s.core.n ∧ (s.avail.getD pv.1 none).isNone then
    let s1 := { s with avail := s.avail.set pv.1 (some pv.2) }
    if s.regd.getD pv.1 false then s1 else { s1 with regd := s1.regd.set pv.1 true, pwni := s1.pwni - 1 }
  else s

end TbbVerif.C15.Join
