/-
C08 — `Mcs`: tbb::queuing_mutex (include/oneapi/tbb/queuing_mutex.h) at atomic-access granularity.
Executable, core Lean only.

One step of a thread = one atomic access of `scoped_lock::acquire / try_acquire / release`:
  acquire     : m_next.store(null) ; m_going.store(0) ; pred = q_tail.exchange(this) ;
                [pred ≠ null:  pred->m_next.store(this) ; spin: m_going.load() until ≠ 0]
  try_acquire : m_next.store(null) ; m_going.store(0) ; q_tail.CAS(null → this)
  release     : m_next.load() ; [null: q_tail.CAS(this → null) ; on failure spin: m_next.load() until ≠ null] ;
                m_next.load(acquire) ; succ->m_going.store(1)
Every thread owns one queue node (its scoped_lock object), re-used by all of its operations.  Pointers are node
ids: 0 = null, t+1 = the node of thread t.  The per-thread state is a function `Tid → Th` (any number of threads).

Ghost state (never read by the protocol): `queue` — appended at the q_tail exchange / successful CAS, popped only at
the hand-off (release's successful CAS or its store to the successor's m_going); `served`, `enqLog`, `grantLog`.
-/
import TbbVerif.Core.Sched
import TbbVerif.Core.Proto

namespace TbbVerif.C08.Mcs

inductive Op where
  | acquire | tryAcquire | release
  deriving Repr, DecidableEq

inductive Pc where
  | start
  | aGoing     -- acquire: m_next stored, about to store m_going
  | aXchg      -- acquire: about to exchange q_tail
  | aLink      -- acquire: pred ≠ null, about to store pred->m_next
  | aSpin      -- acquire: spinning on own m_going
  | tGoing     -- try_acquire: about to store m_going
  | tCas       -- try_acquire: about to CAS q_tail
  | rCas       -- release: saw m_next = null, about to CAS q_tail back to null
  | rSpin      -- release: CAS failed, waiting for the late successor link
  | rLoad      -- release: m_next.load(acquire)
  | rGrant     -- release: about to store successor's m_going
  deriving Repr, DecidableEq

structure Th where
  ops     : List Op := []
  pc      : Pc := .start
  next    : Nat := 0          -- this thread's node: m_next
  going   : Nat := 0          -- this thread's node: m_going
  pred    : Nat := 0          -- local `pred`
  succ    : Nat := 0          -- local: the value of m_next.load(acquire) in release
  holds   : Bool := false     -- ghost: from obtaining the lock until the hand-off step of release
  results : List Nat := []    -- results of completed try_acquire calls, newest first
  misuse  : Bool := false
  deriving Repr, DecidableEq

structure St where
  tail     : Nat := 0
  th       : Tid → Th := fun _ => {}
  bad      : Bool := false        -- ghost: release dereferenced a null successor (must never be set)
  queue    : List Tid := []       -- ghost
  served   : List Tid := []       -- ghost: threads popped from `queue`, oldest first
  enqLog   : List Tid := []       -- ghost: order of successful q_tail exchanges / CASes
  grantLog : List Tid := []       -- ghost: order in which threads obtained the lock

/-- An access as it appears in the E-SHIM trace. store: a = value written, b = value overwritten;
xchg: a = old, b = new; cas: a = expected, b = desired (success) / observed (failure); load: a = value. -/
structure Ev where
  kind : String
  var  : String
  a : Nat
  b : Nat
  ok : Bool
  deriving Repr, DecidableEq

def upd (f : Tid → Th) (t : Tid) (x : Th) : Tid → Th := fun i => if i = t then x else f i

def Th.done (x : Th) (res : Option Nat := none) : Th :=
  { x with ops := x.ops.tail, pc := .start,
           results := match res with | some v => v :: x.results | none => x.results }

/-- One atomic access of thread `t`. -/
def stepEv (st : St) (t : Tid) : St × Option Ev :=
  let me := st.th t
  match me.ops with
  | [] => (st, none)
  | op :: _ =>
  match op, me.pc with
  -- acquire -------------------------------------------------------------------------------------
  | .acquire, .start =>
      if me.holds then ({ st with th := upd st.th t { me with ops := me.ops.tail, misuse := true } }, none)
      else ({ st with th := upd st.th t { me with next := 0, pc := .aGoing } }, some ⟨"store", s!"next{t}", 0, me.next, true⟩)
  | .acquire, .aGoing =>
      ({ st with th := upd st.th t { me with going := 0, pc := .aXchg } }, some ⟨"store", s!"going{t}", 0, me.going, true⟩)
  | .acquire, .aXchg =>
      let old := st.tail
      let ev : Ev := ⟨"xchg", "tail", old, t + 1, true⟩
      if old = 0 then
        ({ st with tail := t + 1, queue := st.queue ++ [t], enqLog := st.enqLog ++ [t], grantLog := st.grantLog ++ [t],
                   th := upd st.th t { (me.done) with pred := old, holds := true } }, some ev)
      else
        ({ st with tail := t + 1, queue := st.queue ++ [t], enqLog := st.enqLog ++ [t],
                   th := upd st.th t { me with pred := old, pc := .aLink } }, some ev)
  | .acquire, .aLink =>
      let p := me.pred - 1
      let pn := st.th p
      let th1 := upd st.th p { pn with next := t + 1 }
      ({ st with th := upd th1 t { (th1 t) with pc := .aSpin } }, some ⟨"store", s!"next{p}", t + 1, pn.next, true⟩)
  | .acquire, .aSpin =>
      if me.going ≠ 0 then
        ({ st with grantLog := st.grantLog ++ [t], th := upd st.th t { (me.done) with holds := true } },
         some ⟨"load", s!"going{t}", me.going, 0, true⟩)
      else (st, some ⟨"load", s!"going{t}", 0, 0, true⟩)
  -- try_acquire ---------------------------------------------------------------------------------
  | .tryAcquire, .start =>
      if me.holds then ({ st with th := upd st.th t { me with ops := me.ops.tail, misuse := true } }, none)
      else ({ st with th := upd st.th t { me with next := 0, pc := .tGoing } }, some ⟨"store", s!"next{t}", 0, me.next, true⟩)
  | .tryAcquire, .tGoing =>
      ({ st with th := upd st.th t { me with going := 0, pc := .tCas } }, some ⟨"store", s!"going{t}", 0, me.going, true⟩)
  | .tryAcquire, .tCas =>
      if st.tail = 0 then
        ({ st with tail := t + 1, queue := st.queue ++ [t], enqLog := st.enqLog ++ [t], grantLog := st.grantLog ++ [t],
                   th := upd st.th t { (me.done (some 1)) with holds := true } }, some ⟨"cas", "tail", 0, t + 1, true⟩)
      else ({ st with th := upd st.th t (me.done (some 0)) }, some ⟨"cas", "tail", 0, st.tail, false⟩)
  -- release -------------------------------------------------------------------------------------
  | .release, .start =>
      if !me.holds then ({ st with th := upd st.th t { me with ops := me.ops.tail, misuse := true } }, none)
      else ({ st with th := upd st.th t { me with pc := if me.next ≠ 0 then .rLoad else .rCas } },
            some ⟨"load", s!"next{t}", me.next, 0, true⟩)
  | .release, .rCas =>
      if st.tail = t + 1 then
        ({ st with tail := 0, queue := st.queue.tail, served := st.served ++ [t],
                   th := upd st.th t { (me.done) with holds := false } }, some ⟨"cas", "tail", t + 1, 0, true⟩)
      else ({ st with th := upd st.th t { me with pc := .rSpin } }, some ⟨"cas", "tail", t + 1, st.tail, false⟩)
  | .release, .rSpin =>
      ({ st with th := upd st.th t { me with pc := if me.next ≠ 0 then .rLoad else .rSpin } },
       some ⟨"load", s!"next{t}", me.next, 0, true⟩)
  | .release, .rLoad =>
      ({ st with th := upd st.th t { me with succ := me.next, pc := .rGrant } }, some ⟨"load", s!"next{t}", me.next, 0, true⟩)
  | .release, .rGrant =>
      let s := me.succ - 1
      let sn := st.th s
      let th1 := upd st.th s { sn with going := 1 }
      ({ st with bad := st.bad || (me.succ == 0), queue := st.queue.tail, served := st.served ++ [t],
                 th := upd th1 t { ((th1 t).done) with holds := false } }, some ⟨"store", s!"going{s}", 1, sn.going, true⟩)
  | _, _ => (st, none)

def step (st : St) (t : Tid) : St := (stepEv st t).1

def initTh (progs : List (List Op)) : Tid → Th := fun i => { ops := progs.getD i [] }

def sys (progs : List (List Op)) : Sys St :=
  { init := { th := initTh progs }, step := step }

/-! ## line-protocol driver (trace replay) -/

open Proto

def parseOp : String → Option Op
  | "acquire" => some .acquire | "try_acquire" => some .tryAcquire | "release" => some .release
  | _ => none

structure DSt where
  st : St := {}
  n  : Nat := 0

def showEv : Option Ev → String
  | none => "-"
  | some e => s!"{e.kind} {e.var} {e.a} {e.b} {showBool e.ok}"

/-- `prog <op>*` appends a thread; `s <tid>`: the thread performs its next atomic access, prints
`<kind> <var> <a> <b> <ok> | <ops left> <results newest-first…>`; `state` prints
`<tail> <bad> | <queue…> | <enqLog…> | <grantLog…>`. -/
def drive (d : DSt) (ws : List String) : DSt × String :=
  match ws with
  | "prog" :: ops =>
      match ops.mapM parseOp with
      | some os => ({ st := { d.st with th := upd d.st.th d.n { ops := os } }, n := d.n + 1 }, "ok")
      | none => (d, "bad-op")
  | ["s", t] =>
      match nat? t with
      | some t =>
        if t < d.n then
          let (st', ev) := stepEv d.st t
          let th := st'.th t
          ({ d with st := st' }, s!"{showEv ev} | {th.ops.length} {showNats th.results}")
        else (d, "bad-tid")
      | none => (d, "bad-op")
  | ["state"] =>
      (d, s!"{d.st.tail} {showBool d.st.bad} | {showNats d.st.queue} | {showNats d.st.enqLog} | {showNats d.st.grantLog}")
  | ["reset"] => ({}, "ok")
  | _ => (d, "bad-op")

def driver : Proto.Driver := { σ := DSt, init := {}, step := drive }

end TbbVerif.C08.Mcs

/-!
## `QRwSpec` — SPECIFICATION-level machine for tbb::queuing_rw_mutex

Not a model of the node protocol of src/tbb/queuing_rw_mutex.cpp (my_prev/my_next/my_state/my_going/internal
locks): it is the abstract lock the implementation's observable holder-bookkeeping events are validated against.
Events (what the E-SHIM harness logs):
  enq t m       the blocking request of thread t (mode m) entered the queue (its q_tail exchange, from the trace)
  grant t m     acquire(m) returned
  tryOk t m / tryFail t     try_acquire(m) returned true / false
  rel t         t is about to call release()                       (ghost-held intervals lie inside real ones)
  upgBegin t    t (a reader) is about to call upgrade_to_writer()  (from now on it is not a holder)
  upgEnd t r    upgrade_to_writer() returned r; t is now the writer
  downgrade t   t (the writer) is about to call downgrade_to_reader(); from now on it is a reader
`dirty` of an upgrading thread = some writer entered since its upgBegin; upgEnd t true needs ¬dirty.
-/
namespace TbbVerif.C08.QRw

inductive Mode where
  | R | W
  deriving Repr, DecidableEq

inductive Ev where
  | enq (t : Tid) (m : Mode)
  | grant (t : Tid) (m : Mode)
  | tryOk (t : Tid) (m : Mode)
  | tryFail (t : Tid)
  | rel (t : Tid)
  | upgBegin (t : Tid)
  | upgEnd (t : Tid) (res : Bool)
  | downgrade (t : Tid)
  deriving Repr, DecidableEq

structure St where
  queue   : List (Tid × Mode) := []     -- pending blocking requests, in queue-entry order
  holders : List (Tid × Mode) := []
  upg     : List (Tid × Bool) := []     -- threads inside upgrade_to_writer, with their dirty flag
  deriving Repr, DecidableEq

def conflict : Mode → Mode → Bool
  | .R, .R => false
  | _, _ => true

/-- may a request of mode `m` enter next to the current holders? -/
def compat (holders : List (Tid × Mode)) (m : Mode) : Bool :=
  match m with
  | .W => holders.isEmpty
  | .R => holders.all (fun h => h.2 == .R)

def active (s : St) (t : Tid) : Bool :=
  s.queue.any (·.1 == t) || s.holders.any (·.1 == t) || s.upg.any (·.1 == t)

/-- the requests queued before the first request of `t` -/
def before (t : Tid) : List (Tid × Mode) → List (Tid × Mode)
  | [] => []
  | e :: r => if e.1 == t then [] else e :: before t r

def dirtyAll (u : List (Tid × Bool)) : List (Tid × Bool) := u.map (fun e => (e.1, true))

def enter (s : St) (t : Tid) (m : Mode) : St :=
  { s with holders := s.holders ++ [(t, m)], upg := if m == .W then dirtyAll s.upg else s.upg }

/-- One observable event; `none` = the event is not allowed by the specification in this state. -/
def step (s : St) : Ev → Option St
  | .enq t m => if active s t then none else some { s with queue := s.queue ++ [(t, m)] }
  | .grant t m =>
      if s.queue.contains (t, m) && !(before t s.queue).any (fun e => conflict e.2 m) && compat s.holders m then
        some (enter { s with queue := s.queue.erase (t, m) } t m)
      else none
  | .tryOk t m =>
      if !active s t && !s.queue.any (fun e => conflict e.2 m) && compat s.holders m then some (enter s t m) else none
  | .tryFail t => if active s t then none else some s
  | .rel t => if s.holders.any (·.1 == t) then some { s with holders := s.holders.filter (·.1 != t) } else none
  | .upgBegin t =>
      if s.holders.contains (t, .R) then
        some { s with holders := s.holders.filter (·.1 != t), upg := s.upg ++ [(t, false)] }
      else none
  | .upgEnd t res =>
      if s.upg.any (·.1 == t) && s.holders.isEmpty && (!res || s.upg.contains (t, false)) then
        some { s with holders := [(t, .W)], upg := dirtyAll (s.upg.filter (·.1 != t)) }
      else none
  | .downgrade t => if s.holders == [(t, .W)] then some { s with holders := [(t, .R)] } else none

def run (s : St) : List Ev → Option St
  | [] => some s
  | e :: es => match step s e with | some s' => run s' es | none => none

def nW (s : St) : Nat := s.holders.countP (fun h => h.2 == .W)
def nR (s : St) : Nat := s.holders.countP (fun h => h.2 == .R)

/-! ### validator driver -/
open Proto

def parseMode : String → Option Mode
  | "R" => some .R | "W" => some .W | _ => none

def parseEv : List String → Option Ev
  | ["enq", t, m] => do some (.enq (← nat? t) (← parseMode m))
  | ["grant", t, m] => do some (.grant (← nat? t) (← parseMode m))
  | ["tryOk", t, m] => do some (.tryOk (← nat? t) (← parseMode m))
  | ["tryFail", t] => do some (.tryFail (← nat? t))
  | ["rel", t] => do some (.rel (← nat? t))
  | ["upgBegin", t] => do some (.upgBegin (← nat? t))
  | ["upgEnd", t, r] => do some (.upgEnd (← nat? t) ((← nat? r) != 0))
  | ["downgrade", t] => do some (.downgrade (← nat? t))
  | _ => none

def showMode : Mode → String
  | .R => "R" | .W => "W"

/-- `ev <event…>` → `ok <nW> <nR> <queue length>` or `REJECT` (state unchanged); `state`; `reset`. -/
def drive (s : St) (ws : List String) : St × String :=
  match ws with
  | "ev" :: rest =>
      match parseEv rest with
      | none => (s, "bad-op")
      | some e =>
        match step s e with
        | some s' => (s', s!"ok {nW s'} {nR s'} {s'.queue.length}")
        | none => (s, "REJECT")
  | ["state"] =>
      (s, " ".intercalate (s.holders.map (fun h => s!"{h.1}{showMode h.2}")) ++ " | " ++
          " ".intercalate (s.queue.map (fun h => s!"{h.1}{showMode h.2}")) ++ " | " ++
          " ".intercalate (s.upg.map (fun h => s!"{h.1}:{showBool h.2}")))
  | ["reset"] => ({}, "ok")
  | _ => (s, "bad-op")

def driver : Proto.Driver := { σ := St, init := {}, step := drive }

end TbbVerif.C08.QRw
