/-
C02 — task_arena::execute waiting for a slot (src/tbb/arena.cpp: `task_arena_impl::execute`, `delegated_task`,
`nested_arena_context`, `arena::occupy_free_slot`; src/tbb/arena_slot.h: `try_occupy` / `release`).

N application threads call `task_arena::execute(d)` on one arena whose `S` slots an external thread may occupy.
State = the code's own words: `my_slots[k].my_is_occupied` (k < S) and the arena's `my_exit_monitors`, which is a complete
`C02.St` of the Monitor model (Model/C02.lean):  thread `t` owns sleeper `t` (its `thread_context waiter((uintptr_t)&d)`,
context `t + 1`) and notifier `t` (its `my_exit_monitors.notify_one()` calls: after releasing a slot in
`~nested_arena_context`, and the "baton" after the wait loop when it did not enter); notifier `N + t` is
`delegated_task::finalize()` of thread `t`'s delegated task — `m_wait_ctx.release()` (= condition `t` of the monitor
becomes true: `wo.continue_execution()` is its negation) followed by `m_monitor.notify(ctx == &m_delegate)` — run by
whichever thread executes the task (an environment thread `N + t` of the model, enabled once the task is enqueued).

One model step = one atomic access of the code.  `occupy_free_slot` is modelled per slot: one step = one
`try_occupy()` (`!is_occupied() && my_is_occupied.exchange(true) == false`, linearised at the access that decides it);
the ORDER in which a scan visits the slots (start index = last index / random, reserved range first) is left open: the
step's `choice` picks any slot not yet tried in this scan, so every scan order of the code is a schedule of the model.
While a thread is inside `prepare_wait` / `commit_wait` / `cancel_wait` / `notify_one` / `notify(pred)` its steps ARE the
Monitor model's steps; the second `occupy_free_slot` of the loop runs between the predicate load of the Monitor
(`wo.continue_execution()`, the Monitor's `check`) and `commit_wait` (the Monitor's `commit`).
-/
import TbbVerif.Model.C02

namespace TbbVerif.C02.EX

/-- program counters of an `execute` call = its next atomic access (queue of calls: `ops`) -/
inductive Pc where
  | scan1     -- index1 = a->occupy_free_slot(*td): next try_occupy
  | enq       -- a->enqueue_task(dt, ...)  [the delegated task becomes runnable; wo(1)]
  | wait      -- prepare_wait … [continue_execution?] … [occupy_free_slot] … commit_wait / cancel_wait
  | loopChk   -- } while (wo.continue_execution());
  | inner     -- nested_arena_context scope(index2); r1::wait(wo, exec_context): until wo is released
  | release   -- ~nested_arena_context: td.my_arena_slot->release()   [after d() / after r1::wait]
  | notify    -- my_exit_monitors.notify_one()   (after the release, or the baton after the loop)
  | dtor      -- ~delegated_task: spin_wait_until_eq(m_completed, true); ~thread_context: pump a skipped wake-up
  deriving Repr, DecidableEq

structure Thr where
  ops    : Nat := 0          -- remaining execute() calls
  pc     : Pc := .scan1
  todo   : List Nat := []    -- slots not yet tried by the occupy_free_slot in progress
  idx    : Nat := 0          -- the slot occupied / just released
  got    : Bool := false     -- index2 != out_of_arena
  rel    : Bool := false     -- the notify_one in progress follows this thread's slot release (else: the baton)
  waited : Bool := false     -- the delegated path was taken (thread_context + delegated_task exist)
  rechk  : Bool := false     -- commit_wait returned false: `while (wo.continue_execution())` is evaluated next
  done   : Nat := 0          -- calls completed
  deriving Repr, DecidableEq

structure St where
  slots : List Bool := []    -- my_slots[k].my_is_occupied
  mon   : C02.St := {}       -- my_exit_monitors
  thr   : List Thr := []
  absorbed : Bool := false   -- ghost: some notify_one dequeued a waiter that had already occupied a slot in its wait loop
  deriving Repr, DecidableEq

def St.setT (s : St) (i : Nat) (th : Thr) : St := { s with thr := s.thr.set i th }
def St.nT (s : St) : Nat := s.thr.length
def St.nSlots (s : St) : Nat := s.slots.length

/-- the call returns; the next one starts -/
def Thr.ret (th : Thr) (S : Nat) : Thr :=
  { th with ops := th.ops - 1, pc := .scan1, todo := List.range S, got := false, rel := false, waited := false, rechk := false,
            done := th.done + 1 }

/-- the waiter's `wait` call is over (the Monitor sleeper returned, or only its node destructor is left) -/
def slpOver (m : C02.St) (i : Nat) : Bool :=
  match m.slp[i]? with | some sl => sl.ops.isEmpty || sl.pc == .dtor | none => true

def slpIdle (m : C02.St) (i : Nat) : Bool :=
  match m.slp[i]? with | some sl => sl.ops.isEmpty | none => true

def slpResult (m : C02.St) (i : Nat) : Nat :=
  match m.slp[i]? with | some sl => sl.results.headD 0 | none => 0

def ntfDone (m : C02.St) (j : Nat) : Bool :=
  match m.ntf[j]? with | some n => n.ops.isEmpty | none => true

/-- sleeper `i` (idle) starts `prepare_wait(waiter)`: one-call program `[wait(ctx = i + 1, cond = i)]` -/
def startWait (m : C02.St) (i : Nat) : C02.St :=
  match m.slp[i]? with
  | some sl => if sl.ops.isEmpty then m.setS i { sl with ops := [⟨i + 1, i⟩] } else m
  | none => m

/-- the wait loop is left after a `commit_wait` that returned false (its `cancel_wait` is complete, the next
`prepare_wait` has not started): the waiter's node is done with — a skipped wake-up is pumped by `~thread_context` -/
def forcedExit (m : C02.St) (i : Nat) : C02.St :=
  match m.slp[i]? with
  | some sl =>
      if sl.pc = .pump then m.setS i { sl with pc := .dtor, results := 0 :: sl.results }
      else if sl.pc = .storeIn then m.setS i { sl with results := 0 :: sl.results }.fresh
      else m
  | none => m

/-- notifier `j` (idle) now owes the call `op` -/
def install (m : C02.St) (j : Nat) (op : NOp) : C02.St :=
  match m.ntf[j]? with
  | some n => if n.ops.isEmpty then m.setN j (mkNotifier [op]) else m
  | none => m

/-- one `try_occupy()` of slot `k`: (new slots, success) -/
def tas (slots : List Bool) (k : Nat) : List Bool × Bool :=
  if slots.getD k true then (slots, false) else (slots.set k true, true)

/-- notifier `i`'s next access is the dequeue of `notify_one`, and the front waiter has already occupied a slot (it is on
its way through `cancel_wait`) -/
def dequeuesHolder (s : St) (i : Nat) : Bool :=
  match s.mon.ntf[i]? with
  | some n =>
      n.pc == .scan && !n.ops.isEmpty &&
        (match s.mon.waitset.head? with
         | some x => (match s.thr[x]? with | some tx => tx.got | none => false)
         | none => false)
  | none => false

def pickSlot (todo : List Nat) (choice : Nat) : Nat := todo.getD (choice % todo.length) 0

/-- One atomic access of thread `i`; `choice` selects the slot tried by a `try_occupy` step. -/
def stepT (s : St) (i : Nat) (th : Thr) (choice : Nat) : St :=
  if th.ops = 0 then s else
  let S := s.slots.length
  let N := s.thr.length
  match th.pc with
  | .scan1 =>
      if th.todo.isEmpty then s.setT i { th with pc := .enq, todo := List.range S } else
      let k := pickSlot th.todo choice
      let r := tas s.slots k
      if r.2 then { s with slots := r.1 }.setT i { th with idx := k, pc := .release, todo := List.range S }
      else if (th.todo.erase k).isEmpty then s.setT i { th with pc := .enq, todo := List.range S }
      else s.setT i { th with todo := th.todo.erase k }
  | .enq =>
      let m1 := install (s.mon.setCond i false) (N + i) (.sig (some i) (.ctx (i + 1)) false)
      { s with mon := startWait m1 i }.setT i { th with pc := .wait, waited := true, got := false, todo := List.range S }
  | .wait =>
      match s.mon.slp[i]? with
      | none => s
      | some sl =>
        if th.rechk then
          -- } while (wo.continue_execution());   after a commit_wait that returned false
          if s.mon.cond i then
            { s with mon := install (forcedExit s.mon i) i (.sig none .one false) }.setT i
              { th with pc := .notify, rel := false, rechk := false }
          else s.setT i { th with rechk := false }
        else
        if sl.pc = .commit ∧ ¬ th.todo.isEmpty then
          -- index2 = a->occupy_free_slot(*td), one try_occupy
          let k := pickSlot th.todo choice
          let r := tas s.slots k
          if r.2 then
            { s with slots := r.1, mon := s.mon.setS i { sl with again := false, pc := .cLoad } }.setT i
              { th with idx := k, got := true, todo := th.todo.erase k }
          else s.setT i { th with todo := th.todo.erase k }
        else
          let m := C02.step s.mon i
          if slpOver m i then
            if th.got then { s with mon := m }.setT i { th with pc := .inner }
            else if slpIdle m i ∧ slpResult m i = 1 then { s with mon := m }.setT i { th with pc := .loopChk }
            else { s with mon := install m i (.sig none .one false) }.setT i { th with pc := .notify, rel := false }
          else
            match m.slp[i]? with
            | some sl' =>
                if sl'.pc = .pump ∨ sl'.pc = .storeIn then
                  -- a new round: after `node.init()` (first round) or after cancel_wait (commit_wait returned false)
                  { s with mon := m }.setT i { th with todo := List.range S, rechk := (sl.pc == SPc.cLoad || sl.pc == SPc.cUnlock) }
                else { s with mon := m }
            | none => { s with mon := m }
  | .loopChk =>
      if s.mon.cond i then { s with mon := install s.mon i (.sig none .one false) }.setT i { th with pc := .notify, rel := false }
      else { s with mon := C02.step (startWait s.mon i) i }.setT i { th with pc := .wait, got := false, todo := List.range S }   -- the node is
                                                                            -- initialised already: prepare_wait starts at reset()
  | .inner => if s.mon.cond i then s.setT i { th with pc := .release } else s
  | .release =>
      { s with slots := s.slots.set th.idx false, mon := install s.mon i (.sig none .one false) }.setT i { th with pc := .notify, rel := true }
  | .notify =>
      let m := C02.step s.mon (s.mon.slp.length + i)
      let ab := s.absorbed || dequeuesHolder s i
      if ntfDone m i then
        if th.waited then { s with mon := m, absorbed := ab }.setT i { th with pc := .dtor }
        else { s with mon := m, absorbed := ab }.setT i (th.ret S)
      else { s with mon := m, absorbed := ab }
  | .dtor =>
      if ¬ ntfDone s.mon (N + i) then s            -- ~delegated_task: m_completed not yet stored
      else if slpIdle s.mon i = false then { s with mon := C02.step s.mon i }     -- ~thread_context: the skipped wake-up's P
      else s.setT i (th.ret S)

/-- one access of `delegated_task::finalize()` for thread `i`'s task (environment thread `N + i`) -/
def stepF (s : St) (i : Nat) : St :=
  let j := s.thr.length + i
  match s.mon.ntf[j]? with
  | some n => if n.ops.isEmpty then s else { s with mon := C02.step s.mon (s.mon.slp.length + j) }
  | none => s

/-- thread ids: `t < N` the application threads, `N ≤ t < 2N` the executors of the delegated tasks; a step's id is
`t + 2N * choice` -/
def step (s : St) (tid : Tid) : St :=
  let N := s.thr.length
  if N = 0 then s else
  let t := tid % (2 * N)
  let c := tid / (2 * N)
  if t < N then
    match s.thr[t]? with | some th => stepT s t th c | none => s
  else stepF s (t - N)

def mkThr (S : Nat) (n : Nat) : Thr := { ops := n, todo := List.range S }

def init (S : Nat) (calls : List Nat) : St :=
  { slots := List.replicate S false,
    mon := C02.init (List.replicate calls.length []) (List.replicate (2 * calls.length) []),
    thr := calls.map (mkThr S) }

/-- `S` = number of slots an external thread may occupy, `calls` = number of execute() calls per thread -/
def sys (S : Nat) (calls : List Nat) : Sys St := { init := init S calls, step := step }

/-! ### the access a step performs, for trace replay -/

def evTas (s : St) (th : Thr) (choice : Nat) : String :=
  let k := pickSlot th.todo choice
  s!"tas slot{k} {if s.slots.getD k true then 1 else 0}"

def evT (s : St) (i : Nat) (th : Thr) (choice : Nat) : String :=
  if th.ops = 0 then "-" else
  match th.pc with
  | .scan1 => if th.todo.isEmpty then "nop" else evTas s th choice
  | .enq => "enq"
  | .wait =>
      match s.mon.slp[i]? with
      | none => "-"
      | some sl =>
        if th.rechk then s!"load wo{i} acq {if s.mon.cond i then 0 else 1}"
        else if sl.pc = .commit ∧ ¬ th.todo.isEmpty then evTas s th choice
        else if sl.pc = .check then s!"load wo{i} acq {if s.mon.cond i then 0 else 1}"
        else C02.ev s.mon i
  | .loopChk => s!"load wo{i} acq {if s.mon.cond i then 0 else 1}"
  | .inner => if s.mon.cond i then s!"load wo{i} acq 0" else "-"
  | .release => s!"store slot{th.idx} rel 0"
  | .notify => C02.ev s.mon (s.mon.slp.length + i)
  | .dtor =>
      if ¬ ntfDone s.mon (s.thr.length + i) then "-"
      else if slpIdle s.mon i = false then C02.ev s.mon i
      else "ret"

def evF (s : St) (i : Nat) : String :=
  let j := s.thr.length + i
  match s.mon.ntf[j]? with
  | some n =>
      if n.ops.isEmpty then "-" else
      if n.pc = .set then s!"fadd wo{i} sc 1 0" else C02.ev s.mon (s.mon.slp.length + j)
  | none => "-"

def ev (s : St) (tid : Tid) : String :=
  let N := s.thr.length
  if N = 0 then "-" else
  let t := tid % (2 * N)
  let c := tid / (2 * N)
  if t < N then
    match s.thr[t]? with | some th => evT s t th c | none => "-"
  else evF s (t - N)

/-! ### line-protocol driver: `init <S> <calls>*` / `s <tid> [<slot>]` / `state` / `left` -/

open Proto

/-- the choice value that makes thread `t` try slot `k` next (0 if `k` is not in its todo list) -/
def choiceFor (s : St) (t : Nat) (k : Nat) : Nat :=
  match s.thr[t]? with
  | some th => th.todo.idxOf k
  | none => 0

def drive (st : St) (ws : List String) : St × String :=
  match ws with
  | "init" :: S :: calls =>
      match nat? S, calls.mapM nat? with
      | some S, some cs => (init S cs, "ok")
      | _, _ => (st, "bad-op")
  | ["s", t] =>
      match nat? t with
      | some t => if t < 2 * st.thr.length then (step st t, ev st t) else (st, "bad-tid")
      | none => (st, "bad-op")
  | ["s", t, k] =>
      match nat? t, nat? k with
      | some t, some k =>
          if t < st.thr.length then
            let tid := t + 2 * st.thr.length * choiceFor st t k
            (step st tid, ev st tid)
          else (st, "bad-tid")
      | _, _ => (st, "bad-op")
  | ["todo", t] =>
      match nat? t with
      | some t => (st, match st.thr[t]? with | some th => showNats th.todo | none => "-")
      | none => (st, "bad-op")
  | ["state"] =>
      (st, " ".intercalate (st.slots.map showBool) ++ s!" | {st.mon.epoch} {st.mon.count} {showBool st.absorbed} | " ++
           " ".intercalate (st.thr.map (fun th => toString th.done)))
  | ["left"] => (st, toString ((st.thr.filter (fun th => th.ops != 0)).length))
  | _ => (st, "bad-op")

def driver : Proto.Driver := { σ := St, init := {}, step := drive }

end TbbVerif.C02.EX
