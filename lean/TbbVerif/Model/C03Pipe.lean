/-
C03 — `parallel_pipeline` under exceptions / cancellation: who owns a token object, and who destroys it.
Executable model (core Lean only; linked into drv_c03).

Code (src/tbb/parallel_pipeline.cpp `stage_task`, `input_buffer`, `pipeline`; include/oneapi/tbb/detail/_pipeline_filters.h
`concrete_filter`, `token_helper`, `flow_control`):

    stage_task::execute:  if (!execute_filter(ed)) { finalize(ed); return nullptr; }  return this;      -- recycled: the dispatcher checks the
    stage_task::cancel:   finalize(ed);                                                                   -- cancellation flag again
    ~stage_task:          if (my_filter && my_object) { my_filter->finalize(my_object); my_object = nullptr; }  my_pipeline.wait_ctx.release();
    execute_filter:       my_object = (*my_filter)(my_object);                                            -- the user body runs inside
                          serial filter: try_to_spawn_task_for_next_token (wakes the token parked at ++low_token: a NEW stage_task owns it)
                          my_filter = next; next serial: if (try_put_token(*this)) { my_filter = nullptr; return false; }   -- PARKED: the buffer owns it
                          end of pipe: recycle as input task, or die
    concrete_filter::operator():  out = create_token(body(token(in)));  destroy_token(in);  return out;   -- a throwing body leaves `in` alive in my_object
    concrete_filter::finalize:    destroy_token(in)
    input filter:                 out = create_token(body(fc));  if (fc.is_pipeline_stopped) { destroy_token(out); set_end_of_input(); return nullptr; }
    ~input_buffer:        frees the array ONLY (`Skel.bufferClears = false`): a token still parked when the pipeline is cancelled is never finalised
    parallel_pipeline:    execute_and_wait(first stage task, ctx, pipe.wait_ctx, ctx)  -- rethrows after wait_ctx reached 0;  then ~pipeline

Agents are the stage tasks (a task is run by one thread at a time; which thread is DispatchEH's business); the catch block of the dispatcher
(`caught`/`xchg`/`store`) is part of the task's life.  The buffer discipline (which token is parked, which one is woken) is C07's: here
parking / waking / spawning input tasks / recycling are nondeterministic choices (`ch`), which over-approximates the code.
State: the context words, `wait_ctx`, per task `my_object` / `my_filter != nullptr` / position, per token object owner / parked / destroyed.
-/
import TbbVerif.Model.C03

namespace TbbVerif.C03.Pipe

open TbbVerif.C03 (ExcId)

/-- skeleton facts regenerated from parallel_pipeline.cpp / _pipeline_filters.h -/
structure Skel where
  dtorFinalizes : Bool        -- ~stage_task finalises `my_object` when `my_filter && my_object`
  dtorReleasesLast : Bool     -- ... and releases the wait context after that
  parkClearsFilter : Bool     -- `my_filter = nullptr` after a successful try_put_token
  cancelFinalizes : Bool      -- cancel() -> finalize() -> delete_object(this)
  executeFinalizes : Bool     -- execute(): finalize when execute_filter returned false, else `return this`
  filterDestroysInput : Bool  -- concrete_filter::operator(): destroy_token(input) after create_token(body(..))
  finalizeDestroys : Bool     -- concrete_filter::finalize: destroy_token(input)
  stopDestroysTemp : Bool     -- input filter: destroy_token(temp_output) on flow_control::stop()
  bufferClears : Bool         -- tokens still parked in an input_buffer are finalised when the pipeline is destroyed
  deriving Repr, DecidableEq

/-- what the theorems need (`bufferClears` is a parameter of the statements, not part of `ok`) -/
def Skel.ok (k : Skel) : Bool :=
  k.dtorFinalizes && k.dtorReleasesLast && k.parkClearsFilter && k.cancelFinalizes && k.executeFinalizes && k.filterDestroysInput &&
  k.finalizeDestroys && k.stopDestroysTemp

def Skel.expected : Skel :=
  { dtorFinalizes := true, dtorReleasesLast := true, parkClearsFilter := true, cancelFinalizes := true, executeFinalizes := true,
    filterDestroysInput := true, finalizeDestroys := true, stopDestroysTemp := true, bufferClears := false }

inductive TPc where
  | absent
  | ready                   -- spawned / returned `this`: the dispatcher loads the cancellation flag next
  | exec                    -- in execute_filter, about to call the current filter
  | body                    -- inside the user body of the current filter
  | made                    -- the body returned, the output token was created; next: destroy the input token
  | post                    -- my_object = output; next: wake / spawn / advance (continue, park, die, recycle)
  | caught (e : ExcId)
  | xchg (e : ExcId)
  | store (e : ExcId)
  | dtor                    -- ~stage_task: finalize(my_object) if my_filter && my_object
  | rel                     -- ~stage_task: wait_ctx.release()
  | dead
  deriving DecidableEq, Repr, Inhabited

structure Task where
  pc : TPc := .absent
  obj : Option Nat := none      -- my_object (the input token of the current filter)
  out : Option Nat := none      -- the output token just created inside operator()
  hasFilter : Bool := true      -- my_filter != nullptr
  fins : Nat := 0               -- times ~stage_task ran
  rels : Nat := 0               -- times it released wait_ctx
  deriving DecidableEq, Repr, Inhabited

structure Obj where
  destroyed : Nat := 0
  owner : Option Nat := none    -- the stage_task whose my_object / fresh output it is
  parked : Bool := false        -- sits in a serial filter's input_buffer
  deriving DecidableEq, Repr, Inhabited

inductive WPc where
  | waiting
  | left                    -- wait_ctx == 0 seen; next: load my_exception
  | loaded (oe : Option ExcId)   -- next: ~pipeline (filters, buffers)
  | torn (oe : Option ExcId)     -- pipeline destroyed; next: rethrow / return
  | exited
  deriving DecidableEq, Repr, Inhabited

structure State where
  sk : Skel
  tasks : Nat → Task
  ntasks : Nat
  objs : Nat → Obj
  nobjs : Nat
  cancelled : Bool
  exc : Option ExcId
  count : Nat                   -- pipe.wait_ctx
  wpc : WPc
  -- ghost
  thrown : List ExcId
  stores : Nat
  bodies : Nat                  -- bodies running now
  outs : List ExcId
  rets : Nat
  leaked : Nat                  -- objects that were still parked when the pipeline was destroyed without clearing

def upd {α : Type} (f : Nat → α) (k : Nat) (v : α) : Nat → α := fun j => if j = k then v else f j

inductive Act where
  | task (i : Nat) (ch : Nat)
  | waiter
  deriving DecidableEq, Repr, Inhabited

def init (sk : Skel) : State :=
  { sk := sk, tasks := upd (fun _ => {}) 0 { pc := .ready }, ntasks := 1, objs := fun _ => {}, nobjs := 0, cancelled := false, exc := none,
    count := 1, wpc := .waiting, thrown := [], stores := 0, bodies := 0, outs := [], rets := 0, leaked := 0 }

def setTask (s : State) (i : Nat) (t : Task) : State := { s with tasks := upd s.tasks i t }

/-- destroy object `a` (token_helper::destroy_token) -/
def destroyObj (s : State) (a : Nat) : State :=
  { s with objs := upd s.objs a { (s.objs a) with destroyed := (s.objs a).destroyed + 1, owner := none } }

def stepTask (s : State) (i : Nat) (ch : Nat) : State :=
  if i ≥ s.ntasks then s else
  let t := s.tasks i
  match t.pc with
  | .absent => s
  | .dead => s
  | .ready => if s.cancelled then setTask s i { t with pc := .dtor } else setTask s i { t with pc := .exec }
  | .exec => setTask { s with bodies := s.bodies + 1 } i { t with pc := .body }
  | .body =>
    if ch = 0 then          -- the body returned a value: create_token(output)
      setTask { s with bodies := s.bodies - 1, objs := upd s.objs s.nobjs { owner := some i }, nobjs := s.nobjs + 1 } i
        { t with pc := .made, out := some s.nobjs }
    else if ch = 1 then     -- the body returned, no output token (sink filter)
      setTask { s with bodies := s.bodies - 1 } i { t with pc := .made }
    else if ch = 2 then     -- input filter, flow_control::stop(): the temporary output is created and destroyed at once; the task ends
      if t.obj.isSome then s else
      setTask { s with bodies := s.bodies - 1, objs := upd s.objs s.nobjs { destroyed := 1 }, nobjs := s.nobjs + 1 } i { t with pc := .dtor }
    else                    -- the body threw exception `ch`
      setTask { s with bodies := s.bodies - 1, thrown := ch :: s.thrown } i { t with pc := .caught ch }
  | .made =>                -- destroy_token(input); my_object = output
    let s1 := match t.obj with
      | some a => destroyObj s a
      | none => s
    setTask s1 i { t with pc := .post, obj := t.out, out := none }
  | .post =>
    if ch = 0 then setTask s i { t with pc := .ready }                                 -- next filter on this task: `return this`, the dispatcher checks the flag again
    else if ch = 1 then                                                                  -- try_put_token parked it: the buffer owns the token
      match t.obj with
      | some a => setTask { s with objs := upd s.objs a { (s.objs a) with owner := none, parked := true } } i
                    { t with pc := .dtor, obj := none, hasFilter := false }
      | none => s
    else if ch = 2 then                                                                  -- end of pipe / of input: the task ends
      setTask s i { t with pc := .dtor }
    else if ch = 3 then                                                                  -- recycled as an input-stage task
      if t.obj.isSome then s else setTask s i { t with pc := .ready }
    else if ch = 4 then                                                                  -- try_spawn_stage_task: a fresh input-stage task
      { s with tasks := upd s.tasks s.ntasks { pc := .ready }, ntasks := s.ntasks + 1, count := s.count + 1 }
    else                                                                                 -- a parked token is woken: a new task owns it
      let a := ch - 5
      if a < s.nobjs ∧ (s.objs a).parked then
        { s with tasks := upd s.tasks s.ntasks { pc := .ready, obj := some a }, ntasks := s.ntasks + 1, count := s.count + 1,
                 objs := upd s.objs a { (s.objs a) with owner := some s.ntasks, parked := false } }
      else s
  | .caught e => if s.cancelled then setTask s i { t with pc := .ready } else setTask s i { t with pc := .xchg e }
  | .xchg e => if s.cancelled then setTask s i { t with pc := .ready } else setTask { s with cancelled := true } i { t with pc := .store e }
  | .store e => setTask { s with exc := some e, stores := s.stores + 1 } i { t with pc := .ready }
  | .dtor =>
    let s1 := match t.obj with
      | some a => if t.hasFilter then destroyObj s a else s
      | none => s
    setTask s1 i { t with pc := .rel, obj := none, fins := t.fins + 1 }
  | .rel => setTask { s with count := s.count - 1 } i { t with pc := .dead, rels := t.rels + 1 }

/-- `~pipeline`: what happens to the tokens that are still parked -/
def tearDown (s : State) (n : Nat) : (Nat → Obj) × Nat :=
  match n with
  | 0 => (s.objs, 0)
  | n + 1 =>
    let r := tearDown s n
    if (s.objs n).parked then
      if s.sk.bufferClears then (upd r.1 n { (s.objs n) with destroyed := (s.objs n).destroyed + 1, parked := false }, r.2)
      else (r.1, r.2 + 1)
    else r

def stepWaiter (s : State) : State × Option ExcId :=
  match s.wpc with
  | .waiting => if s.count = 0 then ({ s with wpc := .left }, none) else (s, none)
  | .left => ({ s with wpc := .loaded s.exc }, none)
  | .loaded oe => let r := tearDown s s.nobjs; ({ s with wpc := .torn oe, objs := r.1, leaked := r.2 }, none)
  | .torn oe =>
    match oe with
    | some e => ({ s with wpc := .exited, outs := e :: s.outs }, some e)
    | none => ({ s with wpc := .exited, rets := s.rets + 1 }, none)
  | .exited => (s, none)

def step (s : State) : Act → State
  | .task i ch => stepTask s i ch
  | .waiter => (stepWaiter s).1

def runFrom (s : State) (acts : List Act) : State := acts.foldl step s

def run (sk : Skel) (acts : List Act) : State := runFrom (init sk) acts

/-! ## line driver (validate mode) -/

open TbbVerif.Proto

def showTPc : TPc → String
  | .absent => "absent" | .ready => "ready" | .exec => "exec" | .body => "body" | .made => "made" | .post => "post"
  | .caught e => s!"caught {e}" | .xchg e => s!"xchg {e}" | .store e => s!"store {e}" | .dtor => "dtor" | .rel => "rel" | .dead => "dead"

def showON : Option Nat → String
  | some a => toString a
  | none => "-"

def describeTask (s : State) (i : Nat) (s' : State) : String :=
  let t := s.tasks i
  let t' := s'.tasks i
  match t.pc, t'.pc with
  | .ready, .dtor => "check cancel"
  | .ready, .exec => "check exec"
  | .exec, .body => "bbegin"
  | .body, .made => s!"bend out {showON t'.out}"
  | .body, .dtor => s!"bend stop {s.nobjs}"
  | .body, .caught e => s!"bend throw {e}"
  | .made, .post => s!"destroy-in {showON t.obj}"
  | .post, .dtor => if t'.hasFilter then "end" else s!"park {showON t.obj}"
  | .post, .ready => if t.obj.isSome then "continue" else "recycle"
  | .post, .post => if s'.ntasks > s.ntasks then s!"spawn {s.ntasks} {showON (s'.tasks s.ntasks).obj}" else "stutter"
  | .caught _, .xchg _ => "cload 0"
  | .caught _, .ready => "cload 1"
  | .xchg _, .store _ => "xchg 0"
  | .xchg _, .ready => "xchg 1"
  | .store e, .ready => s!"store {e}"
  | .dtor, .rel => (match t.obj with
    | some a => if t.hasFilter then s!"dtor destroy {a}" else "dtor"
    | none => "dtor")
  | .rel, .dead => s!"release {s'.count}"
  | _, _ => "stutter"

def describeWaiter (s : State) (r : State × Option ExcId) : String :=
  match s.wpc, r.1.wpc with
  | .waiting, .left => "leave"
  | .left, .loaded oe => s!"excload {match oe with | some e => toString e | none => "-"}"
  | .loaded _, .torn _ => s!"teardown leaked {r.1.leaked}"
  | .torn _, .exited => (match r.2 with
    | some e => s!"out {e}"
    | none => "ret")
  | _, _ => "stutter"

def objLine (s : State) : String :=
  " ".intercalate ((List.range s.nobjs).map fun a => s!"{(s.objs a).destroyed}{if (s.objs a).parked then "p" else ""}")

def showState (s : State) : String :=
  s!"count {s.count} cancelled {showBool s.cancelled} ntasks {s.ntasks} bodies {s.bodies} outs {s.outs.length} rets {s.rets} leaked {s.leaked} objs {objLine s}"

def skelOfNats (ws : List Nat) : Skel :=
  match ws with
  | [a, b, c, d, e, f, g, h, i] =>
    { dtorFinalizes := a = 1, dtorReleasesLast := b = 1, parkClearsFilter := c = 1, cancelFinalizes := d = 1, executeFinalizes := e = 1,
      filterDestroysInput := f = 1, finalizeDestroys := g = 1, stopDestroysTemp := h = 1, bufferClears := i = 1 }
  | _ => Skel.expected

def drvStep (st : Option State) (ws : List String) : Option State × String :=
  match ws with
  | ["init", c] => (some (init { Skel.expected with bufferClears := c = "1" }), "init")
  | _ =>
    match st with
    | none => (st, "bad-op")
    | some s =>
      match ws with
      | ["t", i, ch] =>
        match nat? i, nat? ch with
        | some i, some ch => let s' := stepTask s i ch; (some s', describeTask s i s')
        | _, _ => (st, "bad-op")
      | ["w"] => let r := stepWaiter s; (some r.1, describeWaiter s r)
      | ["state"] => (st, showState s)
      | _ => (st, "bad-op")

def driver : Proto.Driver := { σ := Option State, init := none, step := drvStep }

end TbbVerif.C03.Pipe
