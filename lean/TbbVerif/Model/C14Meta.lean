/-
C14 (c) — `try_put_and_wait` (preview, __TBB_PREVIEW_FLOW_GRAPH_TRY_PUT_AND_WAIT): how the wait-context vertex of
one put travels with the message (`message_metainfo`) through function nodes and buffering nodes, and what its
reference count means.  Executable model (core Lean only; linked into drv_c14).

Code: flow_graph.h `receiver::try_put_and_wait` (a `wait_context_vertex` on the caller's stack, `message_metainfo{&v}`,
`d1::wait` on it), detail/_flow_graph_impl.h `trackable_messages_graph_task` (constructor from an lvalue list:
`reserve(1)` on every waiter; `finalize`: `release(1)` on every waiter), detail/_flow_graph_item_buffer_impl.h
(`set_my_item(const&)`: reserve; `destroy_item`: release; `pop_front/fetch_item(…, metainfo&)`: the references MOVE out),
detail/_flow_graph_node_impl.h (`internal_try_put_task`, `perform_queued_requests`: task created from
`front_metainfo()` BEFORE `pop()`), detail/_flow_graph_body_impl.h (`apply_body_task_bypass::execute`: the successors
are offered the output with the task's metainfo BEFORE `finalize`), flow_graph.h `buffer_node::try_put_and_add_task`
(offer BEFORE `destroy_back/front`), `limiter_node::forward_task` (offer BEFORE `try_consume`), detail/_flow_graph_join_impl.h
(`try_to_make_tuple(out, metainfo)` merges the ports' metainfo, offer BEFORE `tuple_accepted`).

Abstraction: a *holder* is anything that owns one reference per waiter of the message it carries: a trackable task, a
buffer / queue / port slot.  Moving the metainfo from a slot into a task (`pop_front` + rvalue constructor) keeps
the references, so it is not a step here.  One step per holder creation (a loop of `reserve(1)` calls) and per holder
destruction (a loop of `release(1)` calls); a forward (`fwdBegin … fwdEnd`) is the pair "create the successor's
holder / destroy the source" in the ORDER the code has (regenerated into `Generated/C14Meta.lean`); between the two
steps every other thread may run, in particular the waiter's test `continue_execution()`.
-/
import TbbVerif.Core.Sched
import TbbVerif.Core.Proto
import TbbVerif.Generated.C14Meta

namespace TbbVerif.C14.Meta
open TbbVerif.Generated.C14Meta

/-- the forwarding code paths that carry metainfo -/
inductive Path where
  /-- `apply_body_task_bypass::execute`: body, `successors().try_put_task(v, metainfo)`, `finalize` -/
  | task
  /-- `perform_queued_requests`: `create_body_task(front, front_metainfo)`, `my_queue->pop()` -/
  | pqr
  /-- `buffer_node` / `queue_node` / `priority_queue_node` / `sequencer_node` forwarding -/
  | buffer
  /-- `join_node_base` forwarding (queueing / key-matching ports) -/
  | join
  /-- `limiter_node::forward_task` over a reserved item of a buffering predecessor -/
  | limiter
deriving Repr, DecidableEq, Inhabited

inductive HKind where
  | task
  | slot
deriving Repr, DecidableEq, Inhabited

structure MFlags where
  taskPutBeforeFinalize : Bool
  pqrCopyBeforePop : Bool
  bufferPutBeforeDestroy : Bool
  joinPutBeforeAccepted : Bool
  limiterPutBeforeConsume : Bool
  slotReservesOnCopy : Bool
  slotReleasesOnDestroy : Bool
  taskReservesOnCopy : Bool
  taskReleasesOnFinalize : Bool
  /-- `try_put_and_wait` waits on the vertex it put into the metainfo, and `continue_execution` is `count > 0` -/
  tpwWaitsOnOwnVertex : Bool
  known : Bool
deriving Repr, DecidableEq, Inhabited

def MFlags.ok (F : MFlags) : Bool :=
  F.taskPutBeforeFinalize && F.pqrCopyBeforePop && F.bufferPutBeforeDestroy && F.joinPutBeforeAccepted &&
    F.limiterPutBeforeConsume && F.slotReservesOnCopy && F.slotReleasesOnDestroy && F.taskReservesOnCopy &&
    F.taskReleasesOnFinalize && F.tpwWaitsOnOwnVertex && F.known

def genMFlags : MFlags :=
  { taskPutBeforeFinalize := taskPutBeforeFinalize, pqrCopyBeforePop := pqrCopyBeforePop,
    bufferPutBeforeDestroy := bufferPutBeforeDestroy, joinPutBeforeAccepted := joinPutBeforeAccepted,
    limiterPutBeforeConsume := limiterPutBeforeConsume, slotReservesOnCopy := slotReservesOnCopy,
    slotReleasesOnDestroy := slotReleasesOnDestroy, taskReservesOnCopy := taskReservesOnCopy,
    taskReleasesOnFinalize := taskReleasesOnFinalize, tpwWaitsOnOwnVertex := tpwWaitsOnOwnVertex, known := skeletonKnown }

def MFlags.order (F : MFlags) : Path → Bool
  | .task => F.taskPutBeforeFinalize
  | .pqr => F.pqrCopyBeforePop
  | .buffer => F.bufferPutBeforeDestroy
  | .join => F.joinPutBeforeAccepted
  | .limiter => F.limiterPutBeforeConsume

def MFlags.reserves (F : MFlags) : HKind → Bool
  | .task => F.taskReservesOnCopy
  | .slot => F.slotReservesOnCopy

def MFlags.releases (F : MFlags) : HKind → Bool
  | .task => F.taskReleasesOnFinalize
  | .slot => F.slotReleasesOnDestroy

structure Holder where
  id : Nat
  kind : HKind
  /-- the metainfo: ids of the `try_put_and_wait` calls whose vertex travels with the message (with multiplicity) -/
  ws : List Nat
  /-- ghost: the `try_put_and_wait` calls this message derives from -/
  org : List Nat
  /-- ghost: every hop from the put to here carried the metainfo (no multifunction port, gateway or decrementer hop) -/
  tracked : Bool
deriving Repr, DecidableEq, Inhabited

/-- a forward in progress -/
structure Pend where
  path : Path
  srcs : List Nat
  /-- `some (ws, org, tracked)`: the source was destroyed first (swapped order): the message is in nobody's hands -/
  transit : Option (List Nat × List Nat × Bool)
  acc : Bool
  dst : HKind
deriving Repr, DecidableEq, Inhabited

structure MS where
  /-- reference count of the vertex of `try_put_and_wait` call `w` -/
  cnt : Nat → Int := fun _ => 0
  used : Nat → Bool := fun _ => false
  hs : List Holder := []
  next : Nat := 0
  pend : List Pend := []
  /-- ghost: a waiter's test let `try_put_and_wait` return while a tracked descendant was unprocessed -/
  early : Bool := false

inductive MOp where
  /-- `try_put_and_wait` call `w` is accepted: the first holder (a task, or a queue slot) is created -/
  | tpw (w : Nat) (k : HKind)
  /-- a plain `try_put` is accepted -/
  | put (k : HKind)
  /-- first half of a forward of the message(s) held by `srcs` along `path`; `acc`: a successor accepts; `dst`: what
  holds it there; `tr`: the hop carries the metainfo -/
  | fwdBegin (path : Path) (srcs : List Nat) (acc : Bool) (dst : HKind) (tr : Bool)
  /-- second half of the `i`-th forward in progress -/
  | fwdEnd (i : Nat)
  /-- a holder is destroyed without a forward (a sink's task finalizes; a rejected output is dropped) -/
  | fin (h : Nat)
  /-- the waiter of call `w` tests `continue_execution()` -/
  | waitTest (w : Nat)
deriving Repr, DecidableEq, Inhabited

namespace MS

def addRefs (cnt : Nat → Int) (ws : List Nat) : Nat → Int := fun w => cnt w + ws.count w
def subRefs (cnt : Nat → Int) (ws : List Nat) : Nat → Int := fun w => cnt w - ws.count w

def find (s : MS) (i : Nat) : Option Holder := s.hs.find? (fun h => h.id == i)

/-- create a holder (`reserve(1)` per waiter if this kind of holder reserves on copy) -/
def mkH (F : MFlags) (s : MS) (k : HKind) (ws org : List Nat) (tr : Bool) : MS :=
  { s with hs := { id := s.next, kind := k, ws := ws, org := org, tracked := tr } :: s.hs, next := s.next + 1,
           cnt := if F.reserves k then addRefs s.cnt ws else s.cnt }

/-- destroy holder `i` (`release(1)` per waiter) -/
def kill (F : MFlags) (s : MS) (i : Nat) : MS :=
  match s.find i with
  | none => s
  | some h => { s with hs := s.hs.filter (fun x => x.id != i), cnt := if F.releases h.kind then subRefs s.cnt h.ws else s.cnt }

def killAll (F : MFlags) (s : MS) : List Nat → MS
  | [] => s
  | i :: is => killAll F (s.kill F i) is

/-- metainfo / origins / tracked of the message assembled from the sources (join: concatenation over the ports) -/
def gather (s : MS) : List Nat → List Nat × List Nat × Bool
  | [] => ([], [], true)
  | i :: is =>
    let r := gather s is
    match s.find i with
    | some h => (h.ws ++ r.1, h.org ++ r.2.1, h.tracked && r.2.2)
    | none => r

/-- which sources a forward along this path destroys when the successor accepted / rejected -/
def destroys (p : Path) (acc : Bool) : Bool :=
  match p with
  | .task => true          -- the task finalizes whatever the successors answered (a rejected output is dropped)
  | _ => acc               -- a buffer / port / reserved item stays when the successor rejects

def step (F : MFlags) (s : MS) : MOp → MS
  | .tpw w k => if s.used w then s else { (s.mkH F k [w] [w] true) with used := fun x => x == w || s.used x }
  | .put k => s.mkH F k [] [] true
  | .fwdBegin path srcs acc dst tr =>
    if srcs.isEmpty || !srcs.all (fun i => (s.find i).isSome) || !srcs.Nodup || s.pend.any (fun p => p.srcs.any (fun i => srcs.contains i)) then s
    else
      let g := s.gather srcs
      let m : List Nat × List Nat × Bool := (if tr then g.1 else [], g.2.1, g.2.2 && tr)
      if F.order path then
        let s1 := if acc then s.mkH F dst m.1 m.2.1 m.2.2 else s
        { s1 with pend := s1.pend ++ [{ path := path, srcs := srcs, transit := none, acc := acc, dst := dst }] }
      else
        let s1 := if destroys path acc then s.killAll F srcs else s
        { s1 with pend := s1.pend ++ [{ path := path, srcs := srcs, transit := some m, acc := acc, dst := dst }] }
  | .fwdEnd i =>
    match s.pend[i]? with
    | none => s
    | some p =>
      let s0 := { s with pend := s.pend.eraseIdx i }
      match p.transit with
      | none => if destroys p.path p.acc then s0.killAll F p.srcs else s0
      | some m => if p.acc then s0.mkH F p.dst m.1 m.2.1 m.2.2 else s0
  | .fin h => if s.pend.any (fun p => p.srcs.contains h) then s else s.kill F h
  | .waitTest w =>
    let cont := if F.tpwWaitsOnOwnVertex then decide (s.cnt w > 0) else false
    if cont then s
    else { s with early := s.early || s.hs.any (fun h => h.tracked && h.org.contains w) ||
                    s.pend.any (fun p => match p.transit with | some m => p.acc && m.2.2 && m.2.1.contains w | none => false) }

def sys (F : MFlags) : List MOp → MS := fun ops => ops.foldl (step F) {}

/-- number of references holders own on the vertex of call `w` -/
def owned (hs : List Holder) (w : Nat) : Nat := (hs.map (fun h => h.ws.count w)).sum

end MS

/-! ### `c14meta`: the invariant as an executable check of snapshots of the real nodes

Each line is a white-box snapshot taken by harness/c14/meta.cpp between two script operations:
`snap <w>=<count> … | <holder> …` with `<holder>` = `<T|S>:<msg>:<w,w,…|->`.  Answer: `ok`, or the first waiter whose
reference count differs from the number of references the listed holders own. -/
def snapLine (ws : List String) : String :=
  match ws with
  | "snap" :: rest =>
    let (cs, hsR) := rest.span (· ≠ "|")
    let hsW := hsR.drop 1
    let counts : Option (List (Nat × Int)) := cs.mapM (fun c => match c.splitOn "=" with
      | [a, b] => do let w ← a.toNat?; let n ← b.toInt?; pure (w, n)
      | _ => none)
    let holders : Option (List Holder) := hsW.mapM (fun h => match h.splitOn ":" with
      | [k, m, l] =>
        if k = "T" || k = "S" then do
          let mm ← m.toNat?
          let wl ← (if l = "-" then some [] else (l.splitOn ",").mapM (·.toNat?))
          pure { id := mm, kind := if k = "T" then HKind.task else HKind.slot, ws := wl, org := wl, tracked := true }
        else none
      | _ => none)
    match counts, holders with
    | some cs, some hs =>
      match cs.find? (fun c => c.2 != (MS.owned hs c.1 : Int)) with
      | none => "ok"
      | some c => s!"waiter {c.1}: count {c.2} but holders own {MS.owned hs c.1}"
    | _, _ => "bad-op"
  | _ => "bad-op"

def driver : Proto.Driver := Proto.pureDriver snapLine

end TbbVerif.C14.Meta
