/-
C19 — the COLLABORATIVE part of collaborative_call_once (executable model, core Lean only).

`Collab` extends the access-level model `Once` (Model/C19.lean: state word, runner `m_ref_count` / `m_is_ready` /
`m_wait_context`, one step per atomic access) with what `collaborative_once_runner` is for:

* the runner is an object ON THE WINNER'S STACK, published through the state word as pointer bits.  A caller's runner
  lives at the same address in every one of its calls (`Word.runner t`), so the model counts INCARNATIONS (`gen[t]`):
  a helper that pins the word records the incarnation it pinned (`pin[j]`) and every later dereference (lifetime_guard
  increment, `m_is_ready` spin, arena entry / `wait`, guard decrement, execution of an inner task) is checked against
  the live incarnation (`xbad`).  A helper that read the OLD pointer and whose CAS succeeds after a retry at the same
  address (ABA) pins the NEW incarnation: this is benign exactly because the CAS re-validates the whole word.
* `run_once`: the user function runs inside the runner's `task_arena` (`attach`: `conc` slots) and inside
  `isolate_within_arena(tag = this)`; it spawns `work k` inner tasks (a `parallel_for`) — actions `begin` / `take` /
  `fin`; it returns (the `Once` step at `wCall`, whose outcome is the oracle) only when every inner task has finished.
  Inner tasks are taken by the winner, by helpers that are INSIDE `assist()` (pc `hWait`: they hold a lifetime_guard
  and wait on the runner's wait_context in the arena) and by plain worker threads (ids ≥ number of callers).
* isolation: a thread blocked inside the function or inside `assist()` takes only tasks of the isolated region.  Without
  it (`Skel.isolate = false`) such a thread may pick up an OUTER task that calls collaborative_call_once on the same
  flag (action `nest v`: caller `v` runs on top of the blocked frame of thread `t`, which cannot continue before `v`
  returns) — the deadlock the header's `isolated_execute` avoids.
* happens-before, with the memory orders regenerated from the trace of the real header (`Orders`): `sees[i]` = the
  successful completion of the function happens-before caller `i`'s current point; it is obtained only by running the
  function or by an ACQUIRE load of the state word that reads a value written by the winner's RELEASE completion CAS
  (`wsees`).  `okUnseen` records a call that returned normally without it.  `dok` / `dirty`: the destructor's acquire
  read of `m_ref_count == 0` against the helpers' release decrements.
* the statement skeleton of the header (`Skel`, regenerated from traces of the real code): with a flag off the model
  follows the changed code (completion state stored before the function ran, destructor not waiting for the guards,
  exception path resetting the word by a plain store, helper adding its reference without re-validating the word).
-/
import TbbVerif.Model.C19

namespace TbbVerif.C19.Collab

open Once

/-- memory-order codes: 0 relaxed, 1 consume, 2 acquire, 3 release, 4 acq_rel, 5 seq_cst -/
def isAcq (o : Nat) : Bool := o == 2 || o == 4 || o == 5
def isRel (o : Nat) : Bool := o == 3 || o == 4 || o == 5

structure Orders where
  lateLoad : Nat    -- collaborative_call_once: `flag.m_state.load(…) != done` (a late-comer returns on it)
  spinLoad : Nat    -- `spin_wait_while_eq(m_state, max_value)`: the load on which a moonlighting caller leaves
  doneCas  : Nat    -- set_completion_state: `m_state.compare_exchange_strong(runner_bits, desired)`
  refDec   : Nat    -- ~lifetime_guard: `m_ref_count--`
  dtorLoad : Nat    -- ~collaborative_once_runner: `spin_wait_until_eq(m_ref_count, 0, …)`
  deriving Repr, DecidableEq

def Orders.ok (o : Orders) : Bool :=
  isAcq o.lateLoad && isAcq o.spinLoad && isRel o.doneCas && isRel o.refDec && isAcq o.dtorLoad

structure Skel where
  doneAfterCall : Bool   -- run_once: set_completion_state(done) only after the user function returned
  dtorWaitsRefs : Bool   -- ~runner spins until m_ref_count == 0 before the frame ends
  resetByCas    : Bool   -- exception path: set_completion_state(uninitialized) = wait for zero references, then CAS
  pinByCas      : Bool   -- helper: reference added by CAS(expected, expected + 1), `expected > done` re-validated
  isolate       : Bool   -- run_once and assist run inside isolate_within_arena(tag = this)
  ord           : Orders
  deriving Repr, DecidableEq

def Skel.expected : Skel :=
  { doneAfterCall := true, dtorWaitsRefs := true, resetByCas := true, pinByCas := true, isolate := true,
    ord := { lateLoad := 2, spinLoad := 2, doneCas := 5, refDec := 5, dtorLoad := 2 } }

/-- the statement skeleton is the header's and the orders are strong enough (stronger orders are accepted) -/
def Skel.ok (k : Skel) : Bool :=
  k.doneAfterCall && k.dtorWaitsRefs && k.resetByCas && k.pinByCas && k.isolate && k.ord.ok

inductive Act where
  | acc              -- the thread's next atomic access (model `Once`)
  | begin            -- the winner, inside the isolated region, starts the user function: spawns its inner tasks
  | take             -- the thread takes an inner task of the running function
  | fin              -- the thread finishes the inner task it executes
  | nest (v : Tid)   -- (no isolation only) the blocked thread picks up the outer task that is caller `v`
  deriving Repr, DecidableEq

structure X where
  gen      : List Nat := []       -- gen[t] = incarnations of caller t's runner constructed so far
  pin      : List Nat := []       -- pin[j] = incarnation helper j pinned at its last successful CAS
  st       : Nat := 0             -- 1 while the user function's parallel part is in progress
  pool     : Nat := 0             -- inner tasks spawned and not yet taken
  exec     : List Tid := []       -- threads executing an inner task
  ran      : Nat := 0             -- inner tasks finished in the current invocation
  total    : Nat := 0             -- inner tasks spawned by the current invocation
  sees     : List Bool := []
  wsees    : Bool := false
  okUnseen : Bool := false
  dok      : List Bool := []
  dirty    : Bool := false
  host     : List (Option Tid) := []   -- host[v] = some t: caller v runs nested on top of thread t's blocked frame
  xbad     : Bool := false        -- dereference of a runner incarnation other than the pinned one / task executed from outside
  deriving Repr, DecidableEq

structure CSt where
  o : St := {}
  x : X := {}
  deriving Repr, DecidableEq

/-- the `Once` access step under a statement skeleton: at `Skel.expected` it IS `Once.stepEv` -/
def accOnce (k : Skel) (U : Nat) (throws : Nat → Bool) (s : St) (t : Tid) : St × Option Ev :=
  match s.ths[t]?, s.rns[t]? with
  | some th, some rn =>
    let w := s.word
    let me := Word.runner t
    match th.pc with
    | .dtor =>
        if k.dtorWaitsRefs then Once.stepEv U throws s t
        else ({ s with ths := s.ths.set t { th with pc := .dtor2 } }, none)
    | .wSpin =>
        if k.resetByCas || th.pend.isNone then Once.stepEv U throws s t
        else ({ s with word := Word.uninit, ths := s.ths.set t { th with pc := .wRelease } },
              some ⟨"store", "state", Word.uninit.show, w.show, true⟩)
    | .hCas =>
        if k.pinByCas then Once.stepEv U throws s t
        else
          -- `m_state.fetch_add(1)` on whatever the word holds now; the runner is still taken from the stale `expected`
          let (w', carry) := w.inc U
          ({ s with word := w', bad := s.bad || carry || w.hi == 0,
                    ths := s.ths.set t { th with pc := .hGuard, tgt := th.exp.hi - 1 } },
           some ⟨"fadd", "state", w.show, w'.show, true⟩)
    | .wReady =>
        if k.doneAfterCall then Once.stepEv U throws s t
        else ({ s with ths := s.ths.set t { th with pc := .wSpin, des := Word.done, pend := none },
                       rns := s.rns.set t { rn with stor := true, wctx := 1, ready := true } },
              some ⟨"store", s!"ready:{t}", "1", b2s rn.ready, true⟩)
    | .wSet =>
        if k.doneAfterCall || th.des != Word.done then Once.stepEv U throws s t
        else if w = me then
          ({ s with word := th.des, ths := s.ths.set t { th with pc := .wCall } }, some ⟨"cas", "state", me.show, th.des.show, true⟩)
        else ({ s with ths := s.ths.set t { th with pc := .wSpin } }, some ⟨"cas", "state", me.show, w.show, false⟩)
    | .wCall =>
        if k.doneAfterCall then Once.stepEv U throws s t
        else
          let n := s.winners.length
          let ev : Option Ev := some ⟨"fadd", "fcount", toString n, toString (n + 1), true⟩
          if throws n then
            ({ s with winners := s.winners ++ [t],
                      ths := s.ths.set t { th with pc := .wSpin, des := Word.uninit, pend := some n } }, ev)
          else
            ({ s with winners := s.winners ++ [t], succ := s.succ + 1,
                      ths := s.ths.set t { th with pc := .wRelease, pend := none } }, ev)
    | _ => Once.stepEv U throws s t
  | _, _ => (s, none)

def getB (l : List Bool) (i : Nat) : Bool := l.getD i false
def getN (l : List Nat) (i : Nat) : Nat := l.getD i 0

/-- caller `v` has not finished the call it runs nested on somebody's frame -/
def unfinished (s : St) (v : Tid) : Bool :=
  match s.ths[v]? with
  | some th => th.calls != 0 || th.pc != .idle
  | none => false

/-- thread `t`'s frame is below an unfinished nested call -/
def blocked (c : CSt) (t : Tid) : Bool :=
  (List.range c.x.host.length).any (fun v => c.x.host.getD v none == some t && unfinished c.o v)

/-- ghost bookkeeping of an `acc` step of caller `t` at pre-state `s` (the `Once` part moves by `accOnce`) -/
def track (k : Skel) (throws : Nat → Bool) (s : St) (t : Tid) (x : X) : X :=
  match s.ths[t]?, s.rns[t]? with
  | some th, some rn =>
    let w := s.word
    let derefOk : Bool := getN x.gen th.tgt == getN x.pin t
    match th.pc with
    | .idle =>
        if th.calls = 0 then x
        else
          let sees' := getB x.sees t || (isAcq k.ord.lateLoad && x.wsees)
          let x1 := { x with sees := x.sees.set t sees' }
          if w = Word.done then { x1 with okUnseen := x.okUnseen || !sees' } else x1
    | .entry => { x with gen := x.gen.set t (getN x.gen t + 1), dok := x.dok.set t false }
    | .hSpin => { x with sees := x.sees.set t (getB x.sees t || (isAcq k.ord.spinLoad && x.wsees)) }
    | .hCas =>
        if k.pinByCas then
          if w = th.exp && th.exp.hi != 0 then { x with pin := x.pin.set t (getN x.gen (th.exp.hi - 1)) } else x
        else x      -- no re-validation: the incarnation the helper believes in is the one it read earlier
    | .hGuard | .hReady | .hWait | .hUnguard =>
        let x1 := { x with xbad := x.xbad || !derefOk }
        if th.pc = .hUnguard then { x1 with dirty := x.dirty || !isRel k.ord.refDec } else x1
    | .wCall =>
        -- the function returns: the parallel part is over; after a success the completion is known to the winner
        if throws s.winners.length then { x with st := 0 } else { x with st := 0, sees := x.sees.set t true }
    | .wSet =>
        if w = Word.runner t then { x with wsees := x.wsees || (isRel k.ord.doneCas && getB x.sees t && th.des == Word.done) } else x
    | .dtor =>
        if !k.dtorWaitsRefs then { x with dok := x.dok.set t true }
        else if rn.refc = 0 then { x with dok := x.dok.set t (isAcq k.ord.dtorLoad) } else x
    | .dtor2 =>
        if th.pend.isNone then { x with okUnseen := x.okUnseen || !getB x.sees t } else x
    | _ => x
  | _, _ => x

/-- the winner is at the user function and has not started it yet -/
def beginOk (c : CSt) (t : Tid) : Bool :=
  match c.o.ths[t]? with
  | some th => th.pc = .wCall && c.x.st == 0 && !blocked c t
  | none => false

/-- is thread `t` in a dispatch loop of the runner's arena / isolated region?  Workers (ids ≥ number of callers) always
are; a caller only as the winner inside the function or as a helper inside `assist()` of the CURRENT runner.  A caller
that is not inside is in no dispatch loop and cannot take a task. -/
def inside (c : CSt) (t : Tid) : Bool :=
  if t ≥ c.o.ths.length then true
  else match c.o.ths[t]? with
    | some th => (th.pc = .wCall && c.o.word.hi == t + 1) ||
                 (th.pc = .hWait && th.tgt + 1 == c.o.word.hi && getN c.x.gen th.tgt == getN c.x.pin t)
    | none => false

def takeOk (conc : Nat) (c : CSt) (t : Tid) : Bool :=
  c.x.st = 1 && c.x.pool != 0 && !c.x.exec.contains t && c.x.exec.length < conc && !blocked c t && inside c t

/-- One action of thread `t`.  `work n` = number of inner tasks the n-th invocation of the function spawns, `conc` =
slots of the runner's arena, `N` = number of callers (thread ids ≥ N are plain workers). -/
def step (k : Skel) (U : Nat) (throws : Nat → Bool) (work : Nat → Nat) (conc : Nat) (c : CSt) (a : Tid × Act) : CSt :=
  let t := a.1
  let s := c.o
  let x := c.x
  let N := s.ths.length
  match a.2 with
  | .acc =>
      if x.exec.contains t || blocked c t then c
      else match s.ths[t]? with
        | none => c
        | some th =>
          if th.pc = .wCall then
            if x.st = 1 && x.pool == 0 && x.exec.isEmpty then
              { o := (accOnce k U throws s t).1, x := track k throws s t x }
            else c
          else { o := (accOnce k U throws s t).1, x := track k throws s t x }
  | .begin =>
      if beginOk c t then
        { c with x := { x with st := 1, pool := work s.winners.length, exec := [], ran := 0, total := work s.winners.length } }
      else c
  | .take =>
      if takeOk conc c t then { c with x := { x with pool := x.pool - 1, exec := t :: x.exec } } else c
  | .fin =>
      if x.exec.contains t then { c with x := { x with exec := x.exec.erase t, ran := x.ran + 1 } } else c
  | .nest v =>
      if k.isolate then c
      else match s.ths[t]?, s.ths[v]? with
        | some th, some tv =>
          let inRegion : Bool := (th.pc = .wCall && x.st == 1) || th.pc = .hWait
          if inRegion && !x.exec.contains t && !blocked c t && v != t && x.host.getD v none == none &&
             tv.pc = .idle && tv.calls != 0 then
            { c with x := { x with host := x.host.set v (some t) } }
          else c
        | _, _ => c

def init (calls : List Nat) : CSt :=
  { o := Once.init calls,
    x := { gen := calls.map (fun _ => 0), pin := calls.map (fun _ => 0), sees := calls.map (fun _ => false),
           dok := calls.map (fun _ => false), host := calls.map (fun _ => none) } }

def runFrom (k : Skel) (U : Nat) (throws : Nat → Bool) (work : Nat → Nat) (conc : Nat) (c : CSt) (sched : List (Tid × Act)) : CSt :=
  sched.foldl (step k U throws work conc) c

/-- every interleaving of accesses and task actions: a schedule is a list of (thread, action) -/
def run (k : Skel) (U : Nat) (throws : Nat → Bool) (work : Nat → Nat) (conc : Nat) (calls : List Nat) (sched : List (Tid × Act)) : CSt :=
  runFrom k U throws work conc (init calls) sched

/-- can thread `t` perform its next atomic access?  (not inside a task body, not below a nested call, and the function
returns only when its parallel part is over) -/
def accEnabled (c : CSt) (t : Tid) : Bool :=
  !(c.x.exec.contains t || blocked c t) &&
  (match c.o.ths[t]? with
   | some th => if th.pc = .wCall then c.x.st = 1 && c.x.pool == 0 && c.x.exec.isEmpty else true
   | none => false)

/-- nobody can change the state any more although a call is unfinished (used with the non-isolated skeleton) -/
def stuck (k : Skel) (U : Nat) (throws : Nat → Bool) (work : Nat → Nat) (conc : Nat) (c : CSt) : Bool :=
  let n := c.o.ths.length
  (List.range n).any (fun v => unfinished c.o v) &&
  (List.range n).all (fun t =>
    [Act.acc, Act.begin, Act.take, Act.fin].all (fun a => step k U throws work conc c (t, a) == c))

/-! ### line-protocol driver: VALIDATION of a whole-runtime E-SHIM trace (harness/c19/collab.cpp) -/
open Proto

structure DSt where
  k    : Skel
  U    : Nat := 128
  thr  : List Nat := []
  work : Nat := 0
  conc : Nat := 1
  c    : CSt := {}

def fmtEv (e : Ev) : String := s!"{e.kind} {e.var} {e.a} {e.b} {showBool e.ok}"

def DSt.thrF (d : DSt) : Nat → Bool := fun n => d.thr.contains n
def DSt.act (d : DSt) (t : Tid) (a : Act) : DSt :=
  { d with c := step d.k d.U d.thrF (fun _ => d.work) d.conc d.c (t, a) }
def DSt.nextEv (d : DSt) (t : Tid) : Option Ev := (accOnce d.k d.U d.thrF d.c.o t).2
def pcOf (d : DSt) (t : Tid) : Option Pc := (d.c.o.ths[t]?).map (·.pc)

/-- loads the validator may skip on the model side: a wait_context load (the dispatcher reads it at its own pace) and the
destructor's loads of a runner that was never published (only its own thread reaches it; not traced) -/
def silentLoad (d : DSt) (t : Tid) (e : Ev) : Bool :=
  e.kind == "load" &&
  (e.var.startsWith "wctx:" ||
   (match d.c.o.ths[t]?, d.c.o.rns[t]? with
    | some th, some rn => (th.pc = .dtor || th.pc = .dtor2) && !rn.ready
    | _, _ => false))

/-- match the implementation's access `want` of thread `t`, skipping silent loads that make progress -/
def matchEv (want : String) (t : Tid) : Nat → DSt → DSt × String
  | 0, d => (d, "mismatch: too many silent steps")
  | fuel + 1, d =>
    if !accEnabled d.c t then (d, s!"mismatch: thread {t} cannot perform an access in the model (inside a task / function not finished)")
    else match d.nextEv t with
      | none => (d, s!"mismatch: model has no access for thread {t}")
      | some e =>
        if fmtEv e = want then (d.act t .acc, "ok")
        else if silentLoad d t e then
          let d' := d.act t .acc
          if pcOf d' t = pcOf d t then (d, s!"mismatch: model `{fmtEv e}` (waiting), implementation `{want}`")
          else matchEv want t fuel d'
        else (d, s!"mismatch: model `{fmtEv e}`, implementation `{want}`")

/-- run thread `t`'s silent loads until it is outside a call -/
def finishCall (t : Tid) : Nat → DSt → DSt × String
  | 0, d => (d, "mismatch: call does not end in the model")
  | fuel + 1, d =>
    match d.c.o.ths[t]? with
    | none => (d, "bad-tid")
    | some th =>
      if th.pc = .idle then (d, "ok " ++ " ".intercalate (th.rets.reverse.map showRet))
      else match d.nextEv t with
        | some e =>
          if accEnabled d.c t && silentLoad d t e then
            let d' := d.act t .acc
            if pcOf d' t = pcOf d t then (d, s!"mismatch: call of thread {t} ended in the implementation, the model waits at `{fmtEv e}`")
            else finishCall t fuel d'
          else (d, s!"mismatch: call of thread {t} ended in the implementation, the model is at `{fmtEv e}`")
        | none => (d, "mismatch: no access")

/-- `cfg <U> <work> <conc>`; `callers c0 c1 …`; `throws k…`;
`x <tid> <kind> <var> <a> <b> <ok>` an access; `r <tid> wctx:<own> <v>` a wait_context load (value check only);
`n <tid> <tag>` with tag fn_begin / task_begin / task_end / call_begin / call_end; `state`. -/
def drive (d : DSt) (ws : List String) : DSt × String :=
  match ws with
  | ["cfg", u, w, c] => match nat? u, nat? w, nat? c with
      | some u, some w, some c => ({ d with U := u, work := w, conc := c }, "ok")
      | _, _, _ => (d, "bad-op")
  | "callers" :: cs => match nats? cs with
      | some cs => ({ d with c := init cs }, "ok")
      | none => (d, "bad-op")
  | "throws" :: ks => match nats? ks with
      | some ks => ({ d with thr := ks }, "ok")
      | none => (d, "bad-op")
  | "x" :: t :: rest => match nat? t with
      | some t => matchEv (" ".intercalate rest) t 4 d
      | none => (d, "bad-op")
  | ["r", _, var, v] => match nat? ((var.splitOn ":").getD 1 ""), nat? v with
      | some own, some v => match d.c.o.rns[own]? with
          | some rn => if rn.wctx = v then (d, "ok") else (d, s!"mismatch: wait_context of runner {own} is {rn.wctx} in the model, {v} read")
          | none => (d, "bad-tid")
      | _, _ => (d, "bad-op")
  | ["n", t, tag] => match nat? t with
      | some t =>
        let a? : Option Act := if tag = "fn_begin" then some .begin else if tag = "task_begin" then some .take
                               else if tag = "task_end" then some .fin else none
        match a? with
        | some a =>
          let d' := d.act t a
          if d'.c == d.c then (d, s!"mismatch: {tag} by thread {t} is not enabled in the model") else (d', "ok")
        | none =>
          if tag = "call_begin" then
            match d.c.o.ths[t]? with
            | some th => if th.pc = .idle && th.calls != 0 then (d, "ok") else (d, s!"mismatch: call_begin of thread {t}")
            | none => (d, "bad-tid")
          else if tag = "call_end" then finishCall t 4 d
          else (d, "bad-op")
      | none => (d, "bad-op")
  | ["state"] =>
      let x := d.c.x
      (d, s!"{d.c.o.word.show} {d.c.o.succ} {showBool d.c.o.bad} {showBool x.xbad} {showBool x.okUnseen} {showBool x.dirty} {x.st} {x.pool} {x.exec.length}")
  | _ => (d, "bad-op")

def driverWith (k : Skel) : Proto.Driver := { σ := DSt, init := { k := k }, step := drive }

end TbbVerif.C19.Collab
