"""C13 — E-GEN translator for concurrent_priority_queue::handle_operations.

Re-extracts from the CURRENT source text (include/oneapi/tbb/concurrent_priority_queue.h):
  * the four guards of handle_operations, translated to Lean Boolean functions
        shortcutP1 / shortcutP2   `mark < data.size() && my_compare(data[0], data.back())`   (first / second pass)
        emptyP2                   `data.empty()`                                              (second pass)
        finishGuard               `mark < data.size()`                                        (final heapify)
    The model's `shortcut`, `shortcut2`, `isEmpty2`, `needHeapify` are DEFINED from them, so every theorem is
    re-checked against what the code says now (Proofs/C13/Heap.lean: shortcut_iff, shortcut2_eq, isEmpty2_iff,
    needHeapify_iff are proved modulo propositional equivalence of the atoms);
  * the statement skeleton: top-level order of the passes and, per branch, the list of actions in source order
    (locals alpha-renamed, assertions / ITT notes / comments dropped).  Props/C13.lean:generated_handler_shape checks the
    order of the passes, the set of actions of each branch and the orderings that matter (element moved before the
    status store, element moved before pop_back / reheap, push_back before SUCCEEDED, release stores) — it is
    insensitive to a reordering of independent statements, a renamed local, an added assertion.
"""
import re


class GenError(Exception):
    pass


# ---------------------------------------------------------------------------------------------------------
# source -> body of handle_operations, comments / preprocessor lines removed
# ---------------------------------------------------------------------------------------------------------
def strip_src(src):
    src = re.sub(r"//[^\n]*", "", src)
    src = re.sub(r"/\*.*?\*/", "", src, flags=re.S)
    src = re.sub(r"^\s*#[^\n]*$", "", src, flags=re.M)
    return src


def match_brace(s, i, open_ch="{", close_ch="}"):
    """index just after the bracket that closes the one at s[i]"""
    assert s[i] == open_ch
    depth = 0
    for j in range(i, len(s)):
        if s[j] == open_ch:
            depth += 1
        elif s[j] == close_ch:
            depth -= 1
            if depth == 0:
                return j + 1
    raise GenError("unbalanced %s" % open_ch)


def function_body(src, name):
    m = re.search(r"\bvoid\s+" + name + r"\s*\(([^)]*)\)\s*\{", src)
    if not m:
        raise GenError("function %s not found" % name)
    end = match_brace(src, m.end() - 1)
    return m.group(1), src[m.end():end - 1]


# ---------------------------------------------------------------------------------------------------------
# a tiny statement parser: while / if-else / try-catch / block / simple statement
# ---------------------------------------------------------------------------------------------------------
def skip_ws(s, i):
    while i < len(s) and s[i].isspace():
        i += 1
    return i


def parse_stmt(s, i):
    """-> (node, next index); node = ('while', cond, body) | ('if', cond, then, else|None) | ('try', body, handler)
    | ('block', [nodes]) | ('stmt', text)"""
    i = skip_ws(s, i)
    if i >= len(s):
        return None, i
    if s[i] == "{":
        end = match_brace(s, i)
        return ("block", parse_block(s[i + 1:end - 1])), end
    m = re.match(r"(while|if)\s*\(", s[i:])
    if m:
        p = i + m.end() - 1
        pe = match_brace(s, p, "(", ")")
        cond = " ".join(s[p + 1:pe - 1].split())
        body, j = parse_stmt(s, pe)
        if m.group(1) == "while":
            return ("while", cond, body), j
        k = skip_ws(s, j)
        if re.match(r"else\b", s[k:]):
            els, j2 = parse_stmt(s, k + 4)
            return ("if", cond, body, els), j2
        return ("if", cond, body, None), j
    if re.match(r"try\b", s[i:]):
        body, j = parse_stmt(s, i + 3)
        k = skip_ws(s, j)
        mc = re.match(r"catch\s*\(", s[k:])
        if not mc:
            raise GenError("try without catch")
        pe = match_brace(s, k + mc.end() - 1, "(", ")")
        handler, j2 = parse_stmt(s, pe)
        return ("try", body, handler), j2
    if re.match(r"do\b", s[i:]):
        raise GenError("unexpected do-loop in handle_operations")
    # simple statement up to the ';' at bracket depth 0
    depth = 0
    for j in range(i, len(s)):
        if s[j] in "([{":
            depth += 1
        elif s[j] in ")]}":
            depth -= 1
        elif s[j] == ";" and depth == 0:
            return ("stmt", " ".join(s[i:j].split())), j + 1
    raise GenError("unterminated statement: " + s[i:i + 40])


def parse_block(s):
    nodes, i = [], 0
    while True:
        n, i = parse_stmt(s, i)
        if n is None:
            return nodes
        nodes.append(n)


def as_list(node):
    if node is None:
        return []
    return node[1] if node[0] == "block" else [node]


# ---------------------------------------------------------------------------------------------------------
# guard expressions -> Lean
# ---------------------------------------------------------------------------------------------------------
TOK = re.compile(r"\s*(\d+|[A-Za-z_]\w*|&&|\|\||<=|>=|==|!=|->|[-+<>!()\[\].,])")


def tokenize(e):
    out, i = [], 0
    e = e.strip()
    while i < len(e):
        m = TOK.match(e, i)
        if not m:
            raise GenError("cannot tokenize guard at: " + e[i:i + 20])
        out.append(m.group(1))
        i = m.end()
    return out


class Guard:
    """recursive descent; nodes are (lean text, type) with type in {'bool', 'nat', 'elem'}"""

    def __init__(self, toks, cmpname="my_compare"):
        self.t, self.i, self.cmpname = toks, 0, cmpname

    def peek(self):
        return self.t[self.i] if self.i < len(self.t) else None

    def eat(self, v=None):
        x = self.peek()
        if x is None or (v is not None and x != v):
            raise GenError("guard: expected %s, got %s" % (v, x))
        self.i += 1
        return x

    def parse(self):
        n = self.p_or()
        if self.peek() is not None:
            raise GenError("guard: trailing tokens %s" % self.t[self.i:])
        return n

    def want(self, n, ty):
        if n[1] != ty:
            raise GenError("guard: %s has type %s, expected %s" % (n[0], n[1], ty))
        return n[0]

    def p_or(self):
        n = self.p_and()
        while self.peek() == "||":
            self.eat()
            r = self.p_and()
            n = ("(%s || %s)" % (self.want(n, "bool"), self.want(r, "bool")), "bool")
        return n

    def p_and(self):
        n = self.p_not()
        while self.peek() == "&&":
            self.eat()
            r = self.p_not()
            n = ("(%s && %s)" % (self.want(n, "bool"), self.want(r, "bool")), "bool")
        return n

    def p_not(self):
        if self.peek() == "!":
            self.eat()
            n = self.p_not()
            return ("(!%s)" % self.want(n, "bool"), "bool")
        return self.p_cmp()

    def p_cmp(self):
        n = self.p_sum()
        op = self.peek()
        if op in ("<", "<=", ">", ">=", "==", "!="):
            self.eat()
            r = self.p_sum()
            a, b = self.want(n, "nat"), self.want(r, "nat")
            lean = {"<": "%s < %s", "<=": "%s ≤ %s", ">": "%s > %s", ">=": "%s ≥ %s", "==": "%s = %s", "!=": "%s ≠ %s"}[op] % (a, b)
            return ("(decide (%s))" % lean, "bool")
        return n

    def p_sum(self):
        n = self.p_atom()
        while self.peek() == "+":
            self.eat()
            r = self.p_atom()
            n = ("(%s + %s)" % (self.want(n, "nat"), self.want(r, "nat")), "nat")
        if self.peek() == "-":
            raise GenError("guard: subtraction on size_t is not translated (wrap-around)")
        return n

    def p_atom(self):
        x = self.eat()
        if x == "(":
            n = self.p_or()
            self.eat(")")
            return n
        if x.isdigit():
            return (x, "nat")
        if x == "mark":
            return ("mark", "nat")
        if x == self.cmpname:
            self.eat("(")
            a = self.p_or()
            self.eat(",")
            b = self.p_or()
            self.eat(")")
            return ("(cmp %s %s)" % (self.want(a, "elem"), self.want(b, "elem")), "bool")
        if x == "data":
            nx = self.eat()
            if nx == "[":
                idx = self.p_sum()
                self.eat("]")
                return ("(dat %s)" % self.want(idx, "nat"), "elem")
            if nx == ".":
                f = self.eat()
                self.eat("(")
                self.eat(")")
                if f == "size":
                    return ("size", "nat")
                if f == "empty":
                    return ("(decide (size = 0))", "bool")
                if f == "back":
                    return ("back", "elem")
                if f == "front":
                    return ("(dat 0)", "elem")
                raise GenError("guard: unknown member data.%s()" % f)
        raise GenError("guard: unknown token %s" % x)


def guard_to_lean(cond):
    n = Guard(tokenize(cond)).parse()
    if n[1] != "bool":
        raise GenError("guard `%s` is not Boolean" % cond)
    return n[0]


# ---------------------------------------------------------------------------------------------------------
# statement classification
# ---------------------------------------------------------------------------------------------------------
IGNORED = re.compile(r"^(__TBB_ASSERT(_EX)?|call_itt_notify|suppress_unused_warning)\s*\(")


def classify(text, names):
    """canonical action tag of a simple statement, or None for an ignored one; names = {src name: canonical}"""
    t = text
    for a, b in names.items():
        t = re.sub(r"\b%s\b" % re.escape(a), b, t)
    t = re.sub(r"std\s*::\s*", "", t)
    t = re.sub(r"\s+", "", t)
    if IGNORED.match(text.strip()):
        return None
    if re.match(r"^cpq_operation\*", t):
        return None                                  # declaration of the locals
    order = lambda s: {"memory_order_release": "rel", "memory_order_relaxed": "rlx", "memory_order_seq_cst": "sc", "memory_order_acq_rel": "acqrel"}.get(s, "sc" if s is None else s)
    m = re.match(r"^TMP->status\.store\(uintptr_t\((SUCCEEDED|FAILED)\)(?:,(\w+))?\)$", t)
    if m:
        return "status=%s:%s" % (m.group(1)[0], order(m.group(2)))
    m = re.match(r"^my_size\.store\(my_size\.load\((\w+)?\)([-+])1(?:,(\w+))?\)$", t)
    if m:
        return "size%s1" % m.group(2)
    if re.match(r"^\*\(TMP->elem\)=move\(data\.back\(\)\)$", t):
        return "elem=back"
    if re.match(r"^\*\(TMP->elem\)=move\(data\[0\]\)$", t) or re.match(r"^\*\(TMP->elem\)=move\(data\.front\(\)\)$", t):
        return "elem=top"
    if t == "data.pop_back()":
        return "pop_back"
    if t == "reheap()":
        return "reheap"
    if t == "heapify()":
        return "heapify"
    if t == "TMP=OPLIST" or t == "TMP=POPLIST":
        return "take"
    if re.match(r"^OPLIST=OPLIST->next\.load\(\w*\)$", t) or re.match(r"^POPLIST=POPLIST->next\.load\(\w*\)$", t):
        return "advance"
    if re.match(r"^TMP->next\.store\(POPLIST(,\w+)?\)$", t):
        return "defer-link"
    if t == "POPLIST=TMP":
        return "defer-head"
    if t == "push_back_helper(*(TMP->elem))" or t == "data.push_back(*(TMP->elem))":
        return "push_back(copy)"
    if t == "data.push_back(move(*(TMP->elem)))" or t == "data.emplace_back(move(*(TMP->elem)))":
        return "push_back(move)"
    return "?" + t


def classify_cond(cond, names):
    t = cond
    for a, b in names.items():
        t = re.sub(r"\b%s\b" % re.escape(a), b, t)
    t = re.sub(r"\s+", "", t)
    if t == "OPLIST":
        return "while-op_list"
    if t == "POPLIST":
        return "while-pop_list"
    if t in ("TMP->type==POP_OP", "POP_OP==TMP->type"):
        return "is-pop"
    if t in ("TMP->type==PUSH_OP", "PUSH_OP==TMP->type"):
        return "is-copy-push"
    return None


def actions(nodes, names):
    """tags of the simple statements of a straight-line piece (nested try/catch flattened with markers)"""
    out = []
    for n in nodes:
        if n[0] == "stmt":
            c = classify(n[1], names)
            if c is not None:
                out.append(c)
        elif n[0] == "block":
            out += actions(n[1], names)
        elif n[0] == "try":
            out += ["try"] + actions(as_list(n[1]), names) + ["catch"] + actions(as_list(n[2]), names) + ["end-try"]
        elif n[0] == "if":
            ck = classify_cond(n[1], names)
            if ck == "is-copy-push":       # the copy / move alternative of a push: both are "push_back"
                a, b = actions(as_list(n[2]), names), actions(as_list(n[3]), names)
                if len(a) == 1 and len(b) == 1 and a[0].startswith("push_back") and b[0].startswith("push_back"):
                    out.append("push_back")
                else:
                    out.append("?if(%s){%s}else{%s}" % (n[1], ",".join(a), ",".join(b)))
            else:
                out.append("?if(%s)" % n[1])
        else:
            out.append("?" + n[0])
    return out


def translate(src_text):
    """-> dict with guards (Lean text), branch action lists, top-level order; raises GenError when the structure of
    handle_operations is not recognised"""
    src = strip_src(src_text)
    params, body = function_body(src, "handle_operations")
    pm = re.search(r"(\w+)\s*$", params.strip())
    if not pm:
        raise GenError("parameter of handle_operations not recognised: " + params)
    oplist = pm.group(1)
    nodes = parse_block(body)
    # the locals: `cpq_operation* tmp, *pop_list = nullptr;`
    names = {oplist: "OPLIST"}
    for n in nodes:
        if n[0] == "stmt":
            m = re.match(r"^cpq_operation\s*\*\s*(\w+)\s*,\s*\*\s*(\w+)\s*=\s*nullptr$", n[1])
            if m:
                names[m.group(1)] = "TMP"
                names[m.group(2)] = "POPLIST"
            m = re.match(r"^cpq_operation\s*\*\s*(\w+)\s*=\s*nullptr\s*,\s*\*\s*(\w+)$", n[1])
            if m:
                names[m.group(1)] = "POPLIST"
                names[m.group(2)] = "TMP"
    if "TMP" not in names.values() or "POPLIST" not in names.values():
        raise GenError("declaration of the two local operation pointers not recognised")
    top, loops, finish = [], {}, None
    for n in nodes:
        if n[0] == "stmt":
            c = classify(n[1], names)
            if c is not None:
                top.append(c)
        elif n[0] == "while":
            ck = classify_cond(n[1], names)
            if ck is None:
                raise GenError("loop condition not recognised: " + n[1])
            top.append(ck)
            loops[ck] = as_list(n[2])
        elif n[0] == "if":
            kids = actions(as_list(n[2]), names)
            if kids == ["heapify"] and n[3] is None:
                top.append("finish")
                finish = n[1]
            else:
                top.append("?if(%s){%s}" % (n[1], ",".join(kids)))
        else:
            top.append("?" + n[0])
    if "while-op_list" not in loops or "while-pop_list" not in loops or finish is None:
        raise GenError("the two loops and the final heapify were not all found: top level = %s" % top)
    res = {"topLevel": top, "finishGuard": guard_to_lean(finish), "finish_src": finish}
    # ---- first pass
    l1 = loops["while-op_list"]
    head1 = [x for x in actions([n for n in l1 if n[0] == "stmt"], names)]
    ifs = [n for n in l1 if n[0] == "if"]
    if len(ifs) != 1 or classify_cond(ifs[0][1], names) != "is-pop" or ifs[0][3] is None:
        raise GenError("first pass: `if (tmp->type == POP_OP) … else …` not found")
    if any(n[0] not in ("stmt", "if") for n in l1):
        raise GenError("first pass: unexpected statement kind")
    res["p1Head"] = head1
    popb = as_list(ifs[0][2])
    inner = [n for n in popb if n[0] == "if"]
    if len(inner) != 1 or inner[0][3] is None or any(classify(n[1], names) for n in popb if n[0] == "stmt"):
        raise GenError("first pass: pop branch is not a single if/else")
    res["shortcutP1"] = guard_to_lean(inner[0][1])
    res["shortcutP1_src"] = inner[0][1]
    res["p1PopShortcut"] = actions(as_list(inner[0][2]), names)
    res["p1PopDefer"] = actions(as_list(inner[0][3]), names)
    res["p1Push"] = actions(as_list(ifs[0][3]), names)
    # ---- second pass
    l2 = loops["while-pop_list"]
    res["p2Head"] = actions([n for n in l2 if n[0] == "stmt"], names)
    ifs2 = [n for n in l2 if n[0] == "if"]
    if len(ifs2) != 1 or ifs2[0][3] is None or any(n[0] not in ("stmt", "if") for n in l2):
        raise GenError("second pass: `if (data.empty()) … else …` not found")
    res["emptyP2"] = guard_to_lean(ifs2[0][1])
    res["emptyP2_src"] = ifs2[0][1]
    res["p2Empty"] = actions(as_list(ifs2[0][2]), names)
    elseb = as_list(ifs2[0][3])
    inner2 = [n for n in elseb if n[0] == "if"]
    if len(inner2) != 1 or inner2[0][3] is None or any(classify(n[1], names) for n in elseb if n[0] == "stmt"):
        raise GenError("second pass: non-empty branch is not a single if/else")
    res["shortcutP2"] = guard_to_lean(inner2[0][1])
    res["shortcutP2_src"] = inner2[0][1]
    res["p2Shortcut"] = actions(as_list(inner2[0][2]), names)
    res["p2Top"] = actions(as_list(inner2[0][3]), names)
    return res


def lean_str_list(xs):
    return "[" + ", ".join('"%s"' % x.replace("\\", "\\\\").replace('"', '\\"') for x in xs) + "]"


def lean_body(g, pop_guarded):
    """the body of Generated/C13.lean"""
    L = []
    L.append("set_option linter.unusedVariables false")
    L.append("/-- is every `*(tmp->elem) = std::move(...)` of handle_operations inside a try block whose handler stores FAILED? -/")
    L.append("def popAssignGuarded : Bool := %s\n" % ("true" if pop_guarded else "false"))
    for name, doc in (("shortcutP1", "first pass, guard of the pop that takes `data.back()`"), ("shortcutP2", "second pass, guard of the pop that takes `data.back()`")):
        L.append("/-- %s: `%s` -/" % (doc, g[name + "_src"]))
        L.append("def %s {α : Type} (cmp : α → α → Bool) (mark size : Nat) (dat : Nat → α) (back : α) : Bool :=\n  %s" % (name, g[name]))
    L.append("/-- second pass, guard of FAILED: `%s` -/" % g["emptyP2_src"])
    L.append("def emptyP2 (mark size : Nat) : Bool := %s" % g["emptyP2"])
    L.append("/-- guard of the final heapify: `%s` -/" % g["finish_src"])
    L.append("def finishGuard (mark size : Nat) : Bool := %s\n" % g["finishGuard"])
    L.append("/-! statement skeleton of handle_operations (locals alpha-renamed; assertions, ITT notes, comments dropped) -/")
    for k in ("topLevel", "p1Head", "p1PopShortcut", "p1PopDefer", "p1Push", "p2Head", "p2Empty", "p2Shortcut", "p2Top"):
        L.append("def %s : List String := %s" % (k, lean_str_list(g[k])))
    return "\n".join(L) + "\n"


# what the pinned tree gives (used as the placeholder when the translator cannot read the source at all)
FALLBACK = {
    "shortcutP1": "((decide (mark < size)) && (cmp (dat 0) back))", "shortcutP1_src": "(untranslated)",
    "shortcutP2": "((decide (mark < size)) && (cmp (dat 0) back))", "shortcutP2_src": "(untranslated)",
    "emptyP2": "(decide (size = 0))", "emptyP2_src": "(untranslated)",
    "finishGuard": "(decide (mark < size))", "finish_src": "(untranslated)",
    "topLevel": ["untranslated"], "p1Head": [], "p1PopShortcut": [], "p1PopDefer": [], "p1Push": [], "p2Head": [], "p2Empty": [],
    "p2Shortcut": [], "p2Top": [],
}
