"""C03 — event logs of the CLIENTS of the exception machinery -> action sequences of the Lean client models (validate mode).

  validate_exec   program arena_direct: every task_arena::execute call (direct or delegated, functor run by another thread or by the caller
                  itself) is replayed on ExecEH (drv_c03 c03exec): functor begin / end / throw, the catch block's accesses to exec_context
                  (relaxed load, exchange, release store of the exception), m_wait_ctx.release(), m_completed.store, the caller's exception
                  load, ~delegated_task after completion, return / rethrow on the calling thread.
  validate_graph  programs flow / flow_prio: per round the wrapper-level observations of graph::wait_for_all (which exception left, the
                  is_cancelled()/exception_thrown() flags, the context reset, reset()) are replayed on GraphEH (c03graph) over a canonical
                  DispatchEH schedule with the observed throwers (winner of the exchange first).
  validate_pipe   programs pipeline / pipeline1 (serial input filter): body begin/end/throw per (stage, item), token objects created /
                  destroyed (token_helper, identified through the interposed r1::allocate_memory), the context words, the wait's exit and the
                  white-box count of tokens parked at the exit are replayed on PipeEH (c03pipe), one model stage task per item.
Each returns (None, n_actions) or (description of the first difference, n_actions).
"""
from common import drv


class Mismatch(Exception):
    pass


def parse(evs):
    E = []
    for l in evs:
        w = l.split()
        t = int(w[0])
        if w[1] == "note":
            a = int(w[3]) if len(w) > 3 else -1
            b = int(w[4]) if len(w) > 4 else -1
            if a > (1 << 62):
                a = -1
            if b > (1 << 62):
                b = -1
            E.append((t, "note", w[2], a, b))
        else:
            E.append((t, w[1], w[2], int(w[4]), int(w[5]), w[3]))      # tid kind var a b order
    return E


def run_model(model, lines, expect):
    """lines[i] is expected to print expect[i] (None = do not compare)"""
    out = drv(model, "\n".join(lines) + "\n")
    if len(out) < len(lines):
        return "model driver stopped early (%d of %d lines)" % (len(out), len(lines))
    for k, (o, ex) in enumerate(zip(out, expect)):
        if ex is not None and o != ex:
            return "action %d `%s`: implementation did '%s', model does '%s'" % (k, lines[k], ex, o)
    return None


# ---------------------------------------------------------------------------------------------------------------------
# task_arena::execute
# ---------------------------------------------------------------------------------------------------------------------

def validate_exec(evs, skel):
    E = parse(evs)
    calls = {}          # gid -> dict
    order = []
    cur_call_of_caller = {}
    running = {}        # tid -> gid of the functor it runs
    for pos, e in enumerate(E):
        t, kind = e[0], e[1]
        if kind == "note":
            tag, a, b = e[2], e[3], e[4]
            if tag == "xbegin":
                calls[a] = {"caller": t, "runner": None, "ev": [], "out": None, "thrown": None}
                order.append(a)
                cur_call_of_caller[t] = a
            elif tag == "fbegin":
                calls[a]["runner"] = t
                running[t] = a
                calls[a]["ev"].append((pos, t, "fbegin"))
            elif tag == "fend":
                calls[a]["ev"].append((pos, t, "fend"))
            elif tag == "throw":
                g = running.get(t)
                if g is not None and calls[g]["thrown"] is None and calls[g]["runner"] == t:
                    calls[g]["thrown"] = b
                    calls[g]["ev"].append((pos, t, "throw", b))
            elif tag in ("xret", "xrethrow"):
                calls[a]["out"] = ("ret",) if tag == "xret" else ("out", b)
                calls[a]["ev"].append((pos, t, tag))
                cur_call_of_caller.pop(t, None)
                if running.get(t) == a:
                    running.pop(t)
            continue
        var = e[2]
        g = running.get(t)
        if g is not None and calls[g]["runner"] == t and var in ("cancel", "exc", "wo", "done") and kind != "load" or (g is not None and var == "cancel" and kind == "load"):
            calls[g]["ev"].append((pos, t, kind, var, e[3], e[4]))
            if var == "done" and kind == "store":
                if calls[g]["caller"] != t:
                    running.pop(t)
        gc = cur_call_of_caller.get(t)
        if gc is not None and kind == "load" and var in ("exc", "done") and e[5] == "acq":
            calls[gc]["ev"].append((pos, t, "cload", var, e[3]))
    nact = 0
    sk = " ".join(map(str, skel))
    for g in order:
        c = calls[g]
        if c["out"] is None or c["runner"] is None:
            continue            # (the run ended inside the call: the monitors report that)
        C, R = c["caller"], c["runner"]
        deleg = any(x[2] == "store" and x[3] == "done" for x in c["ev"] if len(x) > 3) or R != C
        thrown = c["thrown"]
        lines = ["init %s %s" % ("t%d" % thrown if thrown is not None else "ok", sk)]
        expect = ["init"]

        def emit(cmd, ex):
            lines.append(cmd)
            expect.append(ex)
        if not deleg:
            emit("c 0", "direct")
            emit("c 0", "fbegin 0")
            if thrown is not None:
                emit("c 0", "fend throw %d out 0 %d" % (thrown, thrown) if c["out"] == ("out", thrown) else "fend ok ret" if c["out"] == ("ret",) else "fend throw %d out 0 %d" % (c["out"][1], c["out"][1]))
            else:
                emit("c 0", "fend ok ret" if c["out"] == ("ret",) else "fend throw %d out 0 %d" % (c["out"][1], c["out"][1]))
        else:
            r = 0 if R == C else R + 10
            emit("c 1", "delegate")
            emit("c 0", "enqueue")
            state = "queued"
            left = loaded = dtor = False
            for x in c["ev"]:
                what = x[2]
                if what == "fbegin":
                    if r == 0:
                        emit("c 0", "slot")
                    emit("take %d" % r, "take %d" % r)
                    emit("run %d" % r, "check exec")
                    state = "running"
                elif what == "fend":
                    emit("run %d" % r, "fend ok")
                    state = "fin"
                elif what == "throw":
                    emit("run %d" % r, "fend throw %d" % x[3])
                    state = "caught"
                elif what == "load" and x[3] == "cancel":
                    if state == "caught":
                        emit("run %d" % r, "cload %d" % x[4])
                        state = "xchg" if x[4] == 0 else "recheck"
                    elif state == "recheck":
                        emit("run %d" % r, "check cancel" if x[4] == 1 else "check exec")
                        state = "fin"
                elif what == "xchg" and x[3] == "cancel":
                    if state != "xchg":
                        return "execute call %d: exchange on exec_context's cancellation flag outside the catch block" % g, nact
                    emit("run %d" % r, "xchg %d" % x[4])
                    state = "store" if x[4] == 0 else "recheck"
                elif what == "store" and x[3] == "exc" and x[4] != 0:
                    if state != "store":
                        return "execute call %d: exception stored into exec_context by a thread that did not win the exchange" % g, nact
                    emit("run %d" % r, "store %d" % thrown)
                    state = "recheck"
                elif what == "fadd" and x[3] == "wo":
                    emit("run %d" % r, "release %d" % x[5])
                elif what == "store" and x[3] == "done":
                    emit("run %d" % r, "notify")
                    emit("run %d" % r, "completed")
                elif what == "cload" and x[3] == "exc" and not loaded:
                    emit("c 1", "leave")
                    emit("c 0", "excload %s" % ("-" if x[4] == 0 else str(thrown)))
                    left = loaded = True
                elif what == "cload" and x[3] == "done" and x[4] == 1 and loaded and not dtor:
                    emit("c 0", "dtordt")
                    dtor = True
                elif what in ("xret", "xrethrow"):
                    if not loaded:
                        emit("c 1", "leave")
                        emit("c 0", "excload -")
                    if not dtor:
                        emit("c 0", "dtordt")
                    emit("c 0", None)
                    emit("c 0", "ret" if c["out"] == ("ret",) else "out 0 %d" % c["out"][1])
            emit("state", None)
        d = run_model("c03exec", lines, expect)
        nact += len(lines)
        if d:
            return "execute call %d (%s, functor on thread %d, caller %d): %s" % (g, "delegated" if deleg else "direct", R, C, d), nact
    return None, nact


# ---------------------------------------------------------------------------------------------------------------------
# flow graph
# ---------------------------------------------------------------------------------------------------------------------

def validate_graph(evs, skel):
    E = parse(evs)
    def fresh():
        return {"throws": [], "winner": None, "res": None, "reset": None, "pending": {}}
    cur = fresh()
    rounds = [cur]
    for e in E:
        if e[1] == "note":
            tag, a, b = e[2], e[3], e[4]
            if tag in ("gbegin", "throw") and cur["res"] is not None:       # (bodies run as soon as try_put is called: before wait_for_all)
                cur = fresh()
                rounds.append(cur)
            if tag == "throw":
                cur["pending"][e[0]] = b
                cur["throws"].append(b)
            elif tag == "gthrow":
                cur["res"] = ("throw", b // 4, b % 4)
            elif tag == "gret":
                cur["res"] = ("ret", b)
            elif tag == "greset":
                cur["reset"] = b
        elif cur["res"] is None and e[2] == "exc" and e[1] == "store" and e[3] != 0:
            if e[0] in cur["pending"]:
                cur["winner"] = cur["pending"][e[0]]
    rounds = [r for r in rounds if r["res"] is not None]
    lines = ["reset", "skel " + " ".join(map(str, skel))]
    expect = ["ok", "skel"]
    # program: per round the throwers (winner first) and one non-throwing body
    specs, rr = [], []
    for r in rounds:
        ids = []
        th = list(r["throws"])
        if r["winner"] is not None and r["winner"] in th:
            th.remove(r["winner"])
            th.insert(0, r["winner"])
        for x in th:
            ids.append(len(specs))
            specs.append("t%d" % x)
        ids.append(len(specs))
        specs.append("ok")
        rr.append(ids)
    for b in specs:
        lines.append("spec %s ok" % b)
        expect.append(None)
    for ids in rr:
        lines.append("round " + " ".join(map(str, ids)))
        expect.append(None)
    lines.append("init")
    expect.append("init")

    def emit(cmd, ex):
        lines.append(cmd)
        expect.append(ex)
    for r, ids in zip(rounds, rr):
        if r["res"] is None:
            break
        for _ in ids:
            emit("a 0 0", None)
        emit("a 0 0", "enter")
        cancelled = False
        for i in ids:
            emit("a 1 %d" % i, "take %d" % i)
            emit("a 1 0", None)          # check
            if specs[i] != "ok" and not cancelled:
                emit("a 1 0", None)      # throw
                emit("a 1 0", None)      # cload
                emit("a 1 0", None)      # xchg
                emit("a 1 0", None)      # store
                emit("a 1 0", None)      # check cancel
                cancelled = True
            elif not cancelled:
                emit("a 1 0", None)      # bodyok
            emit("a 1 0", None)          # destroy
            emit("a 1 0", None)          # fold
            emit("a 1 0", None)          # release
        emit("a 0 0", "leave")
        if r["res"][0] == "throw":
            e_id, fl = r["res"][1], r["res"][2]
            emit("a 0 0", "excload %d" % e_id if r["winner"] is not None else None)
            emit("a 0 0", "handler reset %d" % e_id)
            emit("a 0 0", "throw %d cancelled %d caught %d" % (e_id, fl & 1, (fl >> 1) & 1))
            if r["reset"] is not None:
                emit("greset", "greset 1")
                emit("state", None)
        else:
            fl = r["res"][1]
            emit("a 0 0", "excload -")
            emit("a 0 0", "readflag %d" % (fl & 1))
            emit("a 0 0", "return cancelled %d caught %d" % (fl & 1, (fl >> 1) & 1))
    d = run_model("c03graph", lines, expect)
    return (d, len(lines))


# ---------------------------------------------------------------------------------------------------------------------
# parallel_pipeline (serial input filter)
# ---------------------------------------------------------------------------------------------------------------------

def validate_pipe(evs, clears, nstages=3):
    E = parse(evs)
    # split into rounds
    rounds, cur = [], None
    for pos, e in enumerate(E):
        if e[1] == "note" and e[2] == "begin":
            cur = []
            rounds.append(cur)
        if cur is not None:
            cur.append(e)
    total = 0
    for rn, R in enumerate(rounds):
        d, n = _validate_pipe_round(R, clears, nstages)
        total += n
        if d:
            return "round %d: %s" % (rn, d), total
    return None, total


def _validate_pipe_round(R, clears, nstages):
    acts = []       # (pos, seq, cmd, expect)
    seq = [0]

    def emit(pos, cmd, ex):
        acts.append([pos, seq[0], cmd, ex])
        seq[0] += 1
        return acts[-1]
    task_of = {0: 0}            # item -> model task
    ntasks = [1]
    st = {0: {"pc": "ready", "item": 0, "stage": 0, "obj": None}}       # model task -> state
    cur = {}                    # thread -> model task it is running
    lastload = {}               # thread -> (pos, value)
    obj_of_token = {}           # harness token id -> model object index
    holder = {}                 # model object -> model task holding it
    nobjs = [0]
    cancelled = [False]
    parked_n = None
    res = None
    temp_tokens = set()

    def check(pos, t, T, expect_cancel):
        lp = lastload.get(t, (pos, 0))[0]
        emit(lp, "t %d 0" % T, "check cancel" if expect_cancel else "check exec")

    def die(pos, T, destroy=None):
        emit(pos, "t %d 0" % T, "dtor destroy %d" % destroy if destroy is not None else "dtor")
        emit(pos, "t %d 0" % T, None)       # release
        st[T]["pc"] = "dead"

    def park_task(T):
        c = st[T]["cont"]           # its last `continue` was in fact try_put_token parking it: the buffer owns the token, the task ended
        c[2], c[3] = "t %d 1" % T, "park %d" % st[T]["obj"]
        acts.append([c[0], c[1] + 0.1, "t %d 0" % T, "dtor"])
        acts.append([c[0], c[1] + 0.2, "t %d 0" % T, None])
        st[T]["pc"] = "parked"

    torn = [0]
    for pos, e in enumerate(R):
        t = e[0]
        if e[1] != "note":
            var = e[2]
            if var == "cancel" and e[1] == "load":
                lastload[t] = (pos, e[3])
                T = cur.get(t)
                if T is not None and st[T]["pc"] == "caught":
                    emit(pos, "t %d 0" % T, "cload %d" % e[3])
                    st[T]["pc"] = "xchg" if e[3] == 0 else "ready"
                    if e[3] != 0:
                        cur.pop(t)
            elif var == "cancel" and e[1] == "xchg":
                T = cur.get(t)
                if T is None or st[T]["pc"] != "xchg":
                    return "exchange on the cancellation flag outside a catch block (thread %d)" % t, len(acts)
                emit(pos, "t %d 0" % T, "xchg %d" % e[3])
                st[T]["pc"] = "store" if e[3] == 0 else "ready"
                if e[3] == 0:
                    cancelled[0] = True
                else:
                    cur.pop(t)
            elif var == "exc" and e[1] == "store" and e[3] != 0:
                T = cur.get(t)
                if T is None or st[T]["pc"] != "store":
                    return "exception stored by a thread that did not win the exchange (thread %d)" % t, len(acts)
                emit(pos, "t %d 0" % T, "store %d" % st[T]["exc"])
                st[T]["pc"] = "ready"
                cur.pop(t)
            elif var == "exc" and e[1] == "load" and e[5] == "acq" and t == 0 and res is None:
                res = ("load", pos, e[3])
            continue
        tag, a, b = e[2], e[3], e[4]
        if tag == "pb":
            stage, item = a, b
            if stage == 0:
                if item not in task_of:
                    return "input filter invoked for item %d before item %d was produced" % (item, item - 1), len(acts)
                T = task_of[item]
            else:
                T = task_of.get(item)
                if T is None:
                    return "filter %d invoked for unknown item %d" % (stage, item), len(acts)
            if st[T]["pc"] != "ready":
                return "filter %d started on item %d while its stage task is at '%s'" % (stage, item, st[T]["pc"]), len(acts)
            check(pos, t, T, False)
            emit(pos, "t %d 0" % T, "bbegin")
            st[T]["pc"] = "body"
            st[T]["stage"] = stage
            cur[t] = T
        elif tag == "pstop":
            st[cur.get(t)]["pc"] = "stopping"      # flow_control::stop(): the returned value is still copied into a temporary token, destroyed at once
        elif tag == "pe":
            T = cur.get(t)
            stage = a
            if stage == nstages - 1:
                emit(pos, "t %d 1" % T, "bend out -")
                st[T]["pc"] = "made"
            else:
                st[T]["pc"] = "wait-out"
        elif tag == "tnew":
            if b < 0 or b >= 100000:         # the temporary of a stop invocation
                temp_tokens.add(a)
                T = cur.get(t)
                if T is not None and st[T]["pc"] == "stopping":
                    emit(pos, "t %d 2" % T, "bend stop %d" % nobjs[0])
                    nobjs[0] += 1
                    die(pos, T)
                    cur.pop(t)
                continue
            T = cur.get(t)
            if T is None or st[T]["pc"] != "wait-out":
                return "token object created outside a filter invocation (thread %d)" % t, len(acts)
            o = nobjs[0]
            nobjs[0] += 1
            obj_of_token[a] = o
            emit(pos, "t %d 0" % T, "bend out %d" % o)
            st[T]["pc"] = "made"
            st[T]["out"] = o
            if st[T]["stage"] == 0:
                _post(pos, t, T, st, task_of, ntasks, emit, nstages, cur, die, holder, first=True)
        elif tag == "tdel":
            if a in temp_tokens:
                continue
            o = obj_of_token.get(a)
            if o is None:
                return "an unknown token object was destroyed", len(acts)
            T = cur.get(t)
            if T is not None and st[T]["pc"] == "made" and st[T]["obj"] == o:
                _post(pos, t, T, st, task_of, ntasks, emit, nstages, cur, die, holder, first=False)
            else:
                # destroyed by ~stage_task of a cancelled task that held it between two filters (or whose body threw)
                T2 = holder.get(o)
                if T2 is None or st[T2]["pc"] != "ready":
                    return "token object %d destroyed while no cancelled stage task holds it" % o, len(acts)
                if res is not None and st[T2].get("cont") is not None:
                    # after the waiter left the wait: the tear-down finalises a token that was parked in a buffer
                    if not clears:
                        return "token object %d destroyed after the wait although the tear-down does not clear the buffers" % o, len(acts)
                    park_task(T2)
                    torn[0] += 1
                    holder.pop(o, None)
                    continue
                check(pos, t, T2, True)
                die(pos, T2, destroy=o)
                holder.pop(o, None)
                if cur.get(t) == T2:
                    cur.pop(t)
        elif tag == "throw":
            T = cur.get(t)
            # (state wait-out: the body returned and token_helper::create_token's copy of the result threw: no output token exists, the input
            # token is still the task's my_object — for the ledger the same as a throwing body)
            if T is None or st[T]["pc"] not in ("body", "wait-out", "stopping"):
                return "exception thrown outside a filter invocation (thread %d)" % t, len(acts)
            emit(pos, "t %d %d" % (T, b + 10), "bend throw %d" % (b + 10))       # (model: ch >= 3 is the exception id)
            st[T]["pc"] = "caught"
            st[T]["exc"] = b + 10
        elif tag == "parked":
            parked_n = b
        elif tag in ("ret", "rethrow"):
            # stage tasks that never got to run any more (cancelled while ready, holding nothing) end silently just before the exit
            endpos = res[1] if res else pos
            for T in sorted(st):
                if st[T]["pc"] == "ready" and st[T]["obj"] is None:
                    emit(endpos - 0.5, "t %d 0" % T, "check cancel" if cancelled[0] else None)
                    emit(endpos - 0.5, "t %d 0" % T, None)
                    emit(endpos - 0.5, "t %d 0" % T, None)
                    st[T]["pc"] = "dead"
            # tokens still held by a task that is 'ready' here were parked in a buffer in the implementation (white-box count below)
            for T in sorted(st):
                if st[T]["pc"] == "ready" and st[T]["obj"] is not None and st[T].get("cont") is not None:
                    park_task(T)
            emit(endpos, "w", "leave")
            emit(endpos, "w", "excload %s" % ("-" if not res or res[2] == 0 else str(b + 10) if tag == "rethrow" else "?"))
            final = ("out %d" % (b + 10)) if tag == "rethrow" else "ret"
            st["_final"] = (pos, final)
    if "_final" not in st:
        return None, 0          # the run ended inside the call (the monitors report that)
    pos, final = st.pop("_final")
    nparked = sum(1 for T in st if st[T]["pc"] == "parked")
    emit(pos, "w", "teardown leaked %d" % (0 if clears else (parked_n if parked_n is not None else 0)))
    emit(pos, "w", final)
    emit(pos, "state", None)
    if clears and torn[0] != nparked:
        return "%d token(s) were parked at the exit but the tear-down destroyed %d" % (nparked, torn[0]), len(acts)
    if parked_n is not None and nparked != (parked_n if not clears else nparked):
        return "the implementation had %d token(s) parked in input buffers at the exit, the event log accounts for %d" % (parked_n, nparked), len(acts)
    acts.sort(key=lambda x: (x[0], x[1]))
    lines = ["init %d" % (1 if clears else 0)] + [a[2] for a in acts]
    expect = ["init"] + [a[3] for a in acts]
    d = run_model("c03pipe", lines, expect)
    return d, len(lines)


def _post(pos, t, T, st, task_of, ntasks, emit, nstages, cur, die, holder, first):
    """the filter invocation of task T is complete (output made, input destroyed): model steps made -> post -> what next"""
    s = st[T]
    if first:
        emit(pos, "t %d 0" % T, "destroy-in -")
        s["obj"] = s.pop("out")
        # serial input filter: try_spawn_stage_task — the next input-stage task (one model task per item)
        nxt = ntasks[0]
        emit(pos, "t %d 4" % T, "spawn %d -" % nxt)
        ntasks[0] += 1
        st[nxt] = {"pc": "ready", "item": s["item"] + 1, "stage": 0, "obj": None}
        task_of[s["item"] + 1] = nxt
    else:
        old = s["obj"]
        emit(pos, "t %d 0" % T, "destroy-in %d" % old)
        holder.pop(old, None)
        s["obj"] = s.pop("out", None)
    if s["obj"] is not None:
        holder[s["obj"]] = T
    if s["stage"] == nstages - 1:
        emit(pos, "t %d 2" % T, "end")
        die(pos, T)
    else:
        s["cont"] = emit(pos, "t %d 0" % T, "continue")
        s["pc"] = "ready"
    cur.pop(t, None)
