"""C10 — concurrent_hash_map is a linearizable map with per-element reader/writer locks (DESIGN.md §3 C10).

Ties (all against the current tree of REPO):
  E-GEN   constants of hash_map_base + the observed load-factor rule -> Generated/C10.lean (theorems are stated over them)
  E-PURE  segment / bucket index arithmetic, get_bucket placement, check_rehashing_collision, enable_segment's mask
          vs the Lean definitions
  E-SHIM  the real concurrent_hash_map under the controlled scheduler: the atomic-access log is abstracted to
          critical-section-level events (harness/c10/hm.cpp) and replayed, event by event, on the Lean model `HMap`
          (every event must be the enabled model transition, results and white-box table snapshots must agree);
          implementation-side monitors independent of the model: holder counters in the mapped value, element
          liveness, per-key linearizability of the history incl. initial/final contents, final table sanity, deadlock.
  E-SHIM (refined)  the same runs at the level of EVERY atomic access: each access to a bucket / element lock word (load, CAS,
          fetch_or/add/sub/and of the real spin_rw_mutex: values read and written, success), to my_mask / my_size / my_table and
          to a bucket's node_list (flag and head values, memory orders) is replayed on the refined Lean model `HMapR`
          (Model/C10R.lean, which instantiates C08's word-level lock model per lock); scenario families that force the
          contended-upgrade re-search, the element try-lock give-up / restart, the mask race, erase against accessor holders
          and growth across several segments; the statement skeletons of the transcribed functions are regenerated (c10gen.py)
Failing-input search: more seeds, bounded-preemption DFS, shrinking of the scenario; replay(ck, obj) re-runs a schedule."""
import json
import os
import re
import time

import c10gen
import common
from common import REPO, cxx_build, drv, gen_write, log, sh

STUBS = "harness/common/r1_stubs.cpp"
DRV = os.path.join(common.LEAN, ".lake", "build", "bin", "drv_c10")


# ---------------------------------------------------------------------------------------------------------------
# E-GEN
# ---------------------------------------------------------------------------------------------------------------
def gen(ck):
    exe = cxx_build("C10", "consts", ["harness/c10/consts.cpp", STUBS], flags=["-O0", "-fno-access-control"])
    rc, out, err = sh([exe], timeout=120)
    if rc != 0:
        raise common.BuildError("consts harness failed rc=%d %s" % (rc, err[-500:]))
    c = json.loads(out)
    ck.extra["generated_constants"] = c
    body, obl, sk = c10gen.generate(REPO)
    ck.extra["generated_skeletons"] = {k: len(v) for k, v in sk.items()}
    gen_write("C10", "".join("def %s : Nat := %d\n" % (k, v) for k, v in sorted(c.items())) + body)
    for what, ok, det in obl:
        ck.oblige("gen:" + what, "generated", ok, det)
    return c


# ---------------------------------------------------------------------------------------------------------------
# E-PURE
# ---------------------------------------------------------------------------------------------------------------
def pure(ck):
    exe = cxx_build("C10", "pure", ["harness/c10/pure.cpp", STUBS], flags=["-O1", "-g", "-fno-access-control"])
    rng = ck.rng
    quick = ck.tier == "quick"
    qs = []
    idx = list(range(0, 4096 if quick else 1 << 16))
    for k in range(1, 64):
        idx += [(1 << k) - 1, 1 << k, (1 << k) + 1]
    idx += [rng.getrandbits(rng.randrange(1, 64)) for _ in range(2000)]
    idx = [i for i in idx if i < (1 << 64)]
    qs += ["seg %d" % i for i in idx]
    qs += ["addr %d" % i for i in range(4096)]
    qs += ["grow %d" % k for k in (1, 8, 9, 10, 11, 12, 13)]
    # check_rehashing_collision: first ask the model which bucket it expects to be probed, then flag that bucket, or another one
    base = []
    for _ in range(3000 if quick else 30000):
        lm = rng.randrange(2, 13)
        lo = rng.randrange(1, lm)
        h = rng.getrandbits(rng.choice([4, 8, 12, 13, 16, 40, 64]))
        if rng.random() < 0.3:
            h &= ~((1 << lm) - 1) | ((1 << lo) - 1) | (1 << rng.randrange(lo, lm))     # a single new bit between the masks
        base.append((h, lo, lm))
    pred = drv("c10", "".join("chk %d %d %d 0\n" % q for q in base))
    for (h, lo, lm), p in zip(base, pred):
        c = int(p.split()[4]) if len(p.split()) == 5 else 0
        qs.append("chk %d %d %d %d" % (h, lo, lm, c % 4096))
        qs.append("chk %d %d %d %d" % (h, lo, lm, rng.randrange(4096)))
    text = "\n".join(qs) + "\n"
    rc, out, err = sh([exe], input=text, timeout=600)
    real = out.split("\n")[:-1]
    model = drv("c10", text)
    bad = None
    internal = None
    for i, q in enumerate(qs):
        r = real[i] if i < len(real) else "<missing>"
        m = model[i] if i < len(model) else "<missing>"
        w = q.split()
        if w[0] == "chk":
            mw = m.split()
            if len(mw) == 5 and (mw[0] != mw[2] or mw[1] != mw[3]) and internal is None:
                internal = "%s: code-shaped %s %s, level-shaped %s %s" % (q, mw[0], mw[1], mw[2], mw[3])
            m = " ".join(mw[:2])
        ck.count(1, (w[0], min(int(w[1]).bit_length(), 70), r))
        if r != m and bad is None:
            bad = "%s: implementation `%s`, model `%s`" % (q, r, m)
    ck.oblige("corr:pure index arithmetic (segment_index_of, segment_base, segment_size, get_bucket placement, enable_segment mask, "
              "check_rehashing_collision) agrees with the Lean definitions", "correspondence", rc == 0 and bad is None, bad or ("rc=%d %s" % (rc, err[-300:]) if rc else ""))
    ck.oblige("corr:code-shaped and level-shaped check_rehashing_collision agree on the sampled inputs", "correspondence", internal is None, internal or "")
    ck.extra["pure_queries"] = len(qs)
    if bad:
        ck.counterexample("pure:" + bad.split(":")[0].split()[0], "index arithmetic differs from the proved definitions: " + bad,
                          {"engine": "E-PURE", "query": bad.split(":")[0]})


# ---------------------------------------------------------------------------------------------------------------
# E-SHIM
# ---------------------------------------------------------------------------------------------------------------
def build_hm():
    return cxx_build("C10", "hm", ["harness/c10/hm.cpp", common.SHIM_SRC, STUBS], flags=["-O1", "-g", "-fno-access-control"] + common.SHIM_FLAGS)


def sc_text(sc):
    t = "hash %s %d\n" % (sc["hash"][0], sc["hash"][1])
    if sc["pre"]:
        t += "pre " + " ".join(str(k) for k in sc["pre"]) + "\n"
    for p in sc["progs"]:
        t += "prog " + " ".join(p) + "\n"
    return t


def parse_runs(out):
    runs, cur = [], None
    for l in out.split("\n"):
        if l.startswith("run "):
            cur = {"eff": [], "ev": [], "rv": [], "final": None, "mon": "", "sched": [], "h": []}
        elif cur is None:
            continue
        elif l.startswith("rv "):
            cur["rv"].append(l)
        elif l.startswith("eff "):
            cur["eff"].append(l.split()[2:])
        elif l.startswith("ev "):
            cur["ev"].append(l)
        elif l.startswith("h "):
            cur["h"].append(l)
        elif l.startswith("final"):
            cur["final"] = l
        elif l.startswith("mon "):
            cur["mon"] = l[4:].strip()
        elif l.startswith("sched"):
            cur["sched"] = l.split()[1:]
        elif l == "end":
            runs.append(cur)
            cur = None
    if cur is not None and cur["mon"]:
        runs.append(cur)
    return runs


def replay_on_model(sc, runs, check_inv=False):
    """Replays the abstract event traces of `runs` (same scenario) on the Lean model.  Returns a list with, per run,
    None (agrees) or a description of the first disagreement; and the number of tolerated (unmatched) loads."""
    lines = ["reset", "inv %d" % (1 if check_inv else 0), "hash %s %d" % (sc["hash"][0], sc["hash"][1])]
    if sc["pre"]:
        lines.append("pre " + " ".join(str(k) for k in sc["pre"]))
    lines.append("save")
    spans = []
    for r in runs:
        a = len(lines)
        lines.append("restore")
        for p in r["eff"]:
            lines.append("prog " + " ".join(p))
        e0 = len(lines)
        lines += r["ev"]
        lines += ["idle", "final"]
        spans.append((a, e0, len(lines)))
    out = drv("c10", "\n".join(lines) + "\n", timeout=1200)
    res, tol = [], 0
    for r, (a, e0, b) in zip(runs, spans):
        d = None
        for i in range(a, b):
            o = out[i] if i < len(out) else "<no output>"
            if "MISMATCH" in o or o.startswith("bad") or o == "<no output>":
                d = "event %d `%s`: %s" % (i - e0, lines[i], o)
                break
        if d is None and r["final"] is not None and out[b - 1] != r["final"]:
            d = "final contents: implementation `%s`, model `%s`" % (r["final"][:300], out[b - 1][:300])
        m = re.search(r"tolerated=(\d+)", out[b - 2]) if b - 2 < len(out) else None
        if m:
            tol += int(m.group(1))
        res.append(d)
    return res, tol


def replay_on_refined(sc, runs, check_inv=False):
    """Replays the access-level traces (`rv` lines) of `runs` on the refined Lean model HMapR.  Returns per run None or the
    first disagreement, the number of tolerated loads, and per run the set of coverage tags reported by the driver."""
    lines = ["reset", "inv %d" % (1 if check_inv else 0), "hash %s %d" % (sc["hash"][0], sc["hash"][1])]
    if sc["pre"]:
        lines.append("pre " + " ".join(str(k) for k in sc["pre"]))
    lines.append("save")
    spans = []
    for r in runs:
        a = len(lines)
        lines.append("restore")
        for p in r["eff"]:
            lines.append("prog " + " ".join(p))
        e0 = len(lines)
        lines += ["ev" + l[2:] for l in r["rv"]]
        lines += ["idle", "final"]
        spans.append((a, e0, len(lines)))
    out = drv("c10r", "\n".join(lines) + "\n", timeout=1800)
    res, tol, covs = [], 0, []
    for r, (a, e0, b) in zip(runs, spans):
        d = None
        for i in range(a, b):
            o = out[i] if i < len(out) else "<no output>"
            if "MISMATCH" in o or o.startswith("bad") or o == "<no output>":
                d = "event %d `%s`: %s" % (i - e0, lines[i], o)
                break
        if d is None and r["final"] is not None and out[b - 1] != r["final"]:
            d = "final contents: implementation `%s`, refined model `%s`" % (r["final"][:300], out[b - 1][:300])
        m = re.search(r"tolerated=(\d+) cov=(\S*)", out[b - 2]) if b - 2 < len(out) else None
        if m:
            tol += int(m.group(1))
            covs.append(set(x for x in m.group(2).split(",") if x))
        else:
            covs.append(set())
        res.append(d)
    return res, tol, covs


OPS_PLAIN = ["i", "p", "c", "e"]
OPS_ACC = ["ir", "iw", "pr", "pw", "fr", "fw", "fra", "ira", "pra"]   # ..a: the same reader-acquiring call given an `accessor` object


def gen_scenario(rng, tier):
    mode = rng.choice(["id", "id", "const", "shl", "mul", "fold"])
    par = {"id": 0, "const": rng.choice([0, 1, 7, 255, 256, (1 << 64) - 1]), "shl": rng.choice([1, 2, 4, 8, 9, 60]),
           "mul": rng.choice([256, 512, 3, 0x9E3779B97F4A7C15, 1 << 32]), "fold": rng.choice([1, 2, 3])}[mode]
    r = rng.random()
    thresholds = [255, 511] if tier == "quick" else [255, 511, 1023]
    if r < 0.45:
        pre = rng.sample(range(0, 12), rng.randrange(0, 5))
        base = 0
    else:
        th = rng.choice(thresholds)
        n = th + rng.choice([-2, -1, -1, 0])
        base = rng.choice([0, 0, 1, 256, 1000])
        pre = list(range(base, base + n))
        if rng.random() < 0.5:       # keys that collide with the universe below in the low bits
            pre = pre[:-3] + [base + n + 255, base + n + 511, base + n + 256 * 5 + 1]
    k0 = rng.choice(pre) if pre and rng.random() < 0.7 else rng.randrange(0, 8)
    uni = [k0, k0 + 256, k0 + 512, k0 + 2, k0 + 1, k0 + 768, (max(pre) + 1) if pre else 9, (max(pre) + 2) if pre else 10]
    uni = uni[: rng.randrange(2, 6)]
    T = rng.choice([2, 2, 3, 3, 4])
    progs = []
    for _ in range(T):
        p, holding = [], False
        for _ in range(rng.randrange(2, 5 if tier == "quick" else 6)):
            if holding and rng.random() < 0.6:
                op = rng.choice(["x", "r", "x"])
                holding = False
                p.append(op)
                continue
            kind = rng.choice(OPS_PLAIN + OPS_ACC + ["e", "i", "fr", "fw"])
            p.append("%s:%d" % (kind, rng.choice(uni)))
            if kind in OPS_ACC:
                holding = True
            elif kind == "e":
                holding = False
        progs.append(p)
    return {"hash": (mode, par), "pre": pre, "progs": progs}


def corpus():
    big = [259] + list(range(1, 254))          # 254 keys, 259 lives in bucket 3 until the table grows to 512 buckets
    return [
        {"hash": ("id", 0), "pre": [], "progs": [["i:5"], ["i:5"], ["iw:5", "r"]]},
        {"hash": ("id", 0), "pre": [5], "progs": [["e:5"], ["e:5"], ["fr:5", "x"]]},
        {"hash": ("id", 0), "pre": big, "progs": [["c:259", "fr:259"], ["i:600", "c:259"]]},
        {"hash": ("id", 0), "pre": [5], "progs": [["fw:5", "r"], ["e:5"], ["fr:5", "r"]]},
        {"hash": ("const", 7), "pre": [], "progs": [["i:1"], ["i:1"], ["i:2", "c:1"]]},
        {"hash": ("id", 0), "pre": [5], "progs": [["fr:5", "x"], ["fr:5", "x"], ["c:5"]]},
        {"hash": ("id", 0), "pre": [3], "progs": [["fw:7", "c:3"], ["i:7", "e:3"], ["fw:3", "x"]]},
        {"hash": ("shl", 8), "pre": [1, 2], "progs": [["i:3", "fr:1"], ["e:1", "i:1"], ["fw:2", "x", "c:3"]]},
        {"hash": ("id", 0), "pre": big, "progs": [["e:259", "i:259"], ["i:600", "fw:3", "r"], ["fr:259", "x"]]},
        {"hash": ("fold", 2), "pre": [1, 5, 9], "progs": [["iw:13", "x"], ["e:5", "c:9"], ["fr:1", "r", "i:5"]]},
    ]


BIG = [259] + list(range(1, 254))
_FILL = [k for k in range(1000, 1400) if (k & 255) != 5]
# 255 keys: the last insertion grows the table to 512 buckets; bucket 5 holds 517 -> 261 -> 5 (and 773 first with PRE_RH4),
# bucket 261 is still flagged: 261 (and 773) move there, 517 and 5 stay
PRE_RH3 = [5, 261, 517] + _FILL[:252]
PRE_RH4 = [5, 773, 261, 517] + _FILL[:251]


def families(tier):
    """Hand-written scenario families that force the paths of the lock protocol the refined model adds (fixed seeds: the
    coverage below does not depend on VERIF_SEED).  name -> (scenarios, coverage tags that the family must exhibit)"""
    return {
        "contended upgrade, re-search after the lock was dropped (lookup<insert>, internal_erase, rehash_bucket)": ([
            {"hash": ("const", 7), "pre": [], "progs": [["i:1"], ["i:2"], ["i:1"]]},
            {"hash": ("const", 7), "pre": [3], "progs": [["i:1", "e:3"], ["i:1", "c:3"], ["i:2"]]},
            {"hash": ("const", 7), "pre": [1, 2], "progs": [["e:1"], ["e:2"], ["i:3"]]},
            {"hash": ("id", 0), "pre": BIG, "progs": [["i:600", "fr:259"], ["e:3"], ["c:259", "i:515"]]},
        ], ["upgrade-slow:TbbVerif.C10.Pc.upg", "upgrade-slow:TbbVerif.C10.Pc.eUpg", "upgrade-slow:TbbVerif.C10.Pc.rhUpg",
            "research-found", "research-absent", "erase-research", "upgrade-inplace:TbbVerif.C10.Pc.upg"]),
        "element try-lock fails under the bucket lock: retry, give up, release the bucket, restart": ([
            {"hash": ("const", 7), "pre": [5], "progs": [["fw:5", "i:9", "r"], ["fw:5", "r"]]},
            {"hash": ("const", 7), "pre": [5], "progs": [["fw:5", "c:9", "i:9"], ["fr:5", "r"], ["e:9"]]},
            {"hash": ("id", 0), "pre": [5], "progs": [["fw:5", "i:261", "r"], ["fr:5", "r"]]},
        ], ["elem-try-failed", "elem-giveup-restart"]),
        "mask race: stale mask, check_mask_race / check_rehashing_collision, bucket_accessor try-lock outcomes": ([
            {"hash": ("id", 0), "pre": BIG, "progs": [["c:259", "fr:259"], ["i:600", "c:259"]]},
            {"hash": ("id", 0), "pre": BIG, "progs": [["c:259", "e:259"], ["i:600", "fr:259", "r"], ["i:515", "c:3"]]},
            {"hash": ("id", 0), "pre": BIG, "progs": [["i:771"], ["i:600", "c:771"], ["e:259"]]},
        ], ["mask-race-restart", "mask-race-not-rehashed", "mask-race-same-bucket", "mask-race-bucket-changed",
            "try-failed-still-flagged", "try-failed-unflagged", "rehash"]),
        "erase / erase-by-accessor against accessor holders": ([
            {"hash": ("id", 0), "pre": [5], "progs": [["fw:5", "r"], ["e:5"], ["fr:5", "r"]]},
            {"hash": ("id", 0), "pre": [5], "progs": [["fr:5", "x"], ["fr:5", "r"], ["fr:5", "r"]]},
            {"hash": ("id", 0), "pre": [5], "progs": [["fw:5", "x"], ["e:5"], ["fr:5", "x"]]},
            {"hash": ("id", 0), "pre": [5], "progs": [["fra:5", "x"], ["fr:5", "r"], ["fra:5", "r"]]},
            {"hash": ("id", 0), "pre": [], "progs": [["ira:5", "x"], ["fr:5", "r"], ["pra:5", "x"]]},
        ], ["erase-waits-for-accessor", "exclude-waits-for-accessor", "upgrade-inplace:TbbVerif.C10.Pc.xUpg"]),
        "erase-by-accessor with a stale mask: the table grows and the key's new bucket is rehashed between exclude()'s mask load and its bucket lock": ([
            {"hash": ("id", 0), "pre": BIG, "progs": [["fr:259", "x"], ["i:600", "c:259"]]},
            {"hash": ("id", 0), "pre": BIG, "progs": [["fw:259", "x"], ["i:600"], ["c:259", "fr:259", "r"]]},
        ], ["rehash", "upgrade-inplace:TbbVerif.C10.Pc.xUpg"]),
        "lazy rehash scan (rehash_bucket) with a contended upgrade vs erase / insert / find on the parent bucket": ([
            {"hash": ("id", 0), "pre": PRE_RH3, "progs": [["c:773"], ["e:517"]]},
            {"hash": ("id", 0), "pre": PRE_RH3, "progs": [["fr:261", "r"], ["e:517"], ["c:5"]]},
            {"hash": ("id", 0), "pre": PRE_RH3, "progs": [["i:773"], ["e:5"], ["i:1029"]]},
            {"hash": ("id", 0), "pre": PRE_RH4, "progs": [["c:1285"], ["e:517", "i:517"], ["fr:5", "x"]]},
        ], ["upgrade-slow:TbbVerif.C10.Pc.rhUpg", "rehash-rescan-after-contended-upgrade", "upgrade-inplace:TbbVerif.C10.Pc.rhUpg"]),
        "growth across several segments (two mask publications in one run)": ([
            {"hash": ("id", 0), "pre": list(range(0, 250)),
             "progs": [["i:%d" % k for k in range(1000, 1135)], ["i:%d" % k for k in range(2000, 2135)]]},
        ] + ([] if tier == "quick" else [
            {"hash": ("mul", 3), "pre": list(range(0, 250)),
             "progs": [["i:%d" % k for k in range(1000, 1095)], ["p:%d" % k for k in range(2000, 2095)], ["i:%d" % k for k in range(3000, 3095)]]}]),
           ["growth-twice", "rehash-recursive"]),
    }


def classify(mon):
    m = mon.lower()
    if "deadlock" in m:
        return "deadlock"
    if "crash" in m:
        return "crash"
    if "not linearizable" in m:
        return "not-linearizable"
    if "destroyed" in m:
        return "element-destroyed-under-accessor"
    if "accessor" in m:
        return "accessor-exclusion"
    if "key" in m or "size()" in m:
        return "final-contents"
    return "monitor"


def run_rand(exe, sc, seed, n, timeout=600, mode="rand"):
    """mode "rand": seeded random schedules; "guided": random + state-guided preemptions (after a rehash-scan step / after a
    search found its node the running thread is preempted in favour of another one, see GuidedSchedule in hm.cpp)"""
    rc, out, err = sh([exe, mode, str(seed), str(n)], input=sc_text(sc), timeout=timeout)
    runs = parse_runs(out)
    if rc not in (0, 1, 3, 4):
        runs.append({"eff": [], "ev": [], "final": None, "mon": "VIOLATION crash: harness rc=%d %s" % (rc, err[-200:].replace("\n", " ")), "sched": [], "h": []})
    return rc, runs


def run_dfs(exe, sc, bound, maxruns, timeout=1500):
    rc, out, err = sh([exe, "dfs", str(bound), str(maxruns)], input=sc_text(sc), timeout=timeout)
    m = re.search(r"summary runs=(\d+) bad=(\d+)", out)
    n = int(m.group(1)) if m else 0
    runs = parse_runs(out)
    bad = [r for r in runs if r["mon"] != "ok"]
    if rc not in (0, 1, 3, 4) and not bad:
        bad.append({"eff": [], "ev": [], "final": None, "mon": "VIOLATION crash: harness rc=%d %s" % (rc, err[-200:].replace("\n", " ")), "sched": [], "h": []})
    return n, bad


def sc_size(sc):
    return (sum(len(p) for p in sc["progs"]) * 1000 + len(sc["pre"]), len(sc["progs"]))


def find_failure(exe, sc, budget_s, seeds=6, nrand=150, dfs_runs=6000):
    """Looks for a schedule of scenario `sc` on which an implementation-side monitor fails."""
    t0 = time.time()
    for s in range(seeds):
        for mode in ("guided", "rand"):
            rc, runs = run_rand(exe, sc, 7000 + s, nrand, mode=mode)
            bad = [r for r in runs if r["mon"] != "ok"]
            if bad:
                return bad[0]
        if time.time() - t0 > budget_s:
            return None
    for bound in (2, 3):
        n, bad = run_dfs(exe, sc, bound, dfs_runs)
        if bad:
            return bad[0]
        if time.time() - t0 > budget_s:
            return None
    return None


def shrink(exe, sc, run, budget_s):
    """Greedy scenario minimisation: drop operations / threads / pre-populated keys while some schedule still fails."""
    t0 = time.time()
    best, best_run = sc, run
    improved = True
    while improved and time.time() - t0 < budget_s:
        improved = False
        cands = []
        for ti, p in enumerate(best["progs"]):
            for oi in range(len(p)):
                q = [list(x) for x in best["progs"]]
                del q[ti][oi]
                q = [x for x in q if x]
                if len(q) >= 1:
                    cands.append({"hash": best["hash"], "pre": best["pre"], "progs": q})
        if 0 < len(best["pre"]) <= 12:
            for i in range(len(best["pre"])):
                cands.append({"hash": best["hash"], "pre": best["pre"][:i] + best["pre"][i + 1:], "progs": best["progs"]})
        for c in cands:
            if time.time() - t0 > budget_s:
                break
            r = find_failure(exe, c, 8, seeds=2, nrand=100, dfs_runs=3000)
            if r is not None:
                best, best_run = c, r
                improved = True
                break
    return best, best_run


def report(ck, sc, r, why):
    cls = classify(r["mon"])
    kinds = ",".join(sorted(set(o.split(":")[0] for p in sc["progs"] for o in p)))
    key = "%s:%s:%s" % (cls, sc["hash"][0], kinds)
    ck.counterexample(key, "%s — %s | scenario hash=%s pre=%s progs=%s | schedule %s" % (
        r["mon"], why, sc["hash"], sc["pre"] if len(sc["pre"]) < 16 else "%d keys" % len(sc["pre"]), sc["progs"], " ".join(r["sched"])),
        {"engine": "E-SHIM", "scenario": sc, "schedule": r["sched"], "monitor": r["mon"], "history": r.get("h", [])[:60],
         "trace_tail": r.get("ev", [])[-60:], "access_trace_tail": r.get("rv", [])[-80:]})


def replay_both(sc, ok_runs, inv_small, k_big):
    """abstract (critical-section level, HMap) and access-level (HMapR) replay of the same runs -> ([(run, diff)], tolerated, covs)"""
    out, tol, covs = [], 0, []
    for fn, tag in ((replay_on_model, "HMap"), (replay_on_refined, "HMapR")):
        try:
            if len(sc["pre"]) < 100 or os.environ.get("C10_INV") == "1":
                r = fn(sc, ok_runs, check_inv=inv_small)
                res, tl, cv = r[0], r[1], (r[2] if len(r) > 2 else None)
            else:
                # large tables: evaluating the invariants on every state is expensive; do it for a few runs per scenario
                r1 = fn(sc, ok_runs[:k_big], check_inv=True) if k_big else ([], 0, [])
                r2 = fn(sc, ok_runs[k_big:], check_inv=False)
                res, tl = r1[0] + r2[0], r1[1] + r2[1]
                cv = (r1[2] + r2[2]) if len(r2) > 2 else None
        except common.BuildError as e:
            res, tl, cv = ["model driver failed: %s" % str(e)[-300:]] * len(ok_runs), 0, None
        tol += tl
        if cv is not None:
            covs = cv
        for r, d in zip(ok_runs, res):
            if d:
                out.append((r, "%s: %s" % (tag, d)))
    return out, tol, covs


def shim(ck):
    exe = build_hm()
    quick = ck.tier == "quick"
    rng = ck.rng
    scs = corpus() + [gen_scenario(rng, ck.tier) for _ in range(110 if quick else 250)]
    nrand = 10 if quick else 14
    bad_corr, bad_mon = [], []
    nruns = tol = 0
    nev = 0
    cov_all = {}
    t0 = time.time()
    for si, sc in enumerate(scs):
        rc, runs = run_rand(exe, sc, ck.seed * 100003 + si, nrand - nrand // 3)
        rc2, runs2 = run_rand(exe, sc, ck.seed * 100003 + si, nrand // 3, mode="guided")
        runs = runs + runs2
        ok_runs = [r for r in runs if r["ev"] and "DEADLOCK" not in r["mon"] and "crash" not in r["mon"] and len(r["rv"]) < 60000]
        diffs, tl, covs = replay_both(sc, ok_runs, True, 0 if (quick or si >= 80) else 1)
        tol += tl
        for c in covs:
            for x in c:
                cov_all[x] = cov_all.get(x, 0) + 1
        for r in ok_runs:
            nruns += 1
            nev += len(r["rv"])
            ck.traces_validated += 1
            labels = tuple(sorted(set(e.split()[2] for e in r["ev"])))
            ck.count(1, (sc["hash"][0], len(sc["progs"]), len(sc["pre"]) > 100, labels, tuple(h.split()[2] + h.split()[4] for h in r["h"])))
        for r, d in diffs:
            if r["mon"] == "ok" or ("DEADLOCK" not in r["mon"] and "crash" not in r["mon"]):
                bad_corr.append((sc, r, d))
        for r in runs:
            if r["mon"] != "ok":
                bad_mon.append((sc, r))
        if si < 3 and ok_runs:
            ck.sample({"scenario": sc if len(sc["pre"]) < 20 else dict(sc, pre="%d keys" % len(sc["pre"])), "effective": ok_runs[0]["eff"],
                       "trace_head": ok_runs[0]["ev"][:25], "access_trace_head": ok_runs[0]["rv"][:40], "history": ok_runs[0]["h"],
                       "final": ok_runs[0]["final"]})
    t_rand = time.time() - t0
    # scenario families that force the paths of the lock protocol (fixed seeds), with coverage accounting
    t0 = time.time()
    fam_cov, fam_missing, fam_runs = {}, [], 0
    for name, (fscs, want) in families(ck.tier).items():
        got = {}
        big = any(len(sc["progs"][0]) > 50 for sc in fscs)
        rounds = 1
        while True:
            for fi, sc in enumerate(fscs):
                n = (2 if quick else 4) if big else (40 if quick else 100)
                rc, runs = run_rand(exe, sc, 4242 + 1000 * rounds + fi, n - n // 3)
                if not big:
                    rc2, runs2 = run_rand(exe, sc, 4242 + 1000 * rounds + fi, n // 3, mode="guided")
                    runs = runs + runs2
                ok_runs = [r for r in runs if r["ev"] and "DEADLOCK" not in r["mon"] and "crash" not in r["mon"] and len(r["rv"]) < 60000]
                diffs, tl, covs = replay_both(sc, ok_runs, rounds == 1, 0)
                tol += tl
                for r, c in zip(ok_runs, covs):
                    fam_runs += 1
                    ck.traces_validated += 1
                    nev += len(r["rv"])
                    if sum(1 for l in r["rv"] if " stmask " in l) >= 2:
                        c = set(c) | {"growth-twice"}
                    for x in c:
                        got[x] = got.get(x, 0) + 1
                    ck.count(1, ("family", name[:20], tuple(sorted(c))))
                for r, d in diffs:
                    if r["mon"] == "ok" or ("DEADLOCK" not in r["mon"] and "crash" not in r["mon"]):
                        bad_corr.append((sc, r, d))
                for r in runs:
                    if r["mon"] != "ok":
                        bad_mon.append((sc, r))
            miss = [w for w in want if not got.get(w)]
            if not miss or rounds >= 4 or bad_corr or bad_mon:
                break
            rounds += 1                      # a path not yet seen: more schedules before saying the family no longer reaches it
        fam_cov[name] = {w: got.get(w, 0) for w in want}
        for w in miss:
            fam_missing.append("%s: `%s`" % (name, w))
        for x, v in got.items():
            cov_all[x] = cov_all.get(x, 0) + v
    t_fam = time.time() - t0
    # bounded-preemption exhaustive exploration of the hand-written scenarios (implementation-side monitors only)
    dfs_total = 0
    t0 = time.time()
    fam_dfs = [sc for (fscs, _) in families(ck.tier).values() for sc in (fscs[:1] if quick else fscs) if len(sc["progs"][0]) < 50]
    dfs_scs = corpus() + [sc for sc in fam_dfs if sc not in corpus()]
    for sc in dfs_scs:
        n, bad = run_dfs(exe, sc, 2 if quick else 3, (2500 if sc in corpus() else 600) if quick else (40000 if sc in corpus() else 10000))
        dfs_total += n
        for r in bad:
            bad_mon.append((sc, r))
    t_dfs = time.time() - t0
    ck.evaluations += dfs_total
    ck.extra["schedules"] = {"scenarios": len(scs), "random_runs_replayed_on_both_models": nruns, "family_runs_replayed_on_both_models": fam_runs,
                             "accesses_replayed_on_HMapR": nev, "dfs_runs_monitored": dfs_total,
                             "tolerated_unmatched_loads": tol, "rand_s": round(t_rand, 1), "families_s": round(t_fam, 1), "dfs_s": round(t_dfs, 1)}
    ck.extra["family_coverage"] = fam_cov
    ck.extra["path_coverage_all_runs"] = dict(sorted(cov_all.items()))
    hm = [x for x in bad_corr if x[2].startswith("HMap:")]
    hr = [x for x in bad_corr if x[2].startswith("HMapR:")]

    def det(lst):
        return "" if not lst else "%s | hash=%s pre=%s progs=%s | sched %s" % (
            lst[0][2], lst[0][0]["hash"], lst[0][0]["pre"][:12], [p[:8] for p in lst[0][0]["progs"]], " ".join(lst[0][1]["sched"][:4000]))
    ck.oblige("corr:critical-section event trace of the real concurrent_hash_map replays on HMap (every event an enabled model transition, "
              "same results, same table snapshots, same final contents)", "correspondence", not hm, det(hm))
    ck.oblige("corr:access-level trace of the real concurrent_hash_map with the real spin_rw_mutex replays on HMapR (every lock-word access of "
              "bucket and element mutexes with values read/written, node_list flag/head values, my_mask, my_size, my_table accesses, memory orders "
              "of the publishing accesses, results, snapshots, final contents; coupling invariant evaluated on the replayed states)",
              "correspondence", not hr, det(hr))
    ck.oblige("cover:the scenario families reach the lock-protocol paths they are written for (contended upgrade with re-search, element "
              "try-lock failure / give-up / restart, mask race and rehash collision, erase against accessor holders, growth across segments)",
              "correspondence", not fam_missing or bool(bad_corr) or bool(bad_mon), "; ".join(fam_missing))
    ck.oblige("monitor:accessor exclusion, element liveness, per-key linearizability incl. initial/final contents, no key lost or duplicated, "
              "no deadlock, no fault (random schedules + bounded-preemption DFS)", "correspondence", not bad_mon,
              "" if not bad_mon else "%s | hash=%s pre=%s progs=%s" % (bad_mon[0][1]["mon"][:600], bad_mon[0][0]["hash"], bad_mon[0][0]["pre"][:12], [p[:8] for p in bad_mon[0][0]["progs"]]))
    return exe, scs, bad_corr, bad_mon


def search(ck, exe, scs, bad_corr, bad_mon, lean_ok):
    """Layer 3: a concrete schedule on which the PROPERTY fails on the implementation."""
    budget = 120 if ck.tier == "quick" else 900
    t0 = time.time()
    if bad_mon:
        bad_mon.sort(key=lambda x: sc_size(x[0]))
        sc, r = bad_mon[0]
        if r["sched"] and "crash: harness" not in r["mon"]:
            sc2, r2 = shrink(exe, sc, r, min(60, budget))
            report(ck, sc2, r2, "implementation-side monitor")
        else:
            report(ck, sc, r, "implementation-side monitor")
        return
    cands = [sc for (sc, _, _) in bad_corr]
    cands.sort(key=sc_size)
    seen = []
    for sc in cands[:6] + corpus():
        if sc in seen:
            continue
        seen.append(sc)
        if time.time() - t0 > budget:
            break
        r = find_failure(exe, sc, 25, seeds=8, nrand=200, dfs_runs=20000 if ck.tier == "quick" else 200000)
        if r is not None:
            sc2, r2 = shrink(exe, sc, r, 40)
            report(ck, sc2, r2, "found by the failing-input search after the model correspondence broke")
            return
    log("search: no schedule found on which the property fails (%.0fs)" % (time.time() - t0))


def run(ck):
    ck.rule = ("E-SHIM: 10 hand-written contention scenarios + seeded random scenarios (2-4 threads x 2-5 ops of insert/emplace/find/count/"
               "erase/erase-by-accessor/release with no/const/writer accessors; key universes colliding in the low hash bits (k, k+2, k+256, "
               "k+512...); hashers identity / constant / shift-left / multiplicative / fold; pre-population 0-4 keys or sizes straddling the "
               "growth thresholds 255/511(/1023)), each under seeded random AND state-guided schedules (a thread is preempted right after a "
               "rehash-scan step / after its search found its node, in favour of another thread that then runs on), replayed on BOTH Lean "
               "models: critical-section events on HMap, every atomic access (lock words with values, node_list, my_mask, my_size, my_table) on "
               "HMapR; seven hand-written scenario families with fixed seeds and path-coverage accounting (contended upgrade + re-search for "
               "lookup<insert> / internal_erase / rehash_bucket, element try-lock failure + give-up + restart, mask race / rehash collision / "
               "bucket_accessor try-lock outcomes, erase and erase-by-accessor against accessor holders, lazy rehash scan vs erase/insert/find on "
               "the parent bucket under a contended upgrade, growth across two segments in one run); bounded-preemption DFS of the hand-written "
               "and family scenarios with the implementation-side monitors.  E-PURE: all indices < 4096, 2^k-1/2^k/2^k+1, random 64-bit; "
               "check_rehashing_collision on random (h, old mask, new mask, flagged bucket).  distinct = (hasher, #threads, big table?, event "
               "kinds seen, op kinds+results) classes, resp. (family, paths taken)")
    ck.assumptions += [
        "the lock abstraction of HMap is discharged: HMapR (Model/C10R.lean) carries, per bucket and per element, the state word and the per-thread "
        "protocol state of C08's word-level spin_rw_mutex model and steps it with C08.step (instantiated, nothing about the mutex assumed); "
        "Proofs/C10/R*.lean prove the coupling invariant (C08.Inv of every word; specification lock = C08 phases; no API misuse; flagged buckets) "
        "for all reachable states, any number of threads / programs / schedules / hash function, and that HMapR refines HMap step by step, so "
        "every HMap theorem holds for HMapR",
        "proved: key_home, rehash split (also after a contended upgrade: hmap_rehash_restart), lookup_finds, linearizability with named "
        "linearization points, one-winner corollaries, accessor exclusion and safe deletion (hmap_erase_waits_for_accessors at word level), "
        "bucket-lock exclusion, growth election, upgrade re-search, mask-race safety of negative results, exactness of my_size, lock order "
        "(Props/C10.lean; one _partial: hmap_no_deadlock_lock_order_partial proves the lock order / no cyclic wait across different locks, "
        "the progress of several threads blocked on ONE word is C08's no-lost-grant and is covered here by the E-SHIM deadlock monitor); "
        "sequentially consistent interleavings (the shim serialises accesses; release/acquire visibility of node contents is not modelled, "
        "the memory orders of the publishing accesses are compared with the required ones on every replayed access)",
        "the code under a bucket lock between two atomic accesses (chain search, unlink, the node moves of rehash_bucket) is one model step; "
        "node_list head values read/written under the lock are compared with the model chain at reader loads and at the writer's release",
        "the inductive invariants used by the proofs (Proofs/C10/Inv.lean, Inv2.lean; coupling: Proofs/C10/RInv.lean) are additionally evaluated by "
        "the model drivers on every state of the replayed traces for small tables, and for a sample of the runs on large tables in the thorough tier",
        "the correspondence model <-> implementation is sampled (explored scenarios and schedules), not proved; statement skeletons of the "
        "transcribed functions are regenerated and pinned (generated_lock_skeletons), so an edit of their bodies is flagged even when no "
        "explored schedule exhibits a difference",
        "the call of a lock operation is a separate, purely local model step (it records the operation in the thread's own slot)",
        "not modelled: rehash(), clear(), swap, copy/move, iterators and ranges (not concurrency-safe by contract), internal_fast_find, "
        "allocation failure / exceptions, the mapped value's own thread safety, backoff timing (the number of element try-lock retries before "
        "the give-up is a free choice of the schedule in the model), rtm / other MutexType instantiations",
        "values are immutable in the model (the mapped value is only used for the holder bookkeeping of the monitors)",
        "weak CAS never fails spuriously under the shim"]
    ck.trusted += ["harness/shim (atomic shim + baton scheduler)", "harness/c10/hm.cpp: canonicalisation of the atomic-access log (which address is which "
                   "lock word / node_list / table word, node ids by linking order), abstraction to critical-section events for HMap, guided "
                   "schedule, holder / liveness / linearizability monitors",
                   "harness/c10/pure.cpp, harness/c10/consts.cpp, checks/c10gen.py (statement skeletons)",
                   "trace replay in checks/c10.py + Model/C10.lean, Model/C10RD.lean drivers (sampled correspondence; `compact` / `compactR` "
                   "materialise function-valued state, extensionally the identity)"]
    c = gen(ck)
    ck.oblige("gen:load-factor rule observed on the real table (growth when size reaches the mask; masks 2^firstBlock-1, then doubling)", "generated",
              c["growAt0"] == c["initialMask"] and c["growAt1"] == c["maskAfter0"] and c["growAt2"] == c["maskAfter1"],
              "grow at sizes %s, masks after %s" % ([c["growAt0"], c["growAt1"], c["growAt2"]], [c["maskAfter0"], c["maskAfter1"], c["maskAfter2"]]))
    lean_ok = ck.lean_stage()
    if not os.path.exists(DRV):
        ck.oblige("corr:model driver available", "correspondence", False, "drv_c10 was not built")
        return
    pure(ck)
    exe, scs, bad_corr, bad_mon = shim(ck)
    if bad_corr or bad_mon or not lean_ok:
        search(ck, exe, scs, bad_corr, bad_mon, lean_ok)


def replay(ck, obj):
    r = obj["replay"]
    if r.get("engine") == "E-PURE":
        exe = cxx_build("C10", "pure", ["harness/c10/pure.cpp", STUBS], flags=["-O1", "-g", "-fno-access-control"])
        rc, out, err = sh([exe], input=r["query"] + "\n", timeout=60)
        model = drv("c10", r["query"] + "\n")
        print("query %s: implementation `%s`, model `%s`" % (r["query"], out.strip(), model[0] if model else ""))
        mw = " ".join(model[0].split()[:2]) if r["query"].startswith("chk") else (model[0] if model else "")
        return 0 if out.strip() == mw else 1
    exe = build_hm()
    sc = r["scenario"]
    sc["hash"] = tuple(sc["hash"])
    rc, out, err = sh([exe, "replay", ",".join(r["schedule"])], input=sc_text(sc), timeout=300)
    runs = parse_runs(out)
    for x in runs:
        print("monitor: %s" % x["mon"])
        for h in x["h"]:
            print("  " + h)
    print("scenario: %s" % sc_text(sc).replace("\n", " | "))
    print(err[-500:])
    return 0 if rc == 0 else 1
