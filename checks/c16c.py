"""C16, third part (imported by checks/c16.py): isolation as a stack discipline, resume stream / bypass / critical displacement,
worker admission (my_references) life cycle.

  E-GEN   the *statement skeleton* of r1::isolate_within_arena (what `previous_isolation` is initialised with, whether the body
          lambda assigns it from set_isolation's result, how the completion lambda captures it, on which paths the guard runs),
          set_isolation, nested_arena_context (isolation reset / restore), the initial isolation of a task_dispatcher, the tag of a
          resume task, the (absent) isolation argument of the resume stream, the order re-spawn / `ed.isolation =` in
          get_critical_task, the bypass loop, execute_and_wait's tag, try_join / is_recall_requested / on_thread_leaving
          -> Generated/C16.lean (theorems isolation_restored_on_exit, isolation_respected_nested, ... are stated over them)
  E-PURE  "nest" puppet (harness/c16/rt.cpp `nest`): op sequences on a real arena with REAL nested isolate_within_arena and
          task_arena::execute calls kept open by a recursive interpreter (tags are real stack addresses: re-use happens), throwing
          bodies, extra dispatchers, resume stream, critical displacement, bypass  ==  Nest machine (Driver c16nest), plus an
          implementation-side monitor (restore on exit, tag filter, region filter with liveness)
"""
import os
import re

from common import BuildError, REPO
import c16b
from c16b import GenError, body_of, one, src, norm, translate, LEAN_TY

FINDING_TAG_REUSE = "isolation-tag-reuse-foreign-task-in-later-region"


# ---------------------------------------------------------------------------------------------------------
# E-GEN
# ---------------------------------------------------------------------------------------------------------
def strip_block(text, head):
    """remove `head{...}` (balanced) from text; returns (remainder, block body) or raises"""
    i = text.find(head)
    if i < 0:
        raise GenError("`%s` not found" % head)
    j = i + len(head) - 1            # head ends with '{'
    depth, k = 0, j
    while k < len(text):
        if text[k] == "{":
            depth += 1
        elif text[k] == "}":
            depth -= 1
            if depth == 0:
                return text[:i] + text[k + 1:], text[j + 1:k]
        k += 1
    raise GenError("unbalanced block after `%s`" % head)


def x_isolate():
    """-> ({name: C++ expression}, {name: bool})"""
    iw = body_of("src/tbb/arena.cpp", r"void isolate_within_arena\s*\([^)]*\)\s*\{")
    ex, fl = {}, {}
    if "task_dispatcher*dispatcher=tls->my_task_dispatcher;" not in iw:
        raise GenError("isolate_within_arena: `dispatcher` is no longer the calling thread's task dispatcher")
    ex["isoPrevInit"] = one(r"isolation_type previous_isolation=([^;]+);", iw, "isolate_within_arena: `isolation_type previous_isolation = ...;`")
    m = re.search(r"try_call\(\[&\]\{([^{}]*)\}\)\.(on_completion|on_exception)\(\[([^\]]*)\]\{([^{}]*)\}\);\}$", iw)
    if not m:
        raise GenError("isolate_within_arena: `try_call([&] { BODY }).on_completion([CAPTURE] { RESTORE });` not recognised")
    body, kind, cap, comp = m.groups()
    if iw.index("isolation_type previous_isolation=") > m.start():
        raise GenError("isolate_within_arena: previous_isolation is declared after the try_call")
    ms = re.search(r"(previous_isolation=)?dispatcher->set_isolation\(current_isolation\);", body)
    if not ms or "d();" not in body or body.index("d();") < ms.start():
        raise GenError("isolate_within_arena: body `... set_isolation(current_isolation); d();` not recognised")
    fl["isoBodyAssignsPrev"] = bool(ms.group(1))
    items = [c.strip() for c in cap.split(",") if c.strip()]
    byval = "previous_isolation" in items or ("=" in items and "&previous_isolation" not in items)
    byref = "&previous_isolation" in items or ("&" in items and "previous_isolation" not in items)
    if byval == byref:
        raise GenError("isolate_within_arena: capture list `[%s]` of the completion lambda not understood" % cap)
    fl["isoCompletionByRef"] = byref
    mr = re.fullmatch(r"(?:__TBB_ASSERT\([^;]*\);)?dispatcher->set_isolation\(([^()]+?)\);", comp)
    if not mr:
        raise GenError("isolate_within_arena: completion lambda is not `dispatcher->set_isolation(X);`")
    ex["isolateRestore"] = mr.group(1)
    # the semantics of try_call(..).on_completion / on_exception (a raii guard built before the body runs)
    th = src("include/oneapi/tbb/detail/_template_helpers.h")
    thn = norm(th)
    if "template<typename OnCompletionBody>void on_completion(OnCompletionBody on_completion_body){auto guard=make_raii_guard(on_completion_body);body();}" not in thn \
            or "~raii_guard(){if(is_active){my_func();}}" not in thn:
        raise GenError("_template_helpers.h: try_call_proxy::on_completion / raii_guard no longer `guard; body();` / `if (is_active) my_func();`")
    restore_in_body = bool(re.search(r"d\(\);dispatcher->set_isolation\(previous_isolation\);", body))
    fl["isoRestoreOnThrow"] = True
    fl["isoRestoreOnReturn"] = kind == "on_completion" or restore_in_body
    sc = norm(src("src/tbb/scheduler_common.h"))
    if "isolation_type set_isolation(isolation_type isolation){isolation_type prev=m_execute_data_ext.isolation;m_execute_data_ext.isolation=isolation;return prev;}" not in sc:
        raise GenError("task_dispatcher::set_isolation is no longer `prev = word; word = isolation; return prev;`")
    return ex, fl


def x_nested_arena():
    ex = {}
    s = src("src/tbb/arena.cpp")
    mh = re.search(r"nested_arena_context\s*\(thread_data&\s*td,[^)]*\)\s*:([^{]*)\{", s)
    if not mh or norm(mh.group(1)) != "m_orig_execute_data_ext(td.my_task_dispatcher->m_execute_data_ext)":
        raise GenError("nested_arena_context: the constructor no longer saves td.my_task_dispatcher->m_execute_data_ext in m_orig_execute_data_ext")
    nc = body_of("src/tbb/arena.cpp", r"nested_arena_context\s*\(thread_data&\s*td,[^)]*\)\s*:[^{]*\{")
    rest, _ = strip_block(nc, "if(td.my_arena!=&nested_arena){")
    if "execution_data_ext&ed_ext=td.my_task_dispatcher->m_execute_data_ext;" not in rest:
        raise GenError("nested_arena_context: `ed_ext` is not the current dispatcher's execute data")
    iso = one(r"ed_ext\.isolation=([^;]+);", rest, "nested_arena_context: unconditional `ed_ext.isolation = ...;`")
    nd = body_of("src/tbb/arena.cpp", r"~nested_arena_context\s*\(\s*\)\s*\{")
    rest, _ = strip_block(nd, "if(m_orig_arena){")
    if not rest.endswith("td.my_task_dispatcher->m_execute_data_ext=m_orig_execute_data_ext;}"):
        raise GenError("~nested_arena_context: the execute data are no longer restored unconditionally at the end")
    ex["nestedArenaIso"] = iso
    return ex, {}


def x_base():
    sc = norm(src("src/tbb/scheduler_common.h"))
    mb = re.search(r"struct execution_data_ext:d1::execution_data\{(?:[^{}]|\{[^{}]*\})*?isolation_type isolation\{(\d*)\};", sc)
    if not mb:
        raise GenError("execution_data_ext: `isolation_type isolation{};` not recognised")
    ctor = body_of("src/tbb/task_dispatcher.h", r"inline task_dispatcher::task_dispatcher\s*\(arena\*\s*a\)\s*\{")
    if "isolation" in ctor:
        raise GenError("task_dispatcher::task_dispatcher now touches the isolation word")
    return {"baseIso": mb.group(1) or "0"}, {}


def x_resume():
    ex, fl = {}, {}
    sp = body_of("src/tbb/task_dispatcher.h", r"inline suspend_point_type::suspend_point_type\s*\([^)]*\)\s*:[^{]*\{")
    ex["resumeTag"] = one(r"task_accessor::isolation\(m_resume_task\)=([^;]+);", sp, "suspend_point_type: isolation(m_resume_task) = ...")
    rs = body_of("src/tbb/task_dispatcher.h", r"d1::task\*\s*task_dispatcher::receive_or_steal_task\s*\([^)]*\)\s*\{")
    if "get_stream_or_critical_task(ed,a,resume_stream,resume_hint,isolation,critical_allowed)" not in rs:
        raise GenError("receive_or_steal_task: the resume stream is no longer read through get_stream_or_critical_task")
    gs = body_of("src/tbb/task_dispatcher.h", r"inline d1::task\*\s*task_dispatcher::get_stream_or_critical_task\s*\([^)]*\)\s*\{")
    gt = body_of("src/tbb/arena.h", r"inline d1::task\*\s*arena::get_stream_task\s*\([^)]*\)\s*\{")
    if not gs.endswith("return a.get_stream_task(stream,hint);}") or gt != "{if(stream.empty())return nullptr;return stream.pop(subsequent_lane_selector(hint));}":
        raise GenError("get_stream_or_critical_task / arena::get_stream_task: no longer an unfiltered pop")
    fl["resumeFiltered"] = False
    rt = body_of("src/tbb/task_dispatcher.h", r"inline d1::task\*\s*suspend_point_type::resume_task::execute\s*\(d1::execution_data&\s*ed\)\s*\{")
    rets = re.findall(r"return ?([^;]*);", re.sub(r"\[[^\]]*\]\{[^{}]*\}", "LAMBDA", rt))      # (returns of nested lambdas are not the task's)
    fl["resumeReturnsNoTask"] = bool(rets) and all(r == "nullptr" for r in rets)
    return ex, fl


def x_respawn():
    cr = body_of("src/tbb/task_dispatcher.h", r"inline d1::task\*\s*task_dispatcher::get_critical_task\s*\(d1::task\*\s*t,\s*execution_data_ext&\s*ed,[^)]*\)\s*\{")
    a, b = cr.find("r1::spawn(*t,*ed.context);"), cr.find("ed.isolation=task_accessor::isolation(*crit_t);")
    if a < 0 or b < 0:
        raise GenError("get_critical_task: re-spawn of the held task / `ed.isolation = isolation(*crit_t)` not recognised")
    return {}, {"critRespawnBeforeEd": a < b}


def x_bypass():
    lw = body_of("src/tbb/task_dispatcher.h", r"d1::task\*\s*task_dispatcher::local_wait_for_all\s*\(d1::task\*\s*t,\s*Waiter&\s*waiter\s*\)\s*\{")
    _, inner = strip_block(lw, "while(t!=nullptr){")
    if "t=t->execute(ed);" not in inner or "t=get_critical_task(t,ed,isolation,critical_allowed);" not in inner:
        raise GenError("local_wait_for_all: the bypass loop `while (t != nullptr) { ... t = t->execute(ed); ... t = get_critical_task(t, ..); }` not recognised")
    return {}, {"bypassKeepsEd": "ed.isolation=" not in inner and "set_isolation" not in inner}


def x_execwait():
    ew = body_of("src/tbb/task_dispatcher.cpp", r"void task_dispatcher::execute_and_wait\s*\([^)]*\)\s*\{")
    return {"execWaitTag": one(r"task_accessor::isolation\(\*t\)=([^;]+);", ew, "execute_and_wait: isolation(*t) = ...")}, {}


def x_life():
    """worker admission / recall / leaving: the two comparisons are translated, the rest are shape checks"""
    ex, fl = {}, {}
    ah = "src/tbb/arena.h"
    na = body_of(ah, r"unsigned num_workers_active\s*\(\s*\)\s*const\s*\{")
    if na != "{return my_references.load(std::memory_order_acquire)>>ref_external_bits;}":
        raise GenError("num_workers_active is no longer `my_references.load(acquire) >> ref_external_bits`")
    ex["joinableCond"] = one(r"^\{return ?([^;]+);\}$", body_of(ah, r"bool is_joinable\s*\(\s*\)\s*const\s*\{"), "is_joinable")
    ex["recallCond"] = one(r"^\{return ?([^;]+);\}$", body_of(ah, r"bool is_recall_requested\s*\(\s*\)\s*const\s*\{"), "is_recall_requested")
    if not re.search(r"static const unsigned ref_external=1;static const unsigned ref_worker=1<<ref_external_bits;", norm(src(ah))):
        raise GenError("arena::ref_external / ref_worker are no longer 1 and 1 << ref_external_bits")
    tj = body_of("src/tbb/arena.cpp", r"bool arena::try_join\s*\(\s*\)\s*\{")
    if tj != "{if(is_joinable()){my_references+=arena::ref_worker;return true;}return false;}":
        raise GenError("arena::try_join is no longer `if (is_joinable()) { my_references += ref_worker; return true; } return false;`")
    otl = body_of("src/tbb/arena.cpp", r"void arena::on_thread_leaving\s*\(\s*unsigned ref_param\s*\)\s*\{")
    if "unsigned remaining_ref=my_references.fetch_sub(ref_param,std::memory_order_release)-ref_param;" not in otl:
        raise GenError("on_thread_leaving: `my_references.fetch_sub(ref_param, release)` not recognised")
    pr = body_of("src/tbb/arena.cpp", r"void arena::process\s*\(thread_data&\s*tls\)\s*\{")
    if not re.search(r"std::size_t index=occupy_free_slot<true>\(tls\);if\(index==out_of_arena\)\{on_thread_leaving\(ref_worker\);return;\}", pr) \
            or not re.search(r"local_wait_for_all\(nullptr,waiter\);.*tls\.my_arena_slot->release\(\);.*on_thread_leaving\(ref_worker\);(?:__TBB_ASSERT\([^;]*\);)?\}$", pr):
        raise GenError("arena::process: occupy_free_slot<true> / failed -> on_thread_leaving; dispatch loop; release() before on_thread_leaving(ref_worker) not recognised")
    ww = body_of("src/tbb/waiters.h", r"bool is_worker_should_leave\s*\(arena_slot&\s*slot\)\s*const\s*\{")
    if not re.search(r"if\(is_top_priority_arena\)\{if\(is_task_pool_empty&&my_arena\.is_recall_requested\(\)\)\{return true;\}\}else\{if\(my_arena\.is_recall_requested\(\)\)\{.*return true;\}\}return false;\}$", ww):
        raise GenError("outermost_worker_waiter::is_worker_should_leave: a worker no longer leaves exactly when is_recall_requested() (and, in a top-priority arena, its pool is empty)")
    # a recalled worker really leaves: inside `if (is_worker_should_leave(slot)) { ... return false; }` of the outermost worker's
    # continue_execution the only way back to work is `!is_empty() && !is_recall_requested()` (the recall was withdrawn meanwhile)
    ce = body_of("src/tbb/waiters.h", r"(?s)class outermost_worker_waiter[^{]*\{.*?bool continue_execution\s*\(arena_slot&\s*slot,\s*d1::task\*&\s*t\)\s*const\s*\{")
    m = re.search(r"if\(is_worker_should_leave\(slot\)\)\{(.*)return false;\}t=get_self_recall_task\(slot\);return true;\}$", ce)
    if not m:
        raise GenError("outermost_worker_waiter::continue_execution: `if (is_worker_should_leave(slot)) { ... return false; } t = get_self_recall_task(slot); return true;` not recognised")
    leave = m.group(1)
    stays = [x.start() for x in re.finditer(r"return true;", leave)]
    guarded = len(re.findall(r"if\((?:!my_arena\.is_empty\(\)&&!my_arena\.is_recall_requested\(\)|!my_arena\.is_recall_requested\(\)&&!my_arena\.is_empty\(\))\)\{return true;\}", leave))
    if len(stays) != guarded:
        raise GenError("outermost_worker_waiter::continue_execution: a worker that should leave can go back to work although the recall is still requested "
                       "(%d `return true` in the leave branch, %d of them guarded by `!is_empty() && !is_recall_requested()`)" % (len(stays), guarded))
    return ex, fl


# (lean name, parameters, type, atoms, fallback = a value that falsifies the soundness lemma)
DEFS3 = [
    ("isoPrevInit", "(edIso : Nat)", "nat", ["edIso"], "0"),
    ("isolateRestore", "(prev : Nat)", "nat", ["prev"], "0"),
    ("nestedArenaIso", "", "nat", [], "1"),
    ("baseIso", "", "nat", [], "1"),
    ("resumeTag", "", "nat", [], "1"),
    ("execWaitTag", "(edIso : Nat)", "nat", ["edIso"], "0"),
    ("joinableCond", "(active allot : Nat)", "bool", ["active", "allot"], "true"),
    ("recallCond", "(active allot : Nat)", "bool", ["active", "allot"], "false"),
]
FLAGS3 = [("isoBodyAssignsPrev", False), ("isoCompletionByRef", False), ("isoRestoreOnReturn", False), ("isoRestoreOnThrow", False),
          ("resumeFiltered", False), ("critRespawnBeforeEd", False), ("bypassKeepsEd", False), ("resumeReturnsNoTask", False)]


def gen_part3():
    """-> (lean text, [(obligation, ok, detail)], {name: source})"""
    found, flags, obl = {}, {}, []
    for what, fn in [("statement skeleton of isolate_within_arena (initialisation, assignment, capture mode and paths of the completion guard), set_isolation, try_call", x_isolate),
                     ("nested_arena_context: the execute data are saved, isolation is reset, the execute data are restored (all unconditionally)", x_nested_arena),
                     ("initial isolation of a task_dispatcher (execution_data_ext member initialiser, constructor)", x_base),
                     ("resume task: tag, unfiltered resume stream, resume_task::execute returns no task", x_resume),
                     ("get_critical_task: the held task is re-spawned before ed.isolation is overwritten", x_respawn),
                     ("local_wait_for_all: the bypass loop does not reassign ed.isolation", x_bypass),
                     ("execute_and_wait: the initial task's tag", x_execwait),
                     ("worker life cycle: num_workers_active, is_joinable, is_recall_requested, try_join (check then add), arena::process (occupy, dispatch, "
                      "release before on_thread_leaving), on_thread_leaving's fetch_sub, is_worker_should_leave, the leave branch of continue_execution "
                      "(a recalled worker goes back to work only if the recall was withdrawn)", x_life)]:
        try:
            e, f = fn()
            found.update(e)
            flags.update(f)
            obl.append(("gen:" + what + " recognised in the source", True, ""))
        except (GenError, OSError, ValueError) as e:
            obl.append(("gen:" + what + " recognised in the source", False, str(e)))
    lines = ["/-! isolate_within_arena skeleton, nested_arena_context, dispatcher / resume / bypass facts: regenerated from the source text -/"]
    srcs = {}
    for name, params, ty, atoms, fallback in DEFS3:
        expr, note = fallback, "NOT RECOGNISED: falsifying fallback"
        if name in found:
            try:
                expr, note = translate(found[name], atoms, ty), found[name]
                srcs[name] = found[name]
            except GenError as e:
                obl.append(("gen:%s translates" % name, False, "%s: %s" % (found[name], e)))
                note = "NOT TRANSLATABLE (%s): falsifying fallback" % found[name]
        lines.append("/-- `%s` -/" % note.replace("-/", "- /"))
        lines.append("def %s %s: %s := %s" % (name, params + " " if params else "", LEAN_TY[ty], expr))
    for name, fb in FLAGS3:
        v = flags.get(name, fb)
        srcs[name] = v
        lines.append("def %s : Bool := %s" % (name, "true" if v else "false"))
    return "\n".join(lines) + "\n", obl, srcs


# ---------------------------------------------------------------------------------------------------------
# "nest" puppet
# ---------------------------------------------------------------------------------------------------------
def gen_nest_seq(rng, nops):
    """random op sequence; the REAL frames (iso / exec) close in LIFO order over all threads (one OS stack)"""
    n = rng.choice([2, 2, 3, 3, 4])
    ops = ["cfg %d" % n]
    ndisp = n
    cur = list(range(n))                      # thread -> dispatcher
    stack = {d: [] for d in range(n)}         # dispatcher -> 'w' / 'i' / 'x'
    real = []                                 # dispatchers of open real frames, innermost last
    resid = [5000]
    for t in range(n):
        ops.append("wait %d" % t)
        stack[t].append("w")
    style = rng.random()
    for _ in range(nops):
        t = rng.randrange(n)
        d = cur[t]
        st = stack[d]
        top = st[-1] if st else None
        r = rng.random()
        if r < 0.09 and len(real) < 7 and len(st) < 8:
            ops.append("iso %d %d" % (t, 0 if rng.random() < 0.8 else rng.choice([101, 102])))
            st.append("i")
            real.append(d)
        elif r < 0.12 and len(real) < 7 and len(st) < 8:
            ops.append("exec %d" % t)
            st.append("x")
            real.append(d)
        elif r < 0.20 and len(st) < 8:
            ops.append("wait %d" % t)
            st.append("w")
        elif r < 0.32:
            # close something: prefer the innermost real frame when its owner's top frame is that frame
            if real and stack[real[-1]] and stack[real[-1]][-1] in "ix" and rng.random() < 0.7:
                dd = real[-1]
                owners = [u for u in range(n) if cur[u] == dd]
                if owners:
                    u = rng.choice(owners)
                    k = stack[dd].pop()
                    real.pop()
                    ops.append(("endexec %d" % u) if k == "x" else (("throwiso %d" if rng.random() < 0.35 else "endiso %d") % u))
            elif top == "w" and len(st) > 1:
                ops.append("endwait %d" % t)
                st.pop()
        elif r < 0.44:
            ops.append("spawn %d" % t)
        elif r < 0.52:
            ops.append("spawna %d %d" % (t, rng.randrange(n + 1)))
        elif r < 0.56:
            ops.append("enq %d" % t)
        elif r < 0.62:
            ops.append("crit %d" % t)
        elif r < 0.65:
            ops.append("setidle %d %d" % (t, rng.randrange(2)))
        elif r < 0.74:
            ops.append("own %d" % t)
        elif r < 0.84:
            v = rng.choice([x for x in range(n) if x != t])
            ops.append("idle %d %d %d" % (t, v, 1 if (style < 0.7 or rng.random() < 0.5) else 0))
        elif r < 0.87:
            ops.append("critget %d" % t)
        elif r < 0.91:
            v = rng.choice([x for x in range(n) if x != t])
            ops.append("stealc %d %d" % (t, v))
        elif r < 0.94:
            ops.append("bypass %d" % t)
        elif r < 0.96:
            ops.append("resreq %d %d" % (t, resid[0]))
            resid[0] += 1
        elif r < 0.975 and ndisp < 8:
            ops.append("newdisp")
            stack[ndisp] = []
            ndisp += 1
        elif r < 0.99:
            # a stack switch; never away from / onto a dispatcher whose real frames are open under other real frames is fine: LIFO is per OS stack
            dd = rng.randrange(ndisp)
            ops.append("attach %d %d" % (t, dd))
            cur[t] = dd
        else:
            ops.append(rng.choice(["endwait %d" % t, "endiso %d" % t, "endexec %d" % t, "own 9", "frob 1", "idle %d %d 1" % (t, t), "attach %d 77" % t]))
            # (rejected by both sides unless it happens to be legal: keep the generator's bookkeeping in step)
            w = ops[-1].split()
            if w[0] == "endwait" and top == "w":
                st.pop()
            elif w[0] == "endiso" and top == "i" and real and real[-1] == d:
                st.pop(); real.pop()
            elif w[0] == "endexec" and top == "x" and real and real[-1] == d:
                st.pop(); real.pop()
        if rng.random() < 0.05:
            ops.append("check")
    ops.append("check")
    return ops


def nest_run(exe, ops, sh, drv):
    """-> (implementation lines, model lines or None, error)"""
    rc, out, err = sh([exe, "nest"], input="\n".join(ops) + "\n", timeout=300)
    impl = out.split("\n")[:-1]
    if len(impl) != len(ops):
        return impl, None, "harness died rc=%d after %d of %d operations: %s" % (rc, len(impl), len(ops), err[-300:])
    mops = []
    for o, r in zip(ops, impl):
        w = o.split()
        if w[0] == "iso" and len(w) == 3:
            # the implementation reports the tag it installed (explicit, or the canonical id of the delegate's address)
            mops.append(o + " " + (r.split()[2] if r.startswith("ok tag ") and w[2] == "0" else "1"))
        elif (w[0] == "idle" and len(w) == 4) or (w[0] in ("critget", "bypass") and len(w) == 2) or (w[0] == "stealc" and len(w) == 3):
            mops.append(o + " " + (r.split()[1] if r.startswith("got ") else "-1"))
        else:
            mops.append(o)
    if drv is None:
        return impl, None, None
    return impl, drv("c16nest", "\n".join(mops) + "\n"), None


def nest_monitor(ops, impl):
    """implementation-side monitor of a nest puppet run (independent of the Lean model).  Returns (violation or None, stats).
    Checks: (R) after every endiso / throwiso / endexec the dispatcher's word is what it was before the matching call;
    (T) a loop with isolation i != 0 obtains only tasks with tag i (resume tasks excepted); tags of created tasks are the creator's word;
    (G) region level: a task taken under i != 0 was created in the region the loop waits in, unless one of the two regions has ended
    (tag re-use: counted, not a violation here) or both tags are explicit; (F) an address tag never equals a live tag."""
    cur, ed, stack, reg = {}, {}, {}, {}         # thread->disp; disp->word; disp->frames; disp->ghost region
    task = {}                                    # id -> (tag, region)
    live, expl = {}, {}                          # region -> tag (while live); region -> explicit?
    nreg, nid, crit_ids = [0], [0], set()
    stats = {"takes": 0, "reuse_takes": 0, "restores": 0, "nested_restores": 0, "throws": 0, "resume_takes": 0, "bypass": 0, "displaced": 0}
    n = 0
    for o, r in zip(ops, impl):
        w = o.split()
        if r == "bad-op" or r.startswith("rejected"):
            continue
        if w[0] == "cfg":
            n = int(w[1])
            for t in range(n):
                cur[t], ed[t], stack[t], reg[t] = t, 0, [], 0
            continue
        if w[0] == "check":
            f = r.split()
            if " ed " in r:
                eds = f[f.index("ed") + 1:f.index("cur")]
                for d, v in enumerate(eds):
                    if int(v) != ed.get(d, 0):
                        return "dispatcher %d carries isolation %s, the bookkeeping of the operations so far says %d" % (d, v, ed.get(d, 0)), stats
            continue
        if w[0] == "newdisp":
            d = int(r.split()[2])
            ed[d], stack[d], reg[d] = 0, [], 0
            continue
        t = int(w[1])
        d = cur[t]
        st = stack[d]
        if w[0] == "wait":
            st.append(["w", ed[d], reg[d], ed[d], reg[d], False])          # kind, iso, ghost, saved word, saved region, runs-resume
        elif w[0] == "endwait":
            f = st.pop()
            ed[d], reg[d] = f[3], f[4]
        elif w[0] == "iso":
            tag = int(r.split()[2])
            ex = w[2] != "0"
            for rg, tg in live.items():
                if tg == tag and not (ex and expl[rg]):
                    return "isolate on thread %d installed tag %d which is the tag of the live region %d (address of a live object re-used?)" % (t, tag, rg), stats
            nreg[0] += 1
            st.append(["i", nreg[0], None, ed[d], reg[d], False])
            live[nreg[0]], expl[nreg[0]] = tag, ex
            ed[d], reg[d] = tag, nreg[0]
        elif w[0] in ("endiso", "throwiso", "exec", "endexec"):
            after = int(r.split()[2])
            if w[0] == "exec":
                st.append(["x", None, None, ed[d], reg[d], False])
                ed[d], reg[d] = 0, 0
                if after != 0:
                    return "task_arena::execute entered on thread %d with isolation %d in force (expected no isolation)" % (t, after), stats
            else:
                f = st.pop()
                if f[0] == "i":
                    live.pop(f[1], None)
                    stats["restores"] += 1
                    stats["nested_restores"] += 1 if any(g[0] == "i" for g in st) else 0
                    stats["throws"] += 1 if w[0] == "throwiso" else 0
                if after != f[3]:
                    return ("after %s returned%s on thread %d the dispatcher's isolation is %d, before the call it was %d (frames below: %s)" %
                            ("isolate()" if f[0] == "i" else "task_arena::execute()", " by exception" if w[0] == "throwiso" else "", t, after, f[3],
                             "".join(g[0] for g in st))), stats
                ed[d], reg[d] = f[3], f[4]
        elif w[0] == "attach":
            cur[t] = int(w[2])
            if int(r.split()[2]) != ed[cur[t]]:
                return "dispatcher %d carries isolation %s when thread %d attaches, expected %d" % (cur[t], r.split()[2], t, ed[cur[t]]), stats
        elif r.startswith("task ") and w[0] != "resreq":
            f = r.split()
            want = 0 if w[0] == "enq" else ed[d]
            task[int(f[1])] = (int(f[3]), 0 if w[0] == "enq" else reg[d])
            nid[0] = int(f[1]) + 1
            if w[0] == "crit":
                crit_ids.add(int(f[1]))
            if int(f[3]) != want:
                return "task %s created by `%s` under isolation %d carries tag %s" % (f[1], o, ed[d], f[3]), stats
            if "ptag" in f and int(f[f.index("ptag") + 1]) != int(f[3]):
                return "proxy of task %s carries tag %s, the task %s" % (f[1], f[f.index("ptag") + 1], f[3]), stats
        elif r.startswith("got "):
            f = r.split()
            tid, after = int(f[1]), int(f[3])
            lp = st[-1]
            iso, ghost = lp[1], lp[2]
            stats["takes"] += 1
            if tid >= 5000:                       # a resume task: exempt; the word becomes no_isolation
                stats["resume_takes"] += 1
                if after != 0:
                    return "after a resume task was taken the dispatcher's isolation is %d" % after, stats
                ed[d], reg[d], lp[5] = 0, 0, True
                continue
            lp[5] = False
            if w[0] == "bypass":
                y = nid[0]                        # the fresh task gets the next id, whether it runs at once or is displaced and re-spawned
                nid[0] += 1
                task[y] = (ed[d], reg[d])
                if tid == y:
                    # run at once: under the previous task's word, which passed the loop's filter
                    stats["bypass"] += 1
                    if after != ed[d]:
                        return "a bypassed task runs under isolation %d, the task that returned it ran under %d" % (after, ed[d]), stats
                    if iso != 0 and after != iso:
                        return "thread %d waiting under isolation %d runs a bypassed task under isolation %d" % (t, iso, after), stats
                    continue
                stats["displaced"] += 1
            elif w[0] == "stealc" and tid in crit_ids:
                stats["displaced"] += 1
            tg, region = task.get(tid, (None, None))
            if tg is None:
                return "thread %d obtained task %d which no operation created" % (t, tid), stats
            if after != tg:
                return "after taking task %d (tag %d) the execute data carry isolation %d" % (tid, tg, after), stats
            if iso != 0 and tg != iso:
                return "thread %d waiting under isolation %d took task %d with tag %d (operation `%s`)" % (t, iso, tid, tg, o), stats
            if iso != 0 and region != ghost:
                if region in live and ghost in live and not (expl.get(region) and expl.get(ghost)):
                    return "thread %d waiting inside the live region %d took task %d of the live region %d" % (t, ghost, tid, region), stats
                stats["reuse_takes"] += 1
            ed[d], reg[d] = tg, region
    return None, stats


def shrink_ops(ops, fails):
    cur = list(ops)
    i = len(cur) - 1
    while i >= 1:
        cand = cur[:i] + cur[i + 1:]
        if fails(cand):
            cur = cand
        i -= 1
    return cur


# the deterministic demonstration of the tag re-use finding on a real arena with the real isolate_within_arena:
# region 1 spawns task 0 and returns; region 2 is entered at the same recursion depth of the harness (same delegate address), its waiter takes task 0
REUSE_DEMO = ["cfg 2", "wait 0", "iso 0 0", "spawn 0", "endiso 0", "iso 0 0", "wait 0", "own 0", "endwait 0", "endiso 0", "check"]


def run_nest(ck, rt, sh, drv, first_diff):
    from concurrent.futures import ThreadPoolExecutor
    import common
    quick = ck.tier == "quick"
    rng = ck.rng
    seqs = [gen_nest_seq(rng, rng.choice([20, 60, 150, 300])) for _ in range(260 if quick else 5000)]
    model_ok = bool(ck.extra.get("model_ok"))

    def one_(ops):
        impl, model, err = nest_run(rt, ops, sh, drv if model_ok else None)
        if err:
            return ("died", err, ops, None)
        mon, stats = nest_monitor(ops, impl)
        d = first_diff(impl, model) if model is not None else None
        return ("ok", mon, d, (ops, impl, model, stats))
    with ThreadPoolExecutor(max_workers=common.NCPU) as ex:
        res = list(ex.map(one_, seqs))
    bad_mon, bad_corr, nops = None, None, 0
    tot = {}
    for r in res:
        if r[0] == "died":
            bad_mon = bad_mon or (r[2], r[1])
            continue
        _, mon, d, (ops, impl, model, stats) = r
        nops += len(ops)
        for k, v in stats.items():
            tot[k] = tot.get(k, 0) + v
        ck.count(len(ops), ("nest", ops[0], min(stats["takes"], 20) // 4, min(stats["nested_restores"], 8) // 2, stats["throws"] > 0, stats["reuse_takes"] > 0,
                            stats["resume_takes"] > 0, stats["bypass"] > 0, stats["displaced"] > 0))
        if mon and bad_mon is None:
            bad_mon = (ops, mon)
        if d is not None and bad_corr is None:
            bad_corr = (ops[:d + 1], impl[d], model[d] if d < len(model) else None)
    ck.extra["nest_puppet_sequences"] = len(seqs)
    ck.extra["nest_puppet_operations"] = nops
    ck.extra["nest_puppet_totals"] = tot
    ck.sample({"nest_ops": seqs[0][:16], "note": "first operations of one nest-puppet sequence (real nested isolate_within_arena calls)"})
    ck.oblige("monitor:nest puppet on a real arena with real nested isolate_within_arena / task_arena::execute calls: the isolation word is restored on every return "
              "(normal and by exception), a loop with isolation i != 0 only obtains tasks tagged i (resume tasks excepted; bypassed tasks run under the previous word; "
              "displaced tasks keep their tag), never a task of another LIVE region, an address tag never equals a live tag", "correspondence", bad_mon is None,
              "" if bad_mon is None else "%s" % (bad_mon[1],))
    if model_ok:
        ck.oblige("corr:real nested isolate_within_arena / nested_arena_context / spawn / enqueue / submit / get_task / receive_or_steal_task (incl. resume stream) / "
                  "steal_or_get_critical / get_critical_task(t) on a real arena == Nest machine (every result, installed tags incl. re-used addresses accepted by the "
                  "model's freshness assumption, contents of every pool, mailbox and stream, every dispatcher's isolation word)", "correspondence", bad_corr is None,
                  "" if bad_corr is None else "after %s: implementation %r, model %r" % (bad_corr[0][-5:], bad_corr[1][:300], (bad_corr[2] or "")[:300]))
    if bad_mon is not None:
        ops, what = bad_mon
        if isinstance(what, str) and not what.startswith("harness died"):
            def fails(o2):
                # keep the sequence well-formed for the real frames: a dropped line may leave a frame open (the harness unwinds at end of input)
                rc, out, err = sh([rt, "nest"], input="\n".join(o2) + "\n", timeout=120)
                im = out.split("\n")[:-1]
                return len(im) == len(o2) and nest_monitor(o2, im)[0] is not None
            cur = shrink_ops(ops, fails)
            rc, out, err = sh([rt, "nest"], input="\n".join(cur) + "\n", timeout=120)
            what = nest_monitor(cur, out.split("\n")[:-1])[0] or what
            ops = cur
        ck.counterexample("nest-puppet:" + re.sub(r"\d+", "N", what)[:70].replace(" ", "-"),
                          "operations %s on a real arena (one thread playing every slot, real nested isolate_within_arena calls): %s" % (ops, what),
                          {"engine": "E-PURE", "mode": "nest", "stdin": "\n".join(ops), "violation": what})
    # ---- known finding: tag re-use lets the waiter of a later region execute a task of an earlier, finished region (real isolate_within_arena) ----
    impl, model, err = nest_run(rt, REUSE_DEMO, sh, drv if model_ok else None)
    hit = None
    if not err:
        tags = [r.split()[2] for o, r in zip(REUSE_DEMO, impl) if o.startswith("iso ") and r.startswith("ok tag ")]
        got = [r for o, r in zip(REUSE_DEMO, impl) if o == "own 0"]
        if len(tags) == 2 and tags[0] == tags[1] and got and got[0].startswith("got 0 "):
            hit = "isolate() #1 and #2 (same stack depth) both install tag %s; task 0, spawned in region 1 (already left), is executed by the thread waiting inside region 2: %s" % (tags[0], got[0])
    ck.oblige("monitor:a thread waiting inside isolate() does not execute a task spawned in an earlier, already finished isolate() scope (address tag re-use; real isolate_within_arena on a real arena)",
              "correspondence", hit is None and not err, hit or err or "", cex_keys=[FINDING_TAG_REUSE] if hit else None)
    if hit:
        ck.counterexample(FINDING_TAG_REUSE, "operations %s: %s" % (REUSE_DEMO, hit),
                          {"engine": "E-PURE", "mode": "nest", "stdin": "\n".join(REUSE_DEMO), "violation": hit, "family": "finding"})
    if model_ok and model is not None and not err:
        d = first_diff(impl, model)
        ck.oblige("corr:the tag re-use demonstration == Nest machine (the model predicts the foreign take: isolation_tag_reuse_safe's non-vacuity example)", "correspondence",
                  d is None, "" if d is None else "line %d: implementation %r, model %r" % (d, impl[d], model[d] if d < len(model) else None))


def replay_nest(r, rt, sh):
    ops = r["stdin"].split("\n")
    rc, out, err = sh([rt, "nest"], input=r["stdin"] + "\n", timeout=300)
    impl = out.split("\n")[:-1]
    for o, x in zip(ops, impl):
        print("%-16s -> %s" % (o, x[:200]))
    if r.get("family") == "finding":
        tags = [x.split()[2] for o, x in zip(ops, impl) if o.startswith("iso ") and x.startswith("ok tag ")]
        got = [x for o, x in zip(ops, impl) if o == "own 0"]
        still = len(tags) == 2 and tags[0] == tags[1] and bool(got) and got[0].startswith("got 0 ")
        print("monitor: %s" % ("task of the finished region taken by the waiter of the later region" if still else "ok"))
        return still
    m = nest_monitor(ops, impl)[0] if len(impl) == len(ops) else "harness died rc=%d" % rc
    print("monitor: %s" % (m or "ok"))
    return m is not None


# ---------------------------------------------------------------------------------------------------------
# worker life cycle: the accesses to my_references / my_num_workers_allotted / my_limit / my_is_occupied logged by whole-runtime
# runs (harness/c16/rt.cpp, RT_LIFE=1) are validated against Model/C16Life.lean (Driver c16life) and checked by an independent monitor
# ---------------------------------------------------------------------------------------------------------
def life_monitor(lines):
    """implementation-side monitor on one life trace.  A worker (controlled thread id >= number of script threads) obtains a slot
    (successful exchange) only while it holds a reference it added itself (+ref_worker … -ref_worker), never a reserved slot; a slot
    is obtained only when free and released only by its owner; the worker field of my_references never goes below the number of
    workers holding a reference.  Returns (violation or None, stats)."""
    T = 1
    ar = {}
    stats = {"joins": 0, "join_failed_occupy": 0, "recall_leaves": 0, "max_overshoot": 0, "ext_inside": 0}
    for l in lines:
        w = l.split()
        if w[0] == "threads":
            T = int(w[1])
        elif w[0] == "new":
            k, ns, rs = int(w[1]), int(w[2]), int(w[3])
            ar[k] = {"ns": ns, "rs": rs, "owner": {}, "holds": set(), "slot": {}, "had": set(), "allot": int(w[5]), "live": True}
        elif w[0] == "ev":
            k, t, kind, var, a, b, ok = int(w[1]), int(w[2]), w[3], w[4], int(w[6]), int(w[7]), int(w[8])
            A = ar.get(k)
            if A is None or not A["live"]:
                continue
            worker = t >= T
            if var == "refs":
                if kind == "store":
                    A["live"] = False
                elif kind == "fadd" and b - a == 4096 and worker:
                    if t in A["holds"]:
                        return "arena %d: worker thread %d adds a second worker reference" % (k, t), stats
                    A["holds"].add(t)
                    stats["joins"] += 1
                    over = (b >> 12) - A["allot"]
                    stats["max_overshoot"] = max(stats["max_overshoot"], over)
                elif kind == "fsub" and a - b == 4096 and worker:
                    if t not in A["holds"]:
                        return "arena %d: worker thread %d drops a worker reference it does not hold" % (k, t), stats
                    if t in A["slot"]:
                        return "arena %d: worker thread %d drops its reference while it still owns slot %d" % (k, t, A["slot"][t]), stats
                    A["holds"].discard(t)
                    if t not in A["had"]:
                        stats["join_failed_occupy"] += 1
                    A["had"].discard(t)
                if kind in ("fadd", "fsub") and (b >> 12) < len(A["holds"]):
                    return "arena %d: my_references worker field %d is below the %d workers holding a reference" % (k, b >> 12, len(A["holds"])), stats
            elif var == "allot" and kind == "store":
                A["allot"] = a
            elif var.startswith("occ"):
                i = int(var[3:])
                if kind == "xchg" and a == 0 and b == 1:
                    if i in A["owner"]:
                        return "arena %d: slot %d handed to thread %d while thread %d owns it" % (k, i, t, A["owner"][i]), stats
                    if worker and i < A["rs"]:
                        return "arena %d: worker thread %d occupies reserved slot %d (reserved = %d)" % (k, t, i, A["rs"]), stats
                    if worker and t not in A["holds"]:
                        return "arena %d: worker thread %d occupies slot %d without holding a worker reference" % (k, t, i), stats
                    if i >= A["ns"]:
                        return "arena %d: slot index %d >= num_slots %d" % (k, i, A["ns"]), stats
                    A["owner"][i] = t
                    A["slot"][t] = i
                    A["had"].add(t)
                    if not worker:
                        stats["ext_inside"] += 1
                    if len(A["owner"]) > A["ns"]:
                        return "arena %d: %d threads inside, num_slots %d" % (k, len(A["owner"]), A["ns"]), stats
                elif kind == "store" and a == 0:
                    if A["owner"].get(i) != t:
                        return "arena %d: thread %d releases slot %d owned by %s" % (k, t, i, A["owner"].get(i)), stats
                    del A["owner"][i]
                    del A["slot"][t]
                    if worker:
                        stats["recall_leaves"] += 1
    return None, stats


def run_life(ck, rt, sh, drv, results):
    """re-run a sample of the whole-runtime jobs with the life-cycle trace switched on (runs are reproducible from program + seed + stay)"""
    from concurrent.futures import ThreadPoolExecutor
    import common
    quick = ck.tier == "quick"
    model_ok = bool(ck.extra.get("model_ok"))
    cand = [r for r in results if r.get("stat", {}).get("worker_bodies", 0) > 0 and not c16b.rt_problem(r)]
    rest = [r for r in results if r.get("stat", {}).get("worker_bodies", 0) == 0 and not c16b.rt_problem(r)]
    pick = cand[:(110 if quick else 1500)] + rest[:(30 if quick else 300)]
    env = dict(os.environ)
    env["RT_LIFE"] = "1"

    def one_(r):
        sc, seed, stay = r["job"]
        d = os.path.join(common.BUILD, "C16", "scen")
        import hashlib
        path = os.path.join(d, hashlib.sha1(r["prog"].encode()).hexdigest()[:16] + ".txt")
        if not os.path.exists(path):
            os.makedirs(d, exist_ok=True)
            with open(path + ".life", "w") as f:
                f.write(r["prog"])
            os.replace(path + ".life", path)
        rc, out, err = sh([rt, "scen", path, "rand", str(seed), str(stay)], timeout=300, env=env)
        lines = [l[5:] for l in out.split("\n") if l.startswith("life ")]
        mon, stats = life_monitor(lines)
        rej = None
        if model_ok and lines:
            mo = drv("c16life", "\n".join(lines) + "\n")
            for i, x in enumerate(mo):
                if x.startswith("reject") or x == "bad-op":
                    rej = (i, lines[max(0, i - 6):i + 1], x)
                    break
        return (r, len(lines), mon, stats, rej)
    with ThreadPoolExecutor(max_workers=common.NCPU) as ex:
        res = list(ex.map(one_, pick))
    bad_mon, bad_corr, nev = None, None, 0
    tot = {}
    for r, n, mon, stats, rej in res:
        nev += n
        for k, v in stats.items():
            tot[k] = max(tot.get(k, 0), v) if k == "max_overshoot" else tot.get(k, 0) + v
        ck.count(1, ("life", r["job"][0][0], r["job"][0][1], min(stats["joins"], 8), stats["max_overshoot"] > 0, stats["join_failed_occupy"] > 0))
        if model_ok and n:
            ck.traces_validated += 1
        if mon and bad_mon is None:
            bad_mon = (r, mon)
        if rej and bad_corr is None:
            bad_corr = (r, rej)
    ck.extra["life_runs"] = len(res)
    ck.extra["life_events_validated"] = nev
    ck.extra["life_totals"] = tot
    ck.oblige("monitor:life cycle in whole-runtime runs — a worker obtains a slot only while it holds a worker reference, never a reserved slot, slots are handed out only when free "
              "and released only by their owner, my_references' worker field covers the workers holding a reference (E-SHIM, every access to the four words)", "correspondence",
              bad_mon is None, "" if bad_mon is None else "%s | program: %s | seed %s" % (bad_mon[1], bad_mon[0]["prog"].replace("\n", " ; "), bad_mon[0]["job"][1]))
    if model_ok:
        ck.oblige("corr:every access to my_references / my_num_workers_allotted / my_limit / my_is_occupied in whole-runtime runs is an enabled step of the life-cycle model "
                  "(try_join = passing is_joinable() check then add; occupy_free_slot; recall polls; a worker releases its slot only after a poll that saw active > allotted; "
                  "release before the reference is dropped; values read = the model's words)", "correspondence", bad_corr is None,
                  "" if bad_corr is None else "%s after %s | program: %s | seed %s" % (bad_corr[1][2], bad_corr[1][1][-4:], bad_corr[0]["prog"].replace("\n", " ; "), bad_corr[0]["job"][1]))
    if bad_mon is not None:
        r, what = bad_mon
        ck.counterexample("life:" + re.sub(r"\d+", "N", what)[:70].replace(" ", "-"),
                          "program `%s` seed %s: %s" % (r["prog"].replace("\n", " ; "), r["job"][1], what),
                          {"engine": "E-SHIM", "mode": "life", "program": r["prog"], "seed": r["job"][1], "stay": r["job"][2], "violation": what})


def replay_life(r, rt, sh):
    import common
    import hashlib
    d = os.path.join(common.BUILD, "C16", "scen")
    os.makedirs(d, exist_ok=True)
    path = os.path.join(d, hashlib.sha1(r["program"].encode()).hexdigest()[:16] + ".txt")
    with open(path, "w") as f:
        f.write(r["program"])
    env = dict(os.environ)
    env["RT_LIFE"] = "1"
    for seed in [r.get("seed", 1)] + list(range(1, 60)):
        rc, out, err = sh([rt, "scen", path, "rand", str(seed), str(r.get("stay", 96))], timeout=300, env=env)
        lines = [l[5:] for l in out.split("\n") if l.startswith("life ")]
        mon, _ = life_monitor(lines)
        if mon:
            print("seed %s: %s" % (seed, mon))
            return True
    print("monitor: ok")
    return False
