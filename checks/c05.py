"""C05 — parallel loops apply the body exactly once to every element, in legal chunks (DESIGN.md §3 C05).

Tie between lean/TbbVerif/{Model,Props}/C05.lean and /repo's current tree:
  E-GEN   constants of partitioner.h dumped from the real partition objects   -> Generated/C05.lean
  E-PURE  real splitting constructors (1d/2d/3d/nd, midpoint + float proportional) and the real range_vector
          vs the model, line by line
  E-MOCK  real start_for + partition types on a scripted mock of the r1 runtime; every executed task is replayed
          by the model (same initial state, same answers of the runtime-dependent reads) and must produce the same
          events; per-element counters and chunk logs are the implementation-side monitors
  E-REAL  real library, real threads: monitors; exact chunk multisets for simple/static, legal-split-tree test for
          auto/affinity; strided parallel_for, parallel_for_each (+feeder, copy-counting items), parallel_invoke monitors
  parallel_for_each / parallel_invoke: checks/c05each.py — E-GEN (block sizes, category dispatch, subroot shape) + E-MOCK trace validation of
          the real header code on harness/c05/r1_each.h against Model/C05Each.lean (theorems for_each_* / invoke_*)
  index form parallel_for(first, last, step, f …): checks/c05idx.py — the count expression / guards / body-wrapper index
          arithmetic regenerated from parallel_for.h for every Index type (Generated/C05Stride.lean, theorems
          strided_count_exact / strided_guards_exact / strided_index_exact) + the real overloads on boundary extents
"""
import json
import os

import c05each
import c05idx
from common import (BuildError, REPO, ROOT, cxx_build, drv, ensure_repo_built, find_tbb_lib, first_diff, gen_write, log, sh)

def run_limited(cmd, input=None, timeout=None, mem_kb=8000000):
    """run a harness with an address-space limit: a mutated tree may recurse or allocate without end"""
    return sh(["bash", "-c", "ulimit -v %d; exec \"$@\"" % mem_kb, "x"] + list(cmd), input=input, timeout=timeout)


U64 = 1 << 64
KINDS = ["simple", "auto", "static", "affinity"]
H = "harness/c05/"
PRIMES = [2, 3, 5, 7, 11, 13, 17, 31, 61, 97, 101, 127, 257, 509, 1021, 4099, 65537, 1000003, 16777259, 2147483647, 4294967311]


# ---------------------------------------------------------------------------------------------
# E-GEN
# ---------------------------------------------------------------------------------------------
def gen(ck):
    exe = cxx_build("C05", "consts", [H + "consts.cpp"], flags=["-O0", "-fno-access-control"])
    rc, out, err = sh([exe], timeout=60)
    if rc != 0:
        raise BuildError("consts harness failed rc=%d %s" % (rc, err[-400:]))
    c = json.loads(out)
    ck.extra["generated_constants"] = c
    names = ["poolCapacity", "depthBits", "initDepthAuto", "initDepthAffinity", "demandDepthAdd", "affinityFactor",
             "autoDivPerThread", "staticDivPerThread", "affinityDivPerThread", "sizeTypeBits", "floatMantBits", "doubleMantBits"]
    body = "".join("def %s : Nat := %d\n" % (k, max(0, int(c[k]))) for k in names)
    # the dimension-selection rule of blocked_range2d/3d/nd (decided by probing the real constructors on binary64 tie
    # inputs; the E-PURE correspondence then checks the model with this rule against the code on the whole input set)
    body += "".join("def %s : Bool := %s\n" % (k, "true" if c[k] == 1 else "false") for k in ("sel2Guarded", "sel3Guarded", "selNdGuarded"))
    gen_write("C05", body)
    c05idx.gen_stride(ck)
    ck.extra["each_consts"] = c05each.gen(ck)
    ob = lambda name, ok: ck.oblige("gen:" + name, "generated", ok, c)
    ob("one pool capacity for all partitioners and it is the array size", c["poolCapacity"] == c["poolCapacityAffinity"] == c["poolSlots"] and 1 <= c["poolCapacity"] < (1 << c["depthBits"]))
    ob("initial divisors are linear in max_concurrency", min(c["autoDivPerThread"], c["staticDivPerThread"], c["affinityDivPerThread"]) >= 1)
    ob("max_affinity = initial divisor", c["staticMaxAffPerThread"] == c["staticDivPerThread"] and c["affinityMaxAffPerThread"] == c["affinityDivPerThread"])
    ob("factor(auto)=factor(static)=1, affinity factor is a power of two dividing its initial divisor",
       c["autoFactor"] == 1 and c["staticFactor"] == 1 and c["affinityFactor"] >= 1 and c["affinityFactor"] & (c["affinityFactor"] - 1) == 0
       and c["affinityDivPerThread"] % c["affinityFactor"] == 0)
    ob("size_t is 64 bit, float/double are binary32/binary64 evaluated without excess precision, auto starts in delay=begin",
       c["sizeTypeBits"] == 64 and c["floatMantBits"] == 24 and c["doubleMantBits"] == 53 and c["fltEvalMethod"] == 0 and c["initDelayAuto"] == 0)
    ob("dimension-selection rule of blocked_range2d/3d/nd recognised (bare ratio comparison or guarded)", all(c[k] in (0, 1) for k in ("sel2Guarded", "sel3Guarded", "selNdGuarded")))
    guarded = all(c[k] == 1 for k in ("sel2Guarded", "sel3Guarded", "selNdGuarded"))
    ck.oblige("gen:blocked_range2d/3d/nd never prefer an indivisible dimension (binary64 ties at size*grain >= 2^53)", "generated", guarded,
              {k: c[k] for k in ("sel2Guarded", "sel3Guarded", "selNdGuarded")})
    return c


# ---------------------------------------------------------------------------------------------
# inputs
# ---------------------------------------------------------------------------------------------
def boundary_sizes(rng, n_random, maxbits=64):
    xs = set(range(0, 20)) | set(p for p in PRIMES if p < (1 << maxbits))
    for k in range(1, maxbits + 1):
        for d in (-1, 0, 1):
            v = (1 << k) + d
            if 0 <= v < (1 << maxbits):
                xs.add(v)
    xs |= {(1 << 24) + 3, (1 << 25) + 5, (1 << 32) + 7, (1 << 33) + 1, (1 << 53) + 1, (1 << 53) + 2, 3 * (1 << 52) + 1}
    xs.add((1 << maxbits) - 1)
    for _ in range(n_random):
        k = rng.randrange(1, maxbits + 1)
        xs.add(rng.randrange(1 << (k - 1), 1 << k))
    return sorted(x for x in xs if x < (1 << maxbits))


def grains_for(rng, size):
    gs = {1, 2, 3, max(1, size // 2), max(1, size - 1), max(1, size), size + 1, max(1, size // 3), rng.randrange(1, max(2, size + 2))}
    k = rng.randrange(0, 64)
    gs.add(1 << k)
    return sorted(g for g in gs if 1 <= g < U64)


def begin_for(rng, size):
    c = rng.randrange(4)
    if c == 0 or size >= U64 - 1:
        return 0
    if c == 1:
        return U64 - 1 - size
    return rng.randrange(0, U64 - size)


def realistic_lr(rng):
    n = rng.choice([2, 3, 4, 5, 6, 7, 8, 9, 12, 15, 16, 17, 31, 32, 33, 63, 64, 100, 127, 255, 256, 1000, 4095, 65535, (1 << 24) - 1, rng.randrange(2, 1 << 24)])
    return n - n // 2, n // 2


def pure_lines(ck):
    rng = ck.rng
    quick = ck.tier == "quick"
    sizes = boundary_sizes(rng, 150 if quick else 20000)
    lines = []
    for s in sizes:
        for g in (grains_for(rng, s) if not quick else rng.sample(grains_for(rng, s), 3) + [1]):
            b = begin_for(rng, s)
            lines.append("s1 %d %d %d" % (b, b + s, g))
        # proportional split: partitioner-realistic proportions on every size, arbitrary ones where no UB is possible
        for _ in range(3 if quick else 8):
            l, r = realistic_lr(rng)
            b = begin_for(rng, s)
            lines.append("p1 %d %d %d %d %d" % (b, b + s, rng.choice([1, 1, 2, max(1, s // 3)]), l, r))
        if s < (1 << 62):
            for _ in range(2 if quick else 6):
                kb = rng.randrange(1, 63)
                l = rng.randrange(0, 1 << kb)
                r = rng.randrange(0, 1 << rng.randrange(1, 63))
                if l + r == 0:
                    l = 1
                b = begin_for(rng, s)
                lines.append("p1 %d %d %d %d %d" % (b, b + s, 1, l, r))
    # n-d: which dimension is cut
    nd_sizes = boundary_sizes(rng, 30, maxbits=62)
    small = [0, 1, 2, 3, 4, 5, 7, 8, 9, 16, 17, 100, 1000, 4099, (1 << 24) + 3, (1 << 32) + 7]
    n_nd = 2500 if quick else 200000
    for i in range(n_nd):
        fl = rng.choice(["2", "3", "n"])
        k = {"2": 2, "3": 3}.get(fl) or rng.randrange(1, 6)
        dims = []
        mode = rng.randrange(4)
        for _ in range(k):
            s = rng.choice(small) if mode < 3 else rng.choice(nd_sizes)
            g = rng.choice([1, 1, 2, 3, max(1, s // 2), max(1, s), s + 1]) if mode != 1 else rng.choice([1, 2])
            if mode == 3 and rng.random() < 0.5:
                g = rng.choice(nd_sizes) or 1
            b = rng.randrange(0, 1000) if s < (1 << 61) else 0
            dims += [b, b + s, g]
        ds = " ".join(map(str, dims))
        if rng.random() < 0.6:
            lines.append("sn %s %d %s" % (fl, k, ds))
        else:
            l, r = realistic_lr(rng)
            lines.append("pn %s %d %s %d %d" % (fl, k, ds, l, r))
    return lines


def rv_lines(ck):
    rng = ck.rng
    lines = []
    for _ in range(60 if ck.tier == "quick" else 3000):
        s = rng.choice([1, 2, 3, 5, 8, 100, 255, 256, 257, 1000, 1 << 20, (1 << 40) + 1, rng.randrange(1, 1 << 16)])
        g = rng.choice([1, 1, 2, 3, 7, max(1, s // 10)])
        b = rng.randrange(0, 1000)
        lines.append("rv init %d %d %d" % (b, b + s, g))
        size = 1
        for _ in range(rng.randrange(1, 40)):
            c = rng.random()
            if size == 0:
                break
            if c < 0.45:
                lines.append("rv fill %d" % rng.choice([0, 1, 2, 3, 5, 6, 7, 8, 9, 20, 255]))
                size = -1
            elif c < 0.75:
                lines.append("rv popb")
                size = -1
            else:
                lines.append("rv popf")
                size = -1
            # the size is only known to the implementations; stop a sequence when either side reports size 0 (see run_rv)
    return lines


# ---------------------------------------------------------------------------------------------
# E-PURE
# ---------------------------------------------------------------------------------------------
PURE_FLAGS = ["-O1", "-g", "-fno-access-control", "-fsanitize=undefined", "-fno-sanitize-recover=all"]


def pure_monitor(line, out):
    """Property monitor on what the REAL constructor did (independent of the model); None if fine, else text."""
    w = line.split()
    o = out.split()
    try:
        if w[0] == "s1":
            b, e, g = map(int, w[1:4])
            div, emp, kb, ke, nb, ne = map(int, o)
            if div != (1 if g < e - b else 0):
                return "is_divisible() = %d for size %d grain %d" % (div, e - b, g)
            if div and not (kb == b and ne == e and ke == nb and b < ke < e):
                return "split of divisible range gives [%d,%d) + [%d,%d)" % (kb, ke, nb, ne)
        elif w[0] == "p1":
            b, e, g, l, r = map(int, w[1:6])
            kb, ke, nb, ne = map(int, o)
            legal = 1 <= r <= l <= r + 1 and l + r < (1 << 24)
            if legal and g < e - b and not (kb == b and ne == e and ke == nb and b < ke < e):
                return "proportional split %d:%d of divisible range gives [%d,%d) + [%d,%d)" % (l, r, kb, ke, nb, ne)
        elif w[0] in ("sn", "pn"):
            k = int(w[2])
            xs = list(map(int, w[3:3 + 3 * k]))
            dims = [(xs[3 * i], xs[3 * i + 1], xs[3 * i + 2]) for i in range(k)]
            divisible = any(g < e - b for b, e, g in dims)
            empty = any(not b < e for b, e, g in dims)
            if w[0] == "sn":
                div, emp, dim = int(o[0]), int(o[1]), int(o[2])
                rest = list(map(int, o[3:]))
                if div != int(divisible) or emp != int(empty):
                    return "is_divisible/empty = %d/%d" % (div, emp)
                legal = True
            else:
                dim = int(o[0])
                rest = list(map(int, o[1:]))
                l, r = int(w[-2]), int(w[-1])
                legal = 1 <= r <= l <= r + 1 and l + r < (1 << 24)
            if divisible and not empty and legal:
                kept = [(rest[2 * i], rest[2 * i + 1]) for i in range(k)]
                new = [(rest[2 * k + 2 * i], rest[2 * k + 2 * i + 1]) for i in range(k)]
                if dim < 0:
                    return "split of a divisible non-empty range changed %s dimensions" % ("no" if dim == -2 else "several")
                b, e, g = dims[dim]
                if not g < e - b:
                    return "dimension %d (size %d, grain %d) is not divisible but was split" % (dim, e - b, g)
                if not (kept[dim][0] == b and new[dim][1] == e and kept[dim][1] == new[dim][0] and b < kept[dim][1] < e):
                    return "dimension %d split into [%d,%d) + [%d,%d)" % (dim, kept[dim][0], kept[dim][1], new[dim][0], new[dim][1])
    except (ValueError, IndexError):
        return "unparsable output %r" % out
    return None


def nd_rounding_exposed(line):
    """inputs on which the binary64 products of blocked_rangeNd::do_split are inexact (size*grain >= 2^53)"""
    w = line.split()
    if w[0] not in ("sn", "pn"):
        return False
    k = int(w[2])
    xs = list(map(int, w[3:3 + 3 * k]))
    sizes = [xs[3 * i + 1] - xs[3 * i] for i in range(k)]
    grains = [xs[3 * i + 2] for i in range(k)]
    return max(sizes) * max(grains) >= (1 << 53)


def run_pure(ck, lines=None, tag=""):
    exe = cxx_build("C05", "pure", [H + "pure.cpp"], flags=PURE_FLAGS)
    own = lines is None
    if own:
        lines = pure_lines(ck)
    text = "\n".join(lines) + "\n"
    rc, out, err = run_limited([exe], input=text, timeout=3600)
    impl = out.split("\n")[:-1]
    if rc != 0:
        ck.oblige("corr:split-constructors%s" % tag, "correspondence", False,
                  "harness exited rc=%d after %d lines (input %r): %s" % (rc, len(impl), lines[len(impl)] if len(impl) < len(lines) else None, err[-400:]))
        return [("crash", lines[len(impl)] if len(impl) < len(lines) else "?", err[-200:].strip())]
    model = drv("c05", text, timeout=3600)
    d = first_diff(impl, model)
    kinds = {}
    for l in lines:
        kinds[l.split()[0]] = kinds.get(l.split()[0], 0) + 1
    if own:
        ck.extra["pure_input_distribution"] = kinds
        ck.count(len(lines))
        for l, o in zip(lines, impl):
            w = l.split()
            ck.distinct.add((w[0], w[1] if w[0] in ("sn", "pn") else "", o.split()[0] if o else "", len(l) // 16))
        for i in (len(lines) // 7, len(lines) // 2, len(lines) - 3):
            ck.sample({"input": lines[i], "impl": impl[i], "model": model[i]})
    ok = d is None
    ck.oblige("corr:split-constructors%s (blocked_range midpoint + float proportional split, 2d/3d/nd dimension choice) = model" % tag, "correspondence", ok,
              "" if ok else "input %r: implementation %r, model %r" % (lines[d] if d < len(lines) else None, impl[d] if d < len(impl) else None, model[d] if d < len(model) else None))
    bad, known = [], []
    defect_present = not all(ck.extra["generated_constants"].get(k) == 1 for k in ("sel2Guarded", "sel3Guarded", "selNdGuarded"))
    for l, o in zip(lines, impl):
        m = pure_monitor(l, o)
        if m:
            # binary64 ties of the unguarded dimension choice are reported once, under their own key, by probe_nd_tie
            (known if defect_present and nd_rounding_exposed(l) else bad).append((l, o, m))
    ck.oblige("monitor:split-constructors%s (divisible => both parts non-empty, adjacent, cover; the cut dimension is divisible)" % tag, "correspondence", not bad,
              "" if not bad else "%s -> %s: %s" % bad[0])
    fails = []
    for l, o, m in bad[:1]:
        fails.append(("pure", l, m))
    if known:
        ck.extra.setdefault("nd_double_rounding_cases", []).extend(["%s -> %s: %s" % k for k in known[:3]])
    return fails


def run_rv(ck):
    exe = cxx_build("C05", "pure", [H + "pure.cpp"], flags=PURE_FLAGS)
    lines = rv_lines(ck)
    # make every sequence valid: drop pops once the pool is empty (needs the implementation's answer: do it on the model side first)
    text = "\n".join(lines) + "\n"
    model = drv("c05", text, timeout=600)
    keep = [l for l, m in zip(lines, model) if m != "bad-op"]
    text = "\n".join(keep) + "\n"
    model = drv("c05", text, timeout=600)
    rc, out, err = run_limited([exe], input=text, timeout=600)
    impl = out.split("\n")[:-1]
    d = first_diff(impl, model) if rc == 0 else len(impl)
    ok = rc == 0 and d is None
    ck.count(len(keep))
    for l, o in zip(keep, impl):
        ck.distinct.add(("rv", l.split()[1], o.split("|")[0]))
    ck.extra["rv_ops"] = len(keep)
    if keep:
        ck.sample({"input": keep[min(3, len(keep) - 1)], "impl": impl[min(3, len(impl) - 1)] if impl else None, "model": model[min(3, len(model) - 1)]})
    ck.oblige("corr:range_vector ring (head/tail/size/depths/contents after split_to_fill, pop_back, pop_front) = model", "correspondence", ok,
              "" if ok else "rc=%d op #%s %r: implementation %r, model %r %s" % (rc, d, keep[d] if d is not None and d < len(keep) else None,
                                                                              impl[d] if d is not None and d < len(impl) else None, model[d] if d is not None and d < len(model) else None, err[-300:]))
    # implementation-side monitor: the pool always tiles the initial range, back() is leftmost, size <= capacity
    bad = None
    cur = None
    for l, o in zip(keep, impl):
        w = l.split()
        if w[1] == "init":
            cur = [int(w[2]), int(w[3])]
        try:
            hd, items = o.split("|")
            head, tail, size = map(int, hd.split())
            rs = [tuple(map(int, it.split(":"))) for it in items.split()]
        except ValueError:
            bad = (l, o, "unparsable")
            break
        if w[1] == "popb" and cur:
            cur[0] = rs[0][1] if rs else cur[1]
        if w[1] == "popf" and cur:
            cur[1] = rs[-1][2] if rs else cur[0]
        cap = ck.extra["generated_constants"]["poolCapacity"]
        okk = size == len(rs) <= cap and (not rs or (rs[0][1] == cur[0] and rs[-1][2] == cur[1] and all(rs[i][2] == rs[i + 1][1] for i in range(len(rs) - 1))
                                                    and all(r[1] < r[2] for r in rs))) and (size == 0 or (tail + size - 1) % cap == head)
        if not okk:
            bad = (l, o, "pool does not tile %s" % cur)
            break
    ck.oblige("monitor:range_vector contents tile the task's remaining range, <= capacity entries, head = tail+size-1 mod capacity", "correspondence", bad is None, bad or "")
    if bad:
        i = keep.index(bad[0])
        j = max(k for k in range(i + 1) if keep[k].startswith("rv init"))
        ck.counterexample("range_vector:" + "/".join(x.split(None, 1)[1].replace(" ", "=") for x in keep[j:i + 1])[:200],
                          "range_vector loses or duplicates part of the range: after %s the pool is %s" % (keep[j:i + 1], bad[1]),
                          {"engine": "E-PURE", "harness": H + "pure.cpp", "stdin": "\n".join(keep[j:i + 1]) + "\n", "monitor": "rv"})


TIE_LINES = ["sn 2 2 0 1 1 0 9007199254740993 9007199254740992",
             "sn 3 3 0 1 1 0 1 1 0 9007199254740993 9007199254740992",
             "sn n 2 0 1 1 0 9007199254740993 9007199254740992",
             "sn 2 2 0 3 3 0 27021597764222977 27021597764222976",
             "pn 2 2 0 1 1 0 9007199254740993 9007199254740992 2 1"]
ND_KEY = "nd-split-binary64-tie"


def probe_nd_tie(ck):
    """blocked_range2d/3d/nd::do_split on inputs whose binary64 products size*double(grain) round to a tie: the real
    constructors must still cut a divisible dimension.  A failure is a concrete violation of the property."""
    exe = cxx_build("C05", "pure", [H + "pure.cpp"], flags=PURE_FLAGS)
    rc, out, err = run_limited([exe], input="\n".join(TIE_LINES) + "\n", timeout=60)
    impl = out.split("\n")[:-1]
    bad = [(l, o, pure_monitor(l, o)) for l, o in zip(TIE_LINES, impl) if pure_monitor(l, o)]
    if rc != 0:
        bad.append((TIE_LINES[min(len(impl), len(TIE_LINES) - 1)], "", "harness aborted rc=%d" % rc))
    ck.count(len(TIE_LINES), ("nd-tie", len(bad)))
    ck.oblige("monitor:2d/3d/nd split on binary64-tie inputs (size*grain >= 2^53) cuts a divisible dimension", "correspondence", not bad,
              "" if not bad else "%s -> %s: %s" % bad[0])
    if bad:
        l, o, m = bad[0]
        ck.counterexample(ND_KEY, "blocked_range2d/3d/nd::do_split cuts an indivisible dimension when size*double(grainsize) rounds to a tie: "
                          "R r(0,1,1, 0,2^53+1,2^53); R b(r, tbb::split()) leaves r empty and b equal to the original (%s -> %s: %s); "
                          "parallel_for with simple_partitioner then calls the body on empty ranges without end" % (l, o, m),
                          {"engine": "E-PURE", "harness": H + "pure.cpp", "stdin": l + "\n", "monitor": "pure"})
        # everything that breaks *because* the selection rule is unguarded is accounted for by this finding
        for ob in ck.obligations:
            if ob["ok"]:
                continue
            if ob["name"].startswith(("gen:blocked_range2d/3d/nd never prefer", "monitor:2d/3d/nd split on binary64-tie")):
                ob["explained"] = True
            if ob["name"].startswith("lean:") and ("nd_" in ob["name"] or "Guard" in ob["name"] or "guard" in ob["name"]):
                ob["explained"] = True
            if ob["name"].startswith("theorem:") and ("nd_" in ob["name"] or "not re-checked" in ob["detail"]):
                ob["explained"] = ck.extra.get("lean_only_guard_failures", False)
    return bad


# ---------------------------------------------------------------------------------------------
# E-MOCK
# ---------------------------------------------------------------------------------------------
MOCK_FLAGS = ["-O1", "-g", "-fno-access-control"]


def mock_scenarios(ck, n, small=False):
    rng = ck.rng
    scs = []
    sizes1 = [1, 2, 3, 4, 5, 7, 8, 9, 15, 16, 17, 31, 33, 63, 64, 65, 97, 127, 128, 129, 255, 257, 509, 1000, 1021, 1023, 1025, 2047, 4099, 5000]
    for i in range(n):
        kind = KINDS[i % 4]
        fl = rng.choice(["1", "1", "1", "2", "3", "n"])
        k = {"1": 1, "2": 2, "3": 3}.get(fl) or rng.randrange(1, 5)
        dims = []
        for _ in range(k):
            if k == 1:
                s = rng.choice(sizes1) if rng.random() < 0.7 else rng.randrange(1, 5001)
                if small:
                    s = rng.randrange(1, 70)
            else:
                s = rng.choice([1, 2, 3, 4, 5, 7, 8, 9, 16, 17, 33]) if k > 2 else rng.choice([1, 2, 3, 5, 8, 13, 17, 32, 33, 64, 70])
            g = rng.choice([1, 1, 1, 2, 2, 3, 4, 5, 7, 8, 16, max(1, s // 2), max(1, s - 1), s, s + 1])
            if kind == "simple" and k == 1:
                g = max(g, s // 3000 + 1)
            b = rng.choice([0, 0, 1, 10, 1000, rng.randrange(0, 1 << 40)])
            dims += [b, b + s, g]
        P = rng.choice([1, 2, 2, 3, 4, 4, 5, 6, 7, 8, 8, 9, 12, 15, 16, 16, 17, 32, 64, 100, 255, 1000])
        st = rng.choice([(0, 0, 0), (30, 30, 30), (60, 20, 50), (90, 50, 80), (10, 90, 10), (100, 0, 100), (50, 50, 0)])
        cancel = -1 if rng.random() < 0.9 else rng.randrange(0, 12)
        scs.append("loop %s %s %d %s %d %d %d %d %d %d" % (kind, fl, k, " ".join(map(str, dims)), P, rng.randrange(1, 1 << 40), st[0], st[1], st[2], cancel))
    return scs


def parse_mock(out):
    """[(tasks [(model_input, events)], M dict, chunks [[(b,e)…]])] per scenario"""
    res, tasks, M, chunks = [], [], None, []
    for l in out.split("\n"):
        if l.startswith("T "):
            a, b = l[2:].split(" =>", 1)
            tasks.append((a, b.strip()))
        elif l.startswith("M "):
            M = dict(kv.split("=", 1) for kv in l[2:].split())
        elif l.startswith("C"):
            chunks = []
            for c in l[1:].split(";")[1:]:
                xs = list(map(int, c.split()))
                chunks.append([(xs[2 * i], xs[2 * i + 1]) for i in range(len(xs) // 2)])
        elif l == "END":
            res.append((tasks, M, chunks))
            tasks, M, chunks = [], None, []
        elif l == "bad-op":
            M = {"bad-op": "1"}
    return res


def chunks_tile(dims, chunks):
    """independent tiling test on a chunk list: every chunk non-empty and inside, pairwise disjoint, volumes add up"""
    vol = 1
    for b, e, g in dims:
        vol *= (e - b)
    tot = 0
    for c in chunks:
        v = 1
        for (cb, ce), (b, e, g) in zip(c, dims):
            if not (b <= cb < ce <= e):
                return "chunk %s empty or outside" % (c,)
            v *= ce - cb
        tot += v
    if tot != vol:
        return "chunk volumes add up to %d, range has %d" % (tot, vol)
    if len(dims) == 1:
        s = sorted(c[0] for c in chunks)
        for i in range(len(s) - 1):
            if s[i][1] != s[i + 1][0]:
                return "chunks %s and %s overlap or leave a gap" % (s[i], s[i + 1])
    elif len(chunks) <= 3000:
        for i in range(len(chunks)):
            for j in range(i + 1, len(chunks)):
                if all(a[0] < b[1] and b[0] < a[1] for a, b in zip(chunks[i], chunks[j])):
                    return "chunks %s and %s overlap" % (chunks[i], chunks[j])
    return None


def mock_monitor(sc, M, chunks):
    """implementation-side property monitor for one scripted loop; None if fine"""
    w = sc.split()
    kind, k = w[1], int(w[3])
    xs = list(map(int, w[4:4 + 3 * k]))
    dims = [(xs[3 * i], xs[3 * i + 1], xs[3 * i + 2]) for i in range(k)]
    if M is None or "bad-op" in M:
        return "harness rejected the scenario"
    if int(M["empty"]) or int(M["oob"]):
        return "%s empty chunks, %s chunks outside the range" % (M["empty"], M["oob"])
    if M["cancelled"] == "1":
        return None          # the property is about loops that complete normally
    if M["elems"].startswith("bad"):
        _, idx, cnt = M["elems"].split(":")
        return "element with flat index %s visited %s times" % (idx, cnt)
    t = chunks_tile(dims, chunks)
    if t:
        return t
    if k == 1 and kind in ("simple", "auto"):
        b, e, g = dims[0]
        lo = (g + 1) // 2 if e - b >= g else 1
        for c in chunks:
            n = c[0][1] - c[0][0]
            if n < lo or (kind == "simple" and n > g):
                return "chunk [%d,%d) of size %d violates the bounds [%d,%s] for grain %d" % (c[0][0], c[0][1], n, lo, g if kind == "simple" else "-", g)
    return None


def run_mock(ck, scs=None, tag="", report=True):
    exe = cxx_build("C05", "mock", [H + "mock.cpp"], flags=MOCK_FLAGS)
    own = scs is None
    if own:
        scs = mock_scenarios(ck, 600 if ck.tier == "quick" else 20000)
    rc, out, err = run_limited([exe], input="\n".join(scs) + "\n", timeout=900 if len(scs) < 5000 else 3600)
    res = parse_mock(out)
    fails = []
    if rc != 0 or len(res) != len(scs):
        i = min(len(res), len(scs) - 1)
        if report:
            ck.oblige("monitor:scripted loops%s run to completion" % tag, "correspondence", False, "mock harness rc=%d on scenario %r: %s" % (rc, scs[i], err[-400:]))
        fails.append((scs[i], "the loop never ends (more than 3,000,000 chunks handed to the body or 4,000,000 tasks spawned)" if "RUNAWAY" in out[-300:]
                      else "harness crashed or aborted: rc=%d %s" % (rc, err[-300:].strip())))
        return fails
    # model replay of every executed task
    tin, where = [], []
    for si, (tasks, M, chunks) in enumerate(res):
        for ti, (a, b) in enumerate(tasks):
            tin.append("task " + a)
            where.append((si, ti))
    model = drv("c05", "\n".join(tin) + "\n", timeout=3600) if tin else []
    mism = None
    for i, ((si, ti), m) in enumerate(zip(where, model)):
        m = " ; ".join(ev for ev in m.split(" ; ") if not ev.startswith("D "))     # dropped ranges are not observable on the implementation
        if m != res[si][0][ti][1]:
            mism = (scs[si], tin[i], res[si][0][ti][1], m)
            break
    if len(model) != len(tin) and mism is None:
        mism = ("?", "?", "model produced %d lines for %d tasks" % (len(model), len(tin)), "")
    # closure: the children a task spawns are exactly the other tasks that ran (same range, same partition state)
    closure_bad = None
    for si, (tasks, M, chunks) in enumerate(res):
        if M and M.get("cancelled") == "1":
            continue
        spawned, started = [], []
        for a, b in tasks:
            w = a.split()
            k = int(w[2])
            ds = [w[3 + 3 * i] + " " + w[4 + 3 * i] for i in range(k)]
            started.append(" ".join(ds) + " | " + " ".join(w[3 + 3 * k:8 + 3 * k]))
            for ev in b.split(" ; "):
                if ev.startswith("S "):
                    spawned.append(ev[2:])
        root = [s for s in started]
        for s in spawned:
            if s in root:
                root.remove(s)
            else:
                closure_bad = (scs[si], "spawned child %r never ran" % s)
        if len(root) != 1 and closure_bad is None:
            closure_bad = (scs[si], "%d tasks ran that nobody spawned" % (len(root) - 1))
    mon_bad = None
    for sc, (tasks, M, chunks) in zip(scs, res):
        m = mock_monitor(sc, M, chunks)
        if m:
            mon_bad = (sc, m)
            fails.append((sc, m))
            break
    if own:
        ck.count(len(tin))
        ck.traces_validated += len(tin)
        for sc, (tasks, M, chunks) in zip(scs, res):
            w = sc.split()
            ck.distinct.add(("loop", w[1], w[2], w[3], min(len(tasks), 50), min(len(chunks), 50), M.get("cancelled")))
        ck.extra["mock_loops"] = len(scs)
        ck.extra["mock_tasks_replayed"] = len(tin)
        ck.extra["mock_stolen_tasks"] = sum(1 for t in tin if t.split()[-1:] and " 1 1 H" in t or " 1 0 H" in t)
        if tin:
            ck.sample({"scenario": scs[0], "task": tin[0], "impl_events": res[0][0][0][1], "model_events": model[0]})
            j = len(tin) // 2
            ck.sample({"task": tin[j], "impl_events": res[where[j][0]][0][where[j][1]][1], "model_events": model[j]})
    if report:
        ck.oblige("corr:every executed start_for task%s (real partitioner code on the scripted runtime) = model's execTask on the same oracle answers" % tag, "correspondence", mism is None,
                  "" if mism is None else "scenario %r\n task %r\n implementation: %s\n model:          %s" % mism)
        ck.oblige("corr:task tree closure%s (spawned children = the tasks that ran)" % tag, "correspondence", closure_bad is None, closure_bad or "")
        ck.oblige("monitor:scripted loops%s: each element exactly once, chunks non-empty/inside/disjoint/cover, chunk-size bounds" % tag, "correspondence", mon_bad is None, mon_bad or "")
    return fails


# ---------------------------------------------------------------------------------------------
# E-REAL
# ---------------------------------------------------------------------------------------------
def real_lines(ck):
    rng = ck.rng
    n = 60 if ck.tier == "quick" else 1500
    lines = []
    for i in range(n):
        kind = KINDS[i % 4]
        P = rng.choice(list(range(1, 17)))
        fl = rng.choice(["1", "1", "1", "i", "2", "3", "n"])
        k = {"1": 1, "i": 1, "2": 2, "3": 3}.get(fl) or rng.randrange(2, 5)
        dims = []
        for _ in range(k):
            if k == 1:
                s = rng.choice([0, 1, 2, 3, 7, 64, 65, 127, 1000, 4099, 65537, 100003, 1 << 20, (1 << 20) + 1, (1 << 24) + 3 if i % 12 == 0 else 999983])
            else:
                s = rng.choice([1, 2, 3, 5, 8, 17, 33, 64, 100]) if k > 2 else rng.choice([1, 2, 7, 33, 128, 257, 1000])
            g = rng.choice([1, 2, 3, 7, 16, 100, 1000, max(1, s // 7)])
            if k == 1:
                g = max(g, s // 20000 + 1)      # keep the chunk log small
            b = 0 if fl == "i" else rng.choice([0, 5, 1 << 33])
            dims += [b, b + s, g]
        lines.append("real %s %s %d %s %d" % (kind, fl, k, " ".join(map(str, dims)), P))
    # sizes > 2^32 with a counting body (chunk log only)
    if ck.tier != "quick" or True:
        for kind in KINDS:
            s = (1 << 32) + rng.choice([1, 7, 1000003])
            g = s // rng.choice([50, 1000]) + 1 if kind in ("simple",) else rng.choice([1, 1 << 20, s // 100])
            if kind in ("auto", "affinity"):
                g = s // 3000 + 1
            lines.append("real %s 1 1 %d %d %d %d" % (kind, 3, 3 + s, g, rng.choice([1, 4, 8, 16])))
    return lines


def other_real_lines(ck):
    rng = ck.rng
    q = ck.tier == "quick"
    lines = []
    for _ in range(12 if q else 200):
        first = rng.randrange(-1000, 1000)
        n = rng.choice([0, 1, 2, 3, 17, 1000, 65537])
        step = rng.choice([1, 2, 3, 7, 1000])
        last = first + n * step - rng.randrange(0, step) if n else first - rng.randrange(0, 3)
        lines.append("strided %d %d %d %s %d" % (first, last, step, rng.choice(KINDS), rng.randrange(1, 17)))
    for _ in range(9 if q else 200):
        n = rng.choice([0, 1, 2, 3, 4, 5, 17, 100, 1000])
        lines.append("foreach %d %d %s %d" % (n, rng.choice([0, 1, n // 2, n]), rng.choice(["r", "f", "i"]), rng.randrange(1, 17)))
    for n in range(2, 13):
        lines.append("invoke %d %d" % (n, rng.randrange(1, 17)))
    for i in range(12 if q else 300):
        n = rng.choice([1, 2, 3, 4, 5, 7, 8, 9, 17, 100, 1000])
        lines.append("foreach2 %d %d %d %s %d %d" % (n, rng.choice([0, 1, 2, 3, 3]), rng.randrange(1, 4), "rfi"[i % 3], rng.randrange(1, 17), rng.randrange(1, 1 << 40)))
    return lines


def real_libdir(ck=None):
    """libtbb of the tree under test (incremental rebuild); a scratch worktree without a _build directory (header-only
    changes) is linked against the library of /repo — everything C05 is about lives in headers"""
    if os.path.isdir(os.path.join(REPO, "_build")):
        libdir = ensure_repo_built(targets=("tbb",)) or find_tbb_lib()
    else:
        libdir = None
        b = "/repo/_build"
        for d in sorted(os.listdir(b)) if os.path.isdir(b) else []:
            if os.path.exists(os.path.join(b, d, "libtbb.so")):
                libdir = os.path.join(b, d)
        log("no %s/_build: linking the real-library harness against %s" % (REPO, libdir))
    if not libdir:
        raise BuildError("no built libtbb found under %s/_build" % REPO)
    if ck is not None:
        ck.extra["real_library"] = libdir
    return libdir


def run_real(ck):
    libdir = real_libdir(ck)
    exe = cxx_build("C05", "real", [H + "real.cpp"], flags=["-O1", "-g", "-pthread"], libs=["-L" + libdir, "-ltbb", "-Wl,-rpath," + libdir])
    lines = real_lines(ck)
    rc, out, err = run_limited([exe, "60" if ck.tier == "quick" else "600"], input="\n".join(lines) + "\n", timeout=1800, mem_kb=16000000)
    outs = out.split("\n")[:-1]
    if rc != 0 or len(outs) != 2 * len(lines):
        i = min(len(outs) // 2, len(lines) - 1)
        how = "does not finish (watchdog)" if "TIMEOUT" in out[-40:] else "never ends (more than 20,000,000 chunks)" if "RUNAWAY" in out[-40:] else "crashed rc=%d %s" % (rc, err[-200:].strip())
        ck.oblige("monitor:real-library loops run to completion", "correspondence", False, "%r %s" % (lines[i], how))
        ck.counterexample("real-loop-crash:" + lines[i].replace(" ", "="), "tbb::parallel_for %s: %s" % (how, lines[i]), {"engine": "E-REAL", "harness": H + "real.cpp", "stdin": lines[i] + "\n", "monitor": "real"})
        return
    mon_bad, exact_bad, tree_bad = None, None, None
    mlines, mwhere = [], []
    for i, l in enumerate(lines):
        w = l.split()
        kind, fl, k = w[1], w[2], int(w[3])
        xs = list(map(int, w[4:4 + 3 * k]))
        dims = [(xs[3 * j], xs[3 * j + 1], xs[3 * j + 2]) for j in range(k)]
        P = int(w[-1])
        M = dict(kv.split("=", 1) for kv in outs[2 * i][2:].split())
        chunks = []
        for c in outs[2 * i + 1][1:].split(";")[1:]:
            ys = list(map(int, c.split()))
            chunks.append([(ys[2 * j], ys[2 * j + 1]) for j in range(len(ys) // 2)])
        m = None
        if int(M["empty"]) or int(M["oob"]):
            m = "%s empty chunks, %s outside" % (M["empty"], M["oob"])
        elif M["elems"].startswith("bad"):
            m = "element (flat index %s) visited %s times" % tuple(M["elems"].split(":")[1:3])
        else:
            m = chunks_tile(dims, chunks) if not any(b == e for b, e, g in dims) else (None if not chunks else "body called for an empty range")
        if m is None and k == 1 and kind in ("simple", "auto") and dims[0][1] - dims[0][0] >= dims[0][2]:
            g = dims[0][2]
            for c in chunks:
                n = c[0][1] - c[0][0]
                if n < (g + 1) // 2 or (kind == "simple" and n > g):
                    m = "chunk of size %d for grain %d" % (n, g)
        if m and mon_bad is None:
            mon_bad = (l, m)
        ck.count(1, ("real", kind, fl, k, P, min(len(chunks), 64) if kind in ("simple", "static") else 0))
        flm = "1" if fl == "i" else fl
        if kind in ("simple", "static"):
            mlines.append("loop %s %d %s %d %s" % (kind, P, flm, k, " ".join(map(str, xs))))
            mwhere.append((i, sorted(" ".join("%d %d" % be for be in c) for c in chunks), "loop"))
        elif k == 1 and dims[0][0] < dims[0][1]:
            bounds = sorted({c[0][0] for c in chunks} | {dims[0][1]})
            mlines.append("tree %d %d %s" % (P if kind == "affinity" else 0, dims[0][2], " ".join(map(str, bounds))))
            mwhere.append((i, None, "tree"))
    model = drv("c05", "\n".join(mlines) + "\n", timeout=3600) if mlines else []
    for (i, exp, what), mo in zip(mwhere, model):
        if what == "loop":
            # Lean sorts strings lexicographically as well; compare as multisets
            got = sorted(x.strip() for x in mo.split(" ", 1)[1].split(";") if x.strip()) if " " in mo else []
            if mo.split(" ", 1)[0] != str(len(exp)) or got != exp:
                if exact_bad is None:
                    exact_bad = (lines[i], "implementation chunks %s…, model %s…" % (exp[:6], got[:6]))
        elif mo != "1" and tree_bad is None:
            tree_bad = (lines[i], mlines[mwhere.index((i, exp, what))][:300])
    ck.extra["real_runs"] = len(lines)
    ck.sample({"real": lines[0], "monitors": outs[0], "chunks": outs[1][:160]})
    ck.oblige("monitor:real library, real threads: each element exactly once, chunks non-empty/inside/disjoint/cover, chunk-size bounds", "correspondence", mon_bad is None, mon_bad or "")
    ck.oblige("corr:simple/static chunk multisets of the real library = model's runLoop (schedule independent)", "correspondence", exact_bad is None, exact_bad or "")
    ck.oblige("corr:auto/affinity chunk boundaries of the real library form a legal split tree of the model", "correspondence", tree_bad is None, tree_bad or "")
    if mon_bad:
        ck.counterexample("real-loop:" + mon_bad[0].replace(" ", "="), "tbb::parallel_for (%s): %s" % mon_bad, {"engine": "E-REAL", "harness": H + "real.cpp", "stdin": mon_bad[0] + "\n", "monitor": "real"})
    # strided parallel_for, parallel_for_each, parallel_invoke
    ol = other_real_lines(ck)
    rc, out, err = run_limited([exe, "60"], input="\n".join(ol) + "\n", timeout=1800, mem_kb=16000000)
    oo = out.split("\n")[:-1]
    bad = None
    if rc != 0 or len(oo) != len(ol):
        bad = (ol[min(len(oo), len(ol) - 1)], "rc=%d %s" % (rc, err[-200:]))
    else:
        for l, o in zip(ol, oo):
            f = dict(kv.split("=", 1) for kv in o.split()[1:]) if o != "bad-op" else {"bad": "bad-op"}
            if o.startswith("F2 ") and f.get("late") == "1":
                ck.extra["for_each_copies_alive_at_return"] = ck.extra.get("for_each_copies_alive_at_return", 0) + 1
            if f.get("bad") != "-" or (o.startswith("S ") and f["visited"] != f["expected"]) or (o.startswith("F2 ") and (f["dead"] != "0" or f["live"] != "0")):
                bad = (l, o)
                break
            ck.count(1, (l.split()[0], o))
    ck.oblige("monitor:strided parallel_for / parallel_for_each (+feeder, input/forward/random iterators) / parallel_invoke apply the body exactly once (real library)",
              "correspondence", bad is None, bad or "")
    if bad:
        ck.counterexample("real-other:" + bad[0].replace(" ", "="), "%s -> %s" % bad, {"engine": "E-REAL", "harness": H + "real.cpp", "stdin": bad[0] + "\n", "monitor": "other"})


# ---------------------------------------------------------------------------------------------
# failing-input search (runs when something above broke)
# ---------------------------------------------------------------------------------------------
def search(ck, first_fails):
    """look for a concrete input on which the PROPERTY fails on the implementation"""
    found = list(first_fails)
    if not [f for f in found if f[0] in ("pure", "crash")]:
        log("searching for a failing input (boundary sweep of split constructors, small scripted loops)")
        # 1. split constructors on a dense small sweep + boundaries
        lines = []
        for s in list(range(0, 40)) + [(1 << 24) - 1, (1 << 24) + 1, (1 << 25) + 3, (1 << 32) + 1, (1 << 40) + 7, (1 << 63) + 11, U64 - 9]:
            for g in [1, 2, 3, 4, 5, 8]:
                lines.append("s1 7 %d %d" % (7 + s, g))
                for n in (2, 3, 4, 5, 7, 8, 16, 31, 100):
                    lines.append("p1 0 %d %d %d %d" % (s, g, n - n // 2, n // 2))
                for s2 in (1, 2, 5, 64):
                    lines.append("sn 2 2 0 %d %d 3 %d %d" % (s, g, 3 + s2, 1))
                    lines.append("sn 3 3 0 %d %d 3 %d %d 0 2 1" % (s, g, 3 + s2, 2))
                    lines.append("sn n 3 1 %d 1 0 %d %d 3 %d %d" % (1 + s2, s, g, 3 + s2, 2))
        exe = cxx_build("C05", "pure", [H + "pure.cpp"], flags=PURE_FLAGS)
        rc, out, err = run_limited([exe], input="\n".join(lines) + "\n", timeout=600)
        impl = out.split("\n")[:-1]
        if rc != 0 and len(impl) < len(lines):
            found.append(("pure", lines[len(impl)], "harness aborted (sanitizer / assertion): %s" % err[-200:].strip()))
        for l, o in zip(lines, impl):
            m = pure_monitor(l, o)
            if m and not nd_rounding_exposed(l):
                found.append(("pure", l, m))
                break
    if not [f for f in found if f[0] == "mock"]:
        # 2. small scripted loops, all kinds / flavours, many seeds (implementation monitors only)
        try:
            scs = sorted(mock_scenarios(ck, 1200 if ck.tier == "quick" else 8000, small=True), key=len)
            fails = run_mock(ck, scs, report=False)
            for sc, m in fails[:1]:
                found.append(("mock", sc, m))
        except BuildError as e:
            log("search: mock harness does not build: %s" % str(e)[:200])
    rep = set()
    for f in found:
        if f[0] == "pure" and "pure" not in rep:
            rep.add("pure")
            ck.counterexample("split:" + f[1].replace(" ", "="), "splitting constructor breaks the property: %s -> %s" % (f[1], f[2]),
                              {"engine": "E-PURE", "harness": H + "pure.cpp", "stdin": f[1] + "\n", "monitor": "pure"})
        elif f[0] == "mock" and "mock" not in rep:
            rep.add("mock")
            ck.counterexample("loop:" + f[1].replace(" ", "="), "parallel_for under the scripted runtime: %s (scenario: %s)" % (f[2], f[1]),
                              {"engine": "E-MOCK", "harness": H + "mock.cpp", "stdin": f[1] + "\n", "monitor": "mock"})
        elif f[0] == "crash" and "pure" not in rep:
            rep.add("pure")
            ck.counterexample("split-crash:" + f[1].replace(" ", "="), "splitting constructor aborts (sanitizer/assertion) on %s: %s" % (f[1], f[2]),
                              {"engine": "E-PURE", "harness": H + "pure.cpp", "stdin": f[1] + "\n", "monitor": "pure"})


# ---------------------------------------------------------------------------------------------
def run(ck):
    ck.rule = ("E-PURE: boundary-biased sizes (0..19, primes, every 2^k and 2^k±1 up to 2^64-1, >2^24, >2^32, near 2^53, random per bit length) x grains "
               "(1,2,3,size/2,size-1,size,size+1,2^k,random) x begins (0, top of the address space, random); proportions n-n/2 : n/2 for n up to 2^24 and "
               "arbitrary 63-bit proportions; 2d/3d/nd (1..5 dims) with small, equal-ratio and huge dimensions; random range_vector op sequences. "
               "E-MOCK: 600 (thorough 20000) scripted loops, sizes 1..5000, 1d/2d/3d/nd, 4 partitioners, max_concurrency 1..1000, steal probabilities "
               "0..100% at spawn / inside bodies / late, optional cancellation; every task replayed by the model. E-REAL: 64 (thorough 1500) real-thread "
               "loops, concurrency 1..16, sizes up to 2^32+1000003. Index form: for each of 6 Index types ~3000 (first,last,step) triples at the edges of the type "
               "(extent and step in {1,2,3,max/4,max/3,max/2,max-2..max, random}, first at min / last at max, step > extent, last-first+step-1 > max), 20 overloads, "
               "non-positive steps, empty spaces, trip counts up to 2^26. E-MOCK for_each/invoke: 240 (thorough 6000) parallel_for_each scenarios (input / forward / random access "
               "iterators over 0..60 items with shuffled ids, feeder trees of depth 0..3 and fan-out 0..3 alternating copy/move add, 1..8 virtual threads, steal probabilities 0..100% at "
               "spawn / inside bodies, LIFO-biased waits) and 44 (thorough 660) parallel_invoke scenarios (2..12 functions, with and without a user context); every trace validated "
               "event by event against the model. E-REAL: 12 (thorough 300) parallel_for_each runs with copy-counting items + feeders depth 3, parallel_invoke 2..12. "
               "distinct = distinct (operation, flavour, outcome class) / (kind, flavour, #tasks, #chunks) classes")
    ck.assumptions += [
        "modelled exactly: blocked_range<size_t> is_divisible/empty/size, midpoint split, float proportional split (binary32 RNE on rationals), the binary64 "
        "dimension choice of blocked_range2d/3d/nd, range_vector ring, adaptive/proportional/linear_affinity/dynamic_grainsize modes, the four partition types' "
        "execute/work_balance/check_being_stolen/check_for_demand/is_divisible/get_split, start_for::execute/offer_work (what is run, what is spawned with which state)",
        "runtime-dependent reads (is_stolen_task, parent ref count >= 2, is_peer_stolen, cancellation) are an arbitrary environment machine; theorems hold for every environment",
        "theorems about proportional splits assume proportions left:right = n-n/2 : n/2 with 2 <= n < 2^24 (i.e. max_concurrency < 2^24) — what get_split produces",
        "theorems about 2d/3d/nd hold for all sizes and grains because the dimension choice is guarded (an indivisible dimension is never preferred); which rule the "
        "code has is regenerated by probing the real constructors on binary64 tie inputs (Generated.C05.sel*Guarded) and tied by the E-PURE correspondence; with the "
        "bare ratio comparison the theorem nd_split_never_cuts_indivisible does not compile and the probe yields the concrete failing input (key nd-split-binary64-tie)",
        "not modelled: which slot a task is mailed to (affinity replay quality), task allocation, the wait tree / reference counting that ends the loop (C01), "
        "exceptions; Value types other than size_t (signed int is covered by E-REAL monitors only); ranges whose proportional constructor is absent",
        "index form: the theorems strided_* are about the expressions regenerated from parallel_for.h (g++/LP64 semantics: int 32, long 64, conversions modulo 2^n, "
        "signed overflow modelled as wrap-around); hypotheses: first < last, step > 0 representable in Index and, for the SIGNED types, last - first <= max(Index) "
        "(the code evaluates last - first in Index / int: beyond that the count is wrong on the unchanged tree, see evidence index_form_signed_extent_beyond_max); "
        "the final `k += ms` after the last iteration of a chunk may wrap (value unused) and is not claimed",
        "parallel_for_each / parallel_invoke: Model/C05Each.lean is a small-step task system (pool of pending tasks, activations = remaining operations of a running task, "
        "reference counters: root wait context, one wait context per block task, forwarding counters = per-thread reference_vertex / subroot ref_count); one step = one "
        "reference-count update, spawn, logged action, one iteration of the root task's for-loop, or the start of a pending task by some thread; a schedule is an arbitrary "
        "list of such choices (any number of threads); what a body feeds is an arbitrary function item -> list of items; the random-access path runs the nested "
        "parallel_for as an arbitrary list of chunks that tiles the index range (what loop_exactly_once_1d provides) spawned flat by the root task (the start_for task "
        "tree and its wait tree are C01/first part of C05); task bypass (root task returns the block task) is modelled as the same activation continuing",
        "parallel_for_each / parallel_invoke NOT modelled: cancellation and exceptions (the cancel() methods), the task_group_context, allocation, which thread runs a "
        "task beyond the choice of reference vertex, the two-step (fetch_add; parent->reserve) of reference_vertex (one atomic step in the model; C01 vertex_forwarding), "
        "the copy held by a feeder_item_task (its construction/destruction is covered by the harness monitors only); for_each_item_lifetime is _partial: copies and "
        "destructions balance (proved), the body call lies between them (monitors only)",
        "observation (not a violation of C05; reproduced on the real library, evidence for_each_copies_alive_at_return): block tasks and feeder_item_tasks release their wait "
        "reference BEFORE destroying the item copies they hold (finalize: release(); delete_object()), so parallel_for_each can return while copies of the user's items are "
        "still alive and are destroyed by a worker thread afterwards (task_group::function_task destroys first, 'Destroy user functor before release wait')",
        "termination of the parallel_for model functions is by fuel; theorems are stated for every fuel that suffices; sufficiency is PROVED for all four partitioners on "
        "blocked_range and every environment: fuel 2*size+2 per task, 3*size+3 for the task tree (loop_terminates); for 2d/3d/nd ranges it is observed on every replayed "
        "task (the driver uses fuel 10^8)",
        "the range_vector ring is tied to the code by its own E-PURE correspondence and to the list used by the task model by the refinement theorems rangevec_tiles/rangevec_refines"]
    ck.trusted += ["harness/c05/r1_mock.h (scripted mock of the r1 entry points; cross-checked by E-REAL monitors)", "harness/c05/{consts,pure,mock,real}.cpp",
                   "lean/Driver/C05.lean (line protocol, legal-split-tree test)", "checks/c05.py (monitors, closure check)", "checks/c05idx.py (TrIdx: C++ index expressions -> Lean with promotions/conversions; shapes of parallel_for_impl and the body wrapper; monitors)", "harness/c05/idx.cpp",
                   "harness/c05/r1_each.h (second scripted mock of r1: task bypass, real waits, per-thread reference vertices), harness/c05/each.cpp (hooks, task descriptions via dynamic_cast, monitors), "
                   "harness/c05/eachconsts.cpp, checks/c05each.py (chunk extraction for the random-access path, monitors), lean/Driver/C05Each.lean (trace validation: lazy reference-count updates, "
                   "frame/activation binding)", "correspondence is sampled, not proved"]
    gen(ck)
    lean_ok = ck.lean_stage()
    lean_broken = [o for o in ck.obligations if not o["ok"] and o["name"].startswith("lean:")]
    ck.extra["lean_only_guard_failures"] = bool(lean_broken) and all("nd_" in o["name"] or "uard" in o["name"] for o in lean_broken)
    fails = []
    probe_nd_tie(ck)
    fails += run_pure(ck)
    run_rv(ck)
    fails += [("mock",) + f for f in run_mock(ck)]
    each_fails = c05each.run_mock(ck, ck.extra["each_consts"])
    run_real(ck)
    idx_exe, idx_bad, idx_cross = c05idx.run_idx(ck, real_libdir(ck))
    if [o for o in ck.broken() if not o.get("explained")]:
        search(ck, fails)
        c05each.search(ck, ck.extra["each_consts"], each_fails)
        if each_fails and not any(k.startswith(("each:", "real-other:")) for k in [c["key"] for c in ck.counterexamples]):
            search_real_each(ck)
        c05idx.search_idx(ck, idx_exe, idx_bad)


def search_real_each(ck):
    """the scripted parallel_for_each traces left the model and the scripted monitors found nothing: many real-thread runs of parallel_for_each
    (+feeder) over the three iterator categories, looking for an item that is not processed exactly once before the call returns"""
    try:
        libdir = real_libdir(ck)
        exe = cxx_build("C05", "real", [H + "real.cpp"], flags=["-O1", "-g", "-pthread"], libs=["-L" + libdir, "-ltbb", "-Wl,-rpath," + libdir])
    except BuildError as e:
        log("search: real harness does not build: %s" % str(e)[:200])
        return
    rng = ck.rng
    log("parallel_for_each: searching with real threads")
    for batch in range(8 if ck.tier == "quick" else 40):
        ol = ["foreach2 %d %d %d %s %d %d" % (rng.choice([1, 2, 3, 4, 5, 7, 8, 9, 17, 100]), rng.choice([0, 1, 2, 3, 3]), rng.randrange(1, 4), "ffi r"[i % 5].strip() or "f",
                                           rng.randrange(2, 17), rng.randrange(1, 1 << 40)) for i in range(120)]
        rc, out, err = run_limited([exe, "60"], input="\n".join(ol) + "\n", timeout=900, mem_kb=16000000)
        oo = out.split("\n")[:-1]
        bad = None
        if rc != 0 or len(oo) != len(ol):
            bad = (ol[min(len(oo), len(ol) - 1)], "rc=%d %s" % (rc, err[-200:]))
        else:
            for l, o in zip(ol, oo):
                f = dict(kv.split("=", 1) for kv in o.split()[1:]) if o != "bad-op" else {"bad": "bad-op"}
                if f.get("bad") != "-" or (o.startswith("F2 ") and (f["dead"] != "0" or f["live"] != "0")):
                    bad = (l, o)
                    break
        if bad:
            ck.counterexample("real-other:" + bad[0].replace(" ", "="), "%s -> %s (found by the real-thread search after the scripted traces left the model)" % bad,
                              {"engine": "E-REAL", "harness": H + "real.cpp", "stdin": bad[0] + "\n", "monitor": "other"})
            return


def replay(ck, obj):
    r = obj["replay"]
    mon = r.get("monitor")
    name = os.path.basename(r["harness"])[:-4]
    if name == "each":
        still = c05each.replay_line(None, r["stdin"])
        print("property holds now" if not still else "STILL FAILS: %s" % still)
        return 1 if still else 0
    if name == "idx":
        still = c05idx.replay_line(real_libdir(), r["stdin"])
        print("property holds now" if not still else "STILL FAILS: %s" % still)
        return 1 if still else 0
    if name == "real":
        libdir = real_libdir()
        exe = cxx_build("C05", "real", [H + "real.cpp"], flags=["-O1", "-g", "-pthread"], libs=["-L" + libdir, "-ltbb", "-Wl,-rpath," + libdir])
    else:
        exe = cxx_build("C05", name, [r["harness"]], flags=PURE_FLAGS if name == "pure" else MOCK_FLAGS)
    rc, out, err = run_limited([exe], input=r["stdin"], timeout=600, mem_kb=24000000)
    print("replay of %s: rc=%d\n%s%s" % (obj.get("key"), rc, out[:2000], err[-500:]))
    lines = r["stdin"].strip().split("\n")
    still = None
    if rc != 0:
        still = "harness aborts: rc=%d" % rc
    elif mon == "pure":
        for l, o in zip(lines, out.split("\n")):
            still = still or pure_monitor(l, o)
    elif mon == "mock":
        res = parse_mock(out)
        for sc, (tasks, M, chunks) in zip(lines, res):
            still = still or mock_monitor(sc, M, chunks)
    elif mon == "rv":
        o = out.split("\n")[:-1]
        try:
            hd, items = o[-1].split("|")
            rs = [tuple(map(int, it.split(":"))) for it in items.split()]
            if any(rs[i][2] != rs[i + 1][1] for i in range(len(rs) - 1)) or int(hd.split()[2]) != len(rs):
                still = "pool %s does not tile" % o[-1]
        except (ValueError, IndexError):
            still = "unparsable %r" % o[-1:]
    elif mon in ("real", "other"):
        for o in out.split("\n"):
            if o.startswith(("M ", "S ", "F ", "I ", "F2 ")):
                f = dict(kv.split("=", 1) for kv in o.split()[1:])
                if f.get("empty", "0") != "0" or f.get("oob", "0") != "0" or f.get("elems", "ok").startswith("bad") or f.get("bad", "-") != "-" or f.get("dead", "0") != "0" or f.get("live", "0") != "0":
                    still = o
    print("property holds now" if not still else "STILL FAILS: %s" % still)
    return 1 if still else 0
