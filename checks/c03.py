"""C03 — a task's exception surfaces exactly once at the wait, after the group stopped (DESIGN.md §3 C03).

Session-3 extension: the CLIENTS of the exception machinery have their own models (Model/C03Exec.lean task_arena::execute, C03Graph.lean
graph::wait_for_all as a wrapper around DispatchEH, C03Pipe.lean parallel_pipeline token ownership), parametrised by catch/rethrow SKELETONS
that checks/c03_skel.py re-extracts from the source text on every run; their event logs are validated by checks/c03_clients.py; harness/c03/spy.cpp
adds white-box observation points (pipeline buffers at the exit, token memory, small-object ledger); harness/shim/verif_hb.h recomputes
happens-before for the exception object and for every body's writes against the thread that leaves the waiting call.

Theorems (lean/TbbVerif/Props/C03.lean) are about two executable models (Model/C03.lean):
  DispatchEH  N dispatching threads, scripted tasks, one context (cancelled flag with single-winner exchange, stored
              exception), wait counter — the try/catch of local_wait_for_all, execute_and_wait's rethrow, task_group's reset;
  ReduceEH    the parallel_reduce join tree (reference counts, zombie bodies, join skipped when cancelled).

Tie: E-SHIM on the WHOLE instrumented runtime (common.shim_runtime_objects()).  harness/c03/eh.cpp runs user code that
throws inside every algorithm / task_group / task_arena::execute / flow graph / pipeline under a FAULT SCHEDULE ("the
k-th fault point of kind K throws", for every k, and pairs) x seeded random thread schedules; implementation-side
monitors M1..M7 (see eh.cpp) check the property itself; the task-level event log of the task_group programs and of the
scripted-task program is validated, action by action, against DispatchEH (drv_c03).
"""
import json
import os
import re
import tempfile
from concurrent.futures import ThreadPoolExecutor

import common
import c03_skel
import c03_clients
from common import REPO, BuildError, cxx_build, drv, gen_write, log, sh

PID = "C03"

# program -> (fault kinds that exist in it, size quick, size thorough)
PROGS = {
    "pfor_simple": (["body", "rsplit", "rcopy", "bcopy"], 8, 12),
    "pfor_auto": (["body", "rsplit", "rcopy", "bcopy"], 8, 12),
    "pfor_static": (["body", "rsplit", "rcopy", "bcopy"], 8, 12),
    "pfor_affinity": (["body", "rsplit", "rcopy", "bcopy"], 8, 12),
    "preduce_simple": (["body", "rsplit", "rcopy", "bsplit", "join"], 8, 12),
    "preduce_auto": (["body", "rsplit", "rcopy", "bsplit", "join"], 8, 12),
    "preduce_affinity": (["body", "rsplit", "rcopy", "bsplit", "join"], 8, 12),
    "pdreduce_simple": (["body", "rsplit", "rcopy", "bsplit", "join"], 8, 12),
    "pdreduce_static": (["body", "rsplit", "rcopy", "bsplit", "join"], 8, 12),
    "pforeach": (["body"], 6, 10),
    "pinvoke2": (["body"], 2, 2),
    "pinvoke3": (["body"], 3, 3),
    "pinvoke5": (["body"], 5, 5),
    "pinvoke7": (["body"], 7, 7),
    "pipeline": (["body", "item"], 5, 8),
    "pipeline1": (["body", "item"], 5, 8),
    "pipeline2": (["body", "item"], 4, 7),
    "tg_handle": (["body"], 5, 8),
    "itg": (["body"], 4, 7),
    "pforeach_cancel": (["body", "item"], 4, 7),
    "flow_prio": (["body"], 4, 7),
    "tg_wait": (["body"], 6, 10),
    "tg_tree": (["body"], 6, 10),
    "tg_raw": (["body"], 5, 8),
    "tg_nested": (["body"], 3, 4),
    "tg_cancel": (["body"], 5, 8),
    "tg_inner": (["body"], 5, 10),
    "pfor_inner": (["body"], 5, 10),
    "flow": (["body", "item"], 5, 8),
    "arena_direct": (["body"], 3, 3),
    "arena_nested": (["body"], 4, 6),
}
EVENT_PROGS = ("tg_wait", "tg_tree", "tg_raw", "raw")
CLIENT_EVENT_PROGS = ("arena_direct", "flow", "flow_prio", "pipeline", "pipeline1")      # event logs validated against ExecEH / GraphEH / PipeEH
PIPE_PROGS = ("pipeline", "pipeline1", "pipeline2")
PAIR_PROGS = {"arena_direct": 3, "pfor_simple": 4, "preduce_auto": 4, "tg_wait": 4, "tg_tree": 4, "pinvoke3": 3, "pinvoke5": 5, "pipeline": 3, "pforeach": 3, "flow": 3}

# Known-finding classes (keys for KNOWN_FINDINGS.txt): fault positions on which the unchanged library breaks the property.
def finding_key(spec, mon):
    prog, faults = spec["prog"], spec["faults"]
    kinds = sorted({f.split(":")[0] for f in faults})
    if prog.startswith(("preduce", "pdreduce")) and "join" in kinds:
        return "reduce-join-throws"
    if prog.startswith("pdreduce") and "rsplit" in kinds and ("still alive" in mon or "never destroyed" in mon) and "Body" in mon:
        return "deterministic-reduce-range-split-throws-leaks-body"
    if prog == "flow" and "item" in kinds and ("HANG" in mon or "CRASH" in mon):
        return "flow-message-copy-throws-leaks-wait-reference"
    if "never deallocated" in mon and (set(kinds) & {"item", "bcopy", "rcopy", "bsplit", "rsplit"}):
        return "task-constructor-throws-leaks-small-object"
    # exactly the tokens that the white-box snapshot found parked in an input buffer at the exit, and only while the tear-down does not clear
    if prog in PIPE_PROGS and faults and "parked in a serial filter's buffer at cancellation were never destroyed" in mon and "although the tear-down" not in mon \
            and "NOT parked" not in mon and not PIPE_CLEARS[0]:
        return "pipeline-cancel-leaks-buffered-tokens"
    return None


SKEL = {}
PIPE_CLEARS = [False]      # generated fact pipeSkel.bufferClears of the current tree (set by gen)


def vclass(mon):
    for pat, name in (("HANG", "hang"), ("happens-before", "hb-race"), ("CRASH", "crash"), ("terminate", "terminate"), ("swallowed", "swallowed"), ("destroyed twice", "double-destroy"),
                      ("still alive", "leak"), ("never destroyed", "leak"), ("never deallocated", "leak"), ("deallocated twice", "double-destroy"), ("not observed", "harness"), ("still running", "early-exit"), ("started after", "late-start"),
                      ("not reusable", "not-reusable"), ("is_cancelled() is false", "flags"), ("exception_thrown() is", "flags"), ("is_cancelled() is true", "flags"), ("reset() left", "flags"), ("dropped without being submitted", "exactly-once"), ("not cancelled", "flags"), ("still cancelled", "not-reset"), ("still holds", "not-reset"), ("not thrown by", "foreign-exception"),
                      ("no body of the group threw", "spurious-exception"), ("join callback executed", "join-on-cancelled"),
                      ("processed", "exactly-once"), ("did not", "lost-work")):
        if pat in mon:
            return name
    return "other"


# fixed, minimal environment for the harness: the initial stack layout (hence every address: ASLR is off) is the same in
# the check, in the search and in a later --replay
HENV = {"PATH": "/usr/bin:/bin", "LANG": "C"}


WRAPS = ["_ZN3tbb6detail2r116execute_and_waitERNS0_2d14taskERNS2_18task_group_contextERNS2_12wait_contextES6_",
         "_ZN3tbb6detail2r115allocate_memoryEm", "_ZN3tbb6detail2r117deallocate_memoryEPv",
         "_ZN3tbb6detail2r18allocateERPNS0_2d117small_object_poolEmRKNS2_14execution_dataE", "_ZN3tbb6detail2r18allocateERPNS0_2d117small_object_poolEm",
         "_ZN3tbb6detail2r110deallocateERNS0_2d117small_object_poolEPvmRKNS2_14execution_dataE", "_ZN3tbb6detail2r110deallocateERNS0_2d117small_object_poolEPvm"]


def build():
    """eh.cpp (programs, monitors) + spy.cpp (white-box observation points; it compiles src/tbb/parallel_pipeline.cpp itself, so the runtime's
    own parallel_pipeline object is left out of the link)."""
    objs = [o for o in common.shim_runtime_objects() if not os.path.basename(o).startswith("parallel_pipeline.cpp")]
    exe = os.path.join(common.BUILD, PID, "eh")
    try:        # a rebuilt runtime object keeps its name: force the relink
        if any(os.path.getmtime(o) >= os.path.getmtime(exe) for o in objs):
            os.remove(exe + ".link.json")
    except OSError:
        pass
    return cxx_build(PID, "eh", ["harness/c03/eh.cpp", "harness/c03/spy.cpp", common.SHIM_SRC],
                     flags=["-O1", "-g", "-fno-access-control", "-I" + REPO + "/src"] + common.SHIM_FLAGS,
                     libs=objs + ["-ldl"] + ["-Wl,--wrap=" + w for w in WRAPS])


# --------------------------------------------------------------------------------------------------
# running batches of specs
# --------------------------------------------------------------------------------------------------

def spec_line(sp):
    f = ",".join(sp["faults"]) if sp["faults"] else "-"
    pre = ""
    if sp.get("script") is not None:
        pre = "script %d " % len(sp["script"]) + " ".join("%d %d %d %s" % (b, j, len(k), " ".join(map(str, k))) for (b, j, k) in sp["script"]) + "\n"
    if sp.get("schedfile"):
        return pre + "replay %s %d %d %s %d %s\n" % (sp["prog"], sp["P"], sp["size"], f, sp.get("flags", 0) | (4 if PIPE_CLEARS[0] else 0), sp["schedfile"])
    return pre + "run %s %d %d %d %d %s %d\n" % (sp["prog"], sp["P"], sp["size"], sp["seed"], sp["stay"], f, sp.get("flags", 0) | (4 if PIPE_CLEARS[0] else 0))


def parse_blocks(out):
    blocks, cur = [], None
    for l in out.split("\n"):
        if l.startswith("run "):
            cur = {"cnt": {}, "obj": {}, "stat": {}, "mon": None, "sched": None, "ev": [], "term": False}
            blocks.append(cur)
        elif cur is None:
            continue
        elif l.startswith("cnt "):
            cur["cnt"] = {k: int(v) for k, v in (w.split("=") for w in l.split()[1:])}
        elif l.startswith("obj "):
            cur["obj"] = {k: v for k, v in (w.split("=") for w in l.split()[1:])}
        elif l.startswith("stat "):
            cur["stat"] = {k: int(v) for k, v in (w.split("=") for w in l.split()[1:])}
        elif l.startswith("ev "):
            cur["ev"].append(l[3:])
        elif l.startswith("mon "):
            cur["mon"] = l[4:]
        elif l.startswith("terminate "):
            cur["term"] = True
        elif l.startswith("CRASH "):
            cur["mon"] = "VIOLATION CRASH %s%s" % (l[6:], " after std::terminate (an exception escaped on that thread)" if cur["term"] else "")
        elif l.startswith("sched"):
            cur["sched"] = l.split()[1:]
        elif l == "end":
            cur = None
    return blocks


def run_chunk(exe, specs):
    """Run specs sequentially in as few processes as possible (a hang / crash ends the process: restart after it)."""
    res = [None] * len(specs)
    i = 0
    while i < len(specs):
        text = "".join(spec_line(s) for s in specs[i:])
        rc, out, err = sh([exe], input=text, timeout=900, env=HENV)
        bl = parse_blocks(out)
        for j, b in enumerate(bl):
            if i + j < len(specs):
                if b["mon"] is None:
                    b["mon"] = "VIOLATION harness ended without a verdict (rc=%d) %s" % (rc, (err or "")[-200:])
                res[i + j] = b
        if not bl:
            res[i] = {"cnt": {}, "obj": {}, "stat": {}, "mon": "VIOLATION harness produced no output (rc=%d) %s" % (rc, (err or "")[-300:]), "sched": None, "ev": []}
            i += 1
        else:
            i += len(bl)
    return res


def run_specs(exe, specs, chunk=1):
    """One process per run: every run starts from the same heap layout (ASLR is off), so a run is a function of its spec
    and reproducible from its schedule (the runtime seeds victim selection etc. from object addresses)."""
    if not specs:
        return []
    chunks = [specs[i:i + chunk] for i in range(0, len(specs), chunk)]
    with ThreadPoolExecutor(max_workers=max(2, common.NCPU - 2)) as ex:
        parts = list(ex.map(lambda c: run_chunk(exe, c), chunks))
    return [r for p in parts for r in p]


# --------------------------------------------------------------------------------------------------
# task-level event log -> DispatchEH action sequence
# --------------------------------------------------------------------------------------------------

class Mismatch(Exception):
    pass


def translate(prog, evs, script=None):
    """Returns (driver text, expected outputs, summary) for one run's event log."""
    # parse
    E = []
    for l in evs:
        w = l.split()
        t = int(w[0])
        if w[1] == "note":
            a = int(w[3]) if len(w) > 3 else -1
            b = int(w[4]) if len(w) > 4 else -1
            if a > (1 << 62):
                a = -1
            if b > (1 << 62):
                b = -1
            E.append((t, "note", w[2], a, b))
        else:
            E.append((t, w[1], w[2], int(w[4]), int(w[5])))       # kind var a b
    acts = []        # (pos, sub, tid, choice, expect-prefix)
    specs = []       # per task instance: [body, join, kids]
    idx_of = {}      # (gid, unit) -> model task index
    rounds = []
    results = []
    fins = {}
    cur = {}         # tid -> dict(task, state)
    lastload = {}    # tid -> (pos, value)
    stack_unit = None
    gid = None
    in_round = False
    seq = [0]

    def emit(pos, tid, choice, expect):
        acts.append((pos, seq[0], tid, choice, expect))
        seq[0] += 1

    def new_task(g, u, parent):
        i = len(specs)
        specs.append(["ok", "ok", []])
        idx_of[(g, u)] = i
        fins[i] = 0
        if parent is None:
            rounds[-1].append(i)
        else:
            specs[parent][2].append(i)
        return i

    def finalize(pos, t, i, want_rel=True):
        emit(pos, t, 0, "destroy %d" % i)
        fins[i] += 1

    exc_ptr = {}     # exception pointer value -> id (the store carries a pointer; the id comes from the thread's throw)
    for pos, e in enumerate(E):
        t, kind = e[0], e[1]
        if kind == "note":
            tag, a, b = e[2], e[3], e[4]
            if tag == "thread_create":
                continue
            if tag == "begin":
                gid = a
                in_round = True
                rounds.append([])
                stack_unit = None
                continue
            if not in_round:
                continue
            c = cur.get(t)
            if tag == "spawn" or tag == "stack":
                if c is None or c["state"] != "running":
                    if t != 0:
                        raise Mismatch("task submitted by thread %d outside of any body" % t)
                    i = new_task(a, b, None)
                    emit(pos, 0, 0, "root %d" % i)
                    if tag == "stack":
                        stack_unit = i
                        emit(pos, 0, 0, "wait")
                else:
                    i = new_task(a, b, c["task"])
                    emit(pos, t, 0, "spawn %d %d" % (c["task"], i))
            elif tag == "wait":
                emit(pos, 0, 0, "wait")
            elif tag == "exec":
                i = idx_of[(a, b)]
                lp = lastload.get(t, (pos, 0))[0]
                emit(lp, t, i, "take %d" % i)
                emit(lp, t, 0, "check exec %d" % i)
                cur[t] = {"task": i, "state": "running"}
            elif tag == "bodyok":
                i = idx_of[(a, b)]
                emit(pos, t, 0, "bodyok %d" % i)
                c["state"] = "fin"
                if i == stack_unit:      # function_stack_task: finalize = release, no destructor event
                    finalize(pos, t, i)
                    emit(pos, t, 0, "fold %d" % i)
                    emit(pos, t, 0, "release")
                    cur[t] = None
            elif tag == "throw":
                i = c["task"]
                if c["state"] == "running":
                    specs[i][0] = "t%d" % b
                    emit(pos, t, 0, "throw %d %d" % (i, b))
                elif c["state"] == "joincheck":      # scripted task: the join callback throws
                    specs[i][1] = "t%d" % b
                    lp = c["joinload"]
                    emit(lp, t, 0, "jointhrow %d %d" % (i, b))
                else:
                    raise Mismatch("throw event in state %s" % c["state"])
                c["state"] = "caught"
                c["exc"] = b
            elif tag == "fin":
                i = idx_of[(a, b)]
                if c is None:        # cancelled without having been executed
                    lp, lv = lastload.get(t, (pos, 1))
                    emit(lp, t, i, "take %d" % i)
                    emit(lp, t, 0, "check cancel %d" % i)
                    cur[t] = c = {"task": i, "state": "fin"}
                elif c["task"] != i:
                    raise Mismatch("thread %d finalises task %d while holding %d" % (t, i, c["task"]))
                elif c["state"] == "recheck":
                    lp, lv = lastload.get(t, (pos, 1))
                    emit(lp, t, 0, "check cancel %d" % i)
                elif c["state"] != "fin":
                    raise Mismatch("fin event in state %s" % c["state"])
                finalize(pos, t, i)
                if prog == "raw":
                    c["state"] = "joincheck"
                    c["joinload"] = None
                else:
                    emit(pos, t, 0, "fold %d" % i)
                    emit(pos, t, 0, "release")
                    cur[t] = None
            elif tag == "rel":
                i = idx_of[(a, b)]
                lp = c.get("joinload")
                emit(lp if lp is not None else pos, t, 0, "fold %d" % i)
                emit(pos, t, 0, "release")
                cur[t] = None
            elif tag in ("ret", "rethrow"):
                # a function_stack_task that was cancelled before it started leaves no event: finalised just before the exit
                if stack_unit is not None and fins[stack_unit] == 0:
                    i = stack_unit
                    emit(pos, 0, i, "take %d" % i)
                    emit(pos, 0, 0, "check cancel %d" % i)
                    finalize(pos, 0, i)
                    emit(pos, 0, 0, "fold %d" % i)
                    emit(pos, 0, 0, "release")
                emit(pos, 0, 0, "leave")
                if tag == "rethrow":
                    emit(pos, 0, 0, "excload %d" % b)
                    emit(pos, 0, 0, "ret rethrow %d out %d" % (b, b))
                    results.append("rethrow %d" % b)
                else:
                    st = {1: "complete", 2: "canceled"}.get(b, "?")
                    emit(pos, 0, 0, "excload -")
                    emit(pos, 0, 0, "ret %s" % st)
                    results.append(st)
                in_round = False
                cur = {}
                lastload = {}
            continue
        if not in_round:
            continue
        var, a, b = e[2], e[3], e[4]
        c = cur.get(t)
        if var == "cancel":
            if kind == "load":
                lastload[t] = (pos, a)
                if c and c["state"] == "caught":
                    emit(pos, t, 0, "cload %d" % a)
                    c["state"] = "xchg" if a == 0 else "recheck"
                elif c and c["state"] == "joincheck" and c["joinload"] is None:
                    c["joinload"] = pos
                elif c and c["state"] == "recheck" and c["task"] == stack_unit and a == 1:
                    i = c["task"]
                    emit(pos, t, 0, "check cancel %d" % i)
                    finalize(pos, t, i)
                    emit(pos, t, 0, "fold %d" % i)
                    emit(pos, t, 0, "release")
                    cur[t] = None
            elif kind == "xchg":
                if c and c["state"] == "xchg":
                    emit(pos, t, 0, "xchg %d" % a)
                    c["state"] = "store" if a == 0 else "recheck"
                else:
                    raise Mismatch("exchange on the cancellation flag by thread %d outside a catch block" % t)
        elif var == "exc":
            if kind == "store" and a != 0:
                if c and c["state"] == "store":
                    emit(pos, t, 0, "store %d" % c["exc"])
                    c["state"] = "recheck"
                else:
                    raise Mismatch("thread %d stores an exception without having won the exchange (state %s)" % (t, c["state"] if c else None))
    acts.sort(key=lambda x: (x[0], x[1]))
    lines = ["reset"]
    for (b, j, kids) in specs:
        lines.append("spec %s %s %s" % (b, j, " ".join(map(str, kids))))
    for r in rounds:
        lines.append("round " + " ".join(map(str, r)))
    lines.append("init")
    expect = []
    for (_, _, t, ch, ex) in acts:
        lines.append("a %d %d" % (t, ch))
        expect.append(ex)
    lines.append("state")
    return "\n".join(lines) + "\n", expect, {"specs": len(specs), "rounds": len(rounds), "results": results, "fins": [fins[i] for i in range(len(specs))], "nact": len(acts)}


def validate_events(prog, evs, script=None):
    """None if the observed task-level event log is a run of DispatchEH, else a description."""
    try:
        text, expect, summ = translate(prog, evs, script)
    except Mismatch as m:
        return "event log is not a dispatch-loop trace: %s" % m, None
    except (KeyError, TypeError, IndexError, ValueError) as ex:
        return "event log cannot be interpreted (%s: %s)" % (type(ex).__name__, ex), None
    out = drv("c03", text)
    nhead = 1 + summ["specs"] + summ["rounds"] + 1
    body = out[nhead:nhead + len(expect)]
    for k, (o, ex) in enumerate(zip(body, expect)):
        if not (o == ex or o.startswith(ex + " ")):
            return "action %d: implementation did '%s', model does '%s'" % (k, ex, o), summ
    if len(body) != len(expect):
        return "model driver stopped early", summ
    st = out[nhead + len(expect)] if len(out) > nhead + len(expect) else ""
    m = re.match(r"count (\d+) cancelled (\d) exc (\S+) tasks (.*) results (.*)$", st)
    if not m:
        return "no final state from the model: %s" % st, summ
    if m.group(1) != "0" or m.group(2) != "0" or m.group(3) != "-":
        return "model final state not quiescent/reset: %s" % st, summ
    mt = [x.split("/") for x in m.group(4).split()]
    for i, x in enumerate(mt):
        if int(x[1]) != summ["fins"][i]:
            return "task %d finalised %d times on the implementation, %s in the model" % (i, summ["fins"][i], x[1]), summ
    if m.group(5).split(",") != summ["results"] and not (m.group(5) == "" and not summ["results"]):
        return "wait results: implementation %s, model %s" % (summ["results"], m.group(5)), summ
    return None, summ


# --------------------------------------------------------------------------------------------------
# generated facts: memory orders on the context words as executed now
# --------------------------------------------------------------------------------------------------
ORD = {"rlx": 0, "cns": 1, "acq": 2, "rel": 3, "acqrel": 4, "sc": 5}


def gen(ck, exe):
    xo = so = lo = None
    r = {"mon": "no run"}
    for (seed, fault) in ((5, "body:1"), (6, "body:0"), (7, "body:2"), (8, "body:0")):
        sp = {"prog": "tg_wait", "P": 3, "size": 4, "seed": seed, "stay": 150, "faults": [fault], "flags": 1}
        r = run_specs(exe, [sp])[0]
        for l in r["ev"]:
            w = l.split()
            if w[1] == "xchg" and w[2] == "cancel":
                xo = ORD.get(w[3])
            if w[1] == "store" and w[2] == "exc" and w[4] != "0" and so is None:
                so = ORD.get(w[3])
            if w[1] == "load" and w[2] == "exc" and w[3] != "rlx" and w[4] != "0":
                lo = ORD.get(w[3])
        if xo is not None and so is not None and lo is not None:
            break
    ck.extra["generated"] = {"cancelXchgOrder": xo, "excStoreOrder": so, "excLoadOrder": lo}
    ok = xo is not None and so is not None and lo is not None
    ck.oblige("gen:memory orders on my_cancellation_requested / my_exception observed in a throwing run", "generated", ok,
              "" if ok else "could not observe exchange/store/load in the trace: %s" % r["mon"])
    # catch / rethrow skeletons of the clients, re-extracted from the source text
    sk, errs, info = c03_skel.all_skeletons(REPO)
    ck.extra["generated"]["skeletons"] = sk
    ck.oblige("gen:catch/rethrow skeletons of task_arena::execute + delegated_task, the dispatcher's catch block, graph::wait_for_all + reset, "
              "stage_task / input_buffer / concrete_filter, task_group::wait / run_and_wait extracted from the source", "generated", not errs, "; ".join(errs))
    PIPE_CLEARS[0] = bool(sk.get("pipeSkel") and sk["pipeSkel"][8] == 1)
    SKEL.update(sk)
    if ok and not errs:      # (when something could not be observed / extracted the previous file stays: an obligation above has failed already)
        body = "def cancelXchgOrder : Nat := %d\ndef excStoreOrder : Nat := %d\ndef excLoadOrder : Nat := %d\n" % (xo or 0, so or 0, lo or 0)
        for name in ("execSkel", "graphSkel", "pipeSkel", "tgSkel", "catchSkel"):
            body += "def %s : List Nat := [%s]\n" % (name, ", ".join(map(str, sk[name])))
        gen_write("C03", body)


# --------------------------------------------------------------------------------------------------
# the check
# --------------------------------------------------------------------------------------------------

def mk(prog, P, size, seed, stay, faults, flags=0, script=None):
    return {"prog": prog, "P": P, "size": size, "seed": seed, "stay": stay, "faults": list(faults), "flags": flags, "script": script}


def random_script(rng, n):
    """scripted-task program: spec 0 is the root; children have larger indices (finite trees)."""
    sc = []
    for i in range(n):
        kids = [rng.randrange(i + 1, n) for _ in range(rng.choice([0, 0, 1, 2, 2, 3]))] if i + 1 < n else []
        body = i if rng.random() < 0.25 else -1
        join = i if rng.random() < 0.15 else -1
        sc.append((body, join, kids))
    return sc


def shrink(exe, spec, is_bad):
    """smaller size / fewer threads / fewer faults that still fail (same seed)."""
    best = dict(spec)
    changed = True
    while changed:
        changed = False
        cands = []
        if len(best["faults"]) > 1:
            for i in range(len(best["faults"])):
                c = dict(best); c["faults"] = best["faults"][:i] + best["faults"][i + 1:]; cands.append(c)
        if best["P"] > 2:
            c = dict(best); c["P"] = best["P"] - 1; cands.append(c)
        if best["size"] > 2 and best.get("script") is None and not best["prog"].startswith("pinvoke"):
            c = dict(best); c["size"] = best["size"] - 1; cands.append(c)
        for c in cands:
            c["flags"] = 2
        rs = run_specs(exe, cands)
        for c, r in zip(cands, rs):
            if r and is_bad(c, r):
                best = c
                changed = True
                break
    best["flags"] = 2
    r = run_specs(exe, [best])[0]
    return best, r


def report(ck, exe, spec, r, obligation_kind="monitor"):
    """Turn one failing run into a (shrunk) counterexample with a replayable schedule."""
    fk = finding_key(spec, r["mon"])
    cls = vclass(r["mon"])

    def bad(c, rr):
        return rr["mon"] != "ok" and vclass(rr["mon"]) == cls and finding_key(c, rr["mon"]) == fk
    small, rs = shrink(exe, spec, bad)
    if rs["mon"] == "ok" or not rs.get("sched"):
        small, rs = dict(spec, flags=2), run_specs(exe, [dict(spec, flags=2)])[0]
    if rs["mon"] == "ok":
        log("run %s faults=%s seed=%d failed once but does not reproduce (harness not deterministic?)" % (spec["prog"], spec["faults"], spec["seed"]))
        rs = dict(rs, mon="NOT REPRODUCIBLE: first run: " + r["mon"])
    kinds = "+".join(sorted({f.split(":")[0] for f in small["faults"]})) or "nofault"
    key = fk or "%s:%s:%s" % (small["prog"], kinds, vclass(rs["mon"]))
    what = "%s P=%d size=%d faults=%s seed=%d: %s" % (small["prog"], small["P"], small["size"], ",".join(small["faults"]) or "-", small["seed"], rs["mon"])
    ck.counterexample(key, what, {"engine": "E-SHIM", "prog": small["prog"], "P": small["P"], "size": small["size"], "faults": small["faults"],
                                  "script": small.get("script"), "seed": small["seed"], "stay": small["stay"],
                                  "schedule": rs.get("sched") or [], "monitor": rs["mon"], "kind": obligation_kind})
    return key


def run(ck):
    quick = ck.tier == "quick"
    rng = ck.rng
    ck.rule = ("E-SHIM on the whole instrumented runtime: 32 programs (session 3: + parallel_pipeline with serial_in_order / parallel-input stage mixes and an explicit context, "
               "task_handle/defer incl. a dropped handle and run_and_wait(handle), isolated_task_group, parallel_for_each whose bodies add feeder items while the group is being cancelled, "
               "flow graph with prioritised nodes, extra schedules of three callers on a full task_arena so that functors are delegated and throw on another thread, "
               "a family of pipeline runs with the fault late in the stream so that tokens are parked in input buffers at cancellation); the original 23: (parallel_for x 4 partitioners, parallel_reduce x 3, parallel_deterministic_reduce x 2, "
               "parallel_for_each with feeder, parallel_invoke 2/3/5/7, parallel_pipeline (serial_in_order, parallel, serial_out_of_order stages, value tokens), "
               "task_group run/wait, tasks submitting tasks, run_and_wait, nested groups, self-cancelling group, flow graph (two function_nodes), "
               "task_arena::execute with the throwing functor / a throwing parallel_for inside, three callers on a full arena so that calls are delegated) "
               "each followed by a second, non-throwing round on the same objects; x fault schedule 'the k-th fault point of kind K throws' for every k "
               "(kinds: body, Range split ctor, Range copy ctor, Body copy ctor, Body split ctor, join, item/message copy) and pairs on the small programs x "
               "seeded random thread schedules with 2-4 threads; plus random scripted-task trees on the real dispatcher. distinct = (program, fault kinds, #thrown, "
               "who-threw-vs-waiter, outcome) classes")
    ck.assumptions += [
        "proved on the models: DispatchEH (any number of threads/tasks/throw scripts, all schedules, sequentially consistent steps) and ReduceEH (any tree shape, all schedules)",
        "one context per model instance: nested groups are covered compositionally (an inner wait that rethrows is a throwing body of the outer group; a nested dispatch loop is one more dispatching thread) "
        "and by the nested programs of the harness; propagation of cancellation to child contexts is C04",
        "NOT modelled: C++ unwinding and destructor order inside user code, std::exception_ptr internals, terminate_on_exception, the distributed (per-thread vertex) wait counter (abstracted to one counter), "
        "memory reclamation of task objects (the harness tracks user-visible objects only)",
        "the library's own task types' cancel()/finalize() paths are tied by the implementation-side monitors under the explored fault/thread schedules (sampled), not by theorems about their code",
        "join callbacks that throw: theorem eh_every_task_finalised_once assumes no throwing join; the model and the real library both finalise such a task twice (reported as finding)"]
    ck.assumptions += [
        "clients (session 3): ExecEH (task_arena::execute: direct / delegated, any thread or the caller itself runs the delegate), GraphEH (wait_for_all handler, flags, reset as a wrapper whose "
        "DispatchEH component is proved to be a DispatchEH run), PipeEH (stage tasks and token objects; parking / waking / recycling are nondeterministic choices that over-approximate the buffer discipline, which is C07's); "
        "theorems are for every skeleton satisfying `ok`, instantiated at the regenerated skeleton by `decide`",
        "NOT modelled in Lean: priority_task_selector objects of prioritised flow-graph nodes, task_handle objects that are dropped without being submitted, isolated_task_group's isolation delegates, "
        "the small-object storage itself (covered by the interposed r1::allocate / deallocate ledger), nodes' internal state after an exception (`needsReset` stands for it)",
        "happens-before monitor (harness/shim/verif_hb.h): the exception object's construction vs the thread that catches the rethrown exception, every body's end vs the thread that leaves the waiting call — "
        "recomputed from the memory orders the code passes; a weakened order that is covered by another synchronisation chain (the wait counter) is not a race and is only seen by exception_publication_orders"]
    ck.trusted += ["checks/c03_skel.py (skeleton extraction by pattern over comment-stripped source text)", "checks/c03_clients.py (event log -> client model actions; canonical DispatchEH schedule for the graph wrapper, "
                   "one model stage task per pipeline item)", "harness/c03/spy.cpp (white-box: input buffers inspected between quiescence and ~pipeline; interposed allocators)",
                   "harness/shim (atomic shim + baton scheduler)", "harness/c03/eh.cpp (instrumented Range/Body/functor/item/exception types, monitors M1-M7)",
                   "event-log -> model-action translation in checks/c03.py (sampled correspondence)"]
    exe = build()
    gen(ck, exe)
    ck.lean_stage()

    nseeds = 4 if quick else 40
    kmax = 16 if quick else 64
    # ---- dry runs: count the fault points of every program under each thread schedule ----------------------------
    base = []
    for prog, (kinds, sq, st) in PROGS.items():
        size = sq if quick else st
        for s in range(nseeds):
            P = 2 + (s + len(prog)) % 3
            seed = ck.seed * 100003 + s * 7 + 1
            base.append(mk(prog, P, size, seed, 48 + 48 * (s % 4), [], 1 if prog in EVENT_PROGS or prog in CLIENT_EVENT_PROGS else 0))
    dry = run_specs(exe, base)
    specs = []
    for b, r in zip(base, dry):
        kinds = PROGS[b["prog"]][0]
        for kind in kinds:
            n = r["cnt"].get(kind, 0)
            ks = list(range(min(n, kmax)))
            if quick and kind in ("join", "item") and len(ks) > 5:      # (classes with known findings: hangs are slow)
                ks = sorted(set(ks[:2] + [ks[len(ks) // 2]] + ks[-2:]))
            for k in ks:
                specs.append(dict(b, faults=["%s:%d" % (kind, k)]))
    # pairs (several throwers, possibly concurrently)
    for prog, size in PAIR_PROGS.items():
        for s in range(12 if not quick else 2):
            P = 3 + s % 2
            seed = ck.seed * 100003 + 5000 + s
            n = size if prog != "pipeline" and prog != "flow" else 3 * size
            n = {"pforeach": size + 2, "tg_tree": size + 2}.get(prog, n)
            pairs = [(i, j) for i in range(n) for j in range(i + 1, n)]
            if quick and len(pairs) > 15:
                pairs = rng.sample(pairs, 15)
            for (i, j) in pairs:
                specs.append(mk(prog, P, size, seed + i * 31 + j, (16, 32, 64)[(i + j) % 3], ["body:%d" % i, "body:%d" % j], 1 if prog in EVENT_PROGS or prog in CLIENT_EVENT_PROGS else 0))
    # mixed kinds
    for prog in ("preduce_auto", "pdreduce_simple", "pfor_affinity", "pipeline", "pipeline1"):
        for s in range(2 if quick else 10):
            kinds = [k for k in PROGS[prog][0] if k != "join"]
            fl = ["%s:%d" % (rng.choice(kinds), rng.randrange(0, 4)) for _ in range(2)]
            specs.append(mk(prog, 3, PROGS[prog][1], ck.seed * 100003 + 9000 + s, 96, sorted(set(fl)), 1 if prog in CLIENT_EVENT_PROGS else 0))
    # parallel_pipeline: tokens parked in a serial filter's buffer at the moment of cancellation (every slot of the buffer: more items than
    # buffer slots, the fault late in the stream, many interleavings)
    for prog in ("pipeline1", "pipeline"):
        for s in range(5 if quick else 40):
            for k in range(6, 27, 1 if not quick else 2):
                specs.append(mk(prog, 2 + (s + k) % 3, 9, ck.seed * 100003 + 40000 + 97 * s + k, (16, 40, 96, 200)[(s + k) % 4], ["body:%d" % k], 1))
    # task_arena::execute: more schedules of the three-callers program (delegation happens only when a caller finds the arena full),
    # every caller's functor throwing in turn
    for s in range(16 if quick else 200):
        k = s % 3
        specs.append(mk("arena_direct", 2 + s % 3, 3, ck.seed * 100003 + 30000 + s, (24, 48, 96, 160)[s % 4], ["body:%d" % k], 1))
        if s % 4 == 0:
            specs.append(mk("arena_direct", 3, 3, ck.seed * 100003 + 31000 + s, 64, ["body:0", "body:1", "body:2"], 1))
    # scripted-task trees on the real dispatcher
    for s in range(120 if quick else 3000):
        sc = random_script(rng, rng.randrange(2, 8))
        specs.append(mk("raw", 2 + s % 3, 0, ck.seed * 100003 + 20000 + s, 32 + 32 * (s % 6), [], 1, script=sc))
    res = run_specs(exe, specs)
    all_specs, all_res = base + specs, dry + res
    # a run is a deterministic function of its spec: a crash that does not show again in two agreeing re-runs of the same spec is
    # an artefact of the machine (e.g. SIGBUS under memory pressure), recorded but not counted
    redo = [i for i, r in enumerate(all_res) if r["mon"] != "ok" and ("CRASH" in r["mon"] or "no output" in r["mon"] or "without a verdict" in r["mon"])]
    unrepro = []
    if redo:
        again = run_specs(exe, [all_specs[i] for i in redo] * 2)
        for n, i in enumerate(redo):
            a, b = again[n], again[n + len(redo)]
            if a["mon"] == b["mon"] and a["mon"] != all_res[i]["mon"]:
                unrepro.append({"spec": {k: all_specs[i][k] for k in ("prog", "P", "size", "seed", "stay", "faults")}, "first": all_res[i]["mon"], "rerun": a["mon"]})
                all_res[i] = a
    if unrepro:
        log("%d crash(es) did not reproduce in two re-runs of the same spec (recorded in the evidence): %s" % (len(unrepro), unrepro[0]))
    ck.extra["unreproducible_crashes"] = unrepro

    # ---- verdicts ------------------------------------------------------------------------------------------------
    bad_mon, bad_known, bad_corr, bad_client = [], {}, [], []
    nclient = {}
    nthrow = nmulti = 0
    for sp, r in zip(all_specs, all_res):
        thrown = r["stat"].get("thrown", 0)
        kinds = tuple(sorted({f.split(":")[0] for f in sp["faults"]}))
        ck.count(1, (sp["prog"], kinds, min(r["stat"].get("maxthrown", 0), 3), sp["P"], vclass(r["mon"]) if r["mon"] != "ok" else "ok"))
        nthrow += 1 if thrown else 0
        nmulti += 1 if r["stat"].get("maxthrown", 0) >= 2 else 0
        if r["mon"] != "ok":
            fk = finding_key(sp, r["mon"])
            if fk:
                bad_known.setdefault(fk, []).append((sp, r))
            else:
                bad_mon.append((sp, r))
            if fk != "pipeline-cancel-leaks-buffered-tokens":
                continue
        if sp["prog"] in EVENT_PROGS and r["ev"]:
            d, summ = validate_events(sp["prog"], r["ev"], sp.get("script"))
            ck.traces_validated += 1
            if d:
                bad_corr.append((sp, r, d))
        if sp["prog"] in CLIENT_EVENT_PROGS and r["ev"]:
            try:
                if sp["prog"] == "arena_direct":
                    d, na = c03_clients.validate_exec(r["ev"], SKEL.get("execSkel", []))
                elif sp["prog"].startswith("flow"):
                    d, na = c03_clients.validate_graph(r["ev"], SKEL.get("graphSkel", []))
                else:
                    d, na = c03_clients.validate_pipe(r["ev"], PIPE_CLEARS[0])
            except (KeyError, TypeError, IndexError, ValueError, AttributeError) as ex:
                d, na = "event log cannot be interpreted (%s: %s)" % (type(ex).__name__, ex), 0
            ck.traces_validated += 1
            nclient[sp["prog"]] = nclient.get(sp["prog"], 0) + 1
            if d:
                bad_client.append((sp, r, d))
    for sp, r in zip(all_specs[:3] + specs[:3], all_res[:3] + res[:3]):
        ck.sample({"program": sp["prog"], "P": sp["P"], "size": sp["size"], "faults": sp["faults"], "seed": sp["seed"], "fault_points": r["cnt"], "objects_created/destroyed": r["obj"], "stat": r["stat"], "monitor": r["mon"]})
    ndeleg = sum(1 for r in all_res if r["stat"].get("delegthrown", 0) > 0)
    if ndeleg == 0:
        log("coverage warning: no run in which a DELEGATED task_arena::execute functor threw")
    ck.extra["runs"] = {"total": len(all_specs), "with_exception": nthrow, "event_logs_validated": ck.traces_validated,
                        "delegated_arena_execute_that_threw": ndeleg, "several_exceptions_thrown_in_one_group": nmulti,
                        "known_finding_runs": {k: len(v) for k, v in bad_known.items()}}

    ck.oblige("monitor:M1-M7 exactly one exception of the group at the waiting call / quiescence at exit / object balance / no exception on a worker / "
              "reusable afterwards / no hang, crash / no join on a cancelled tree — every fault position x schedule", "correspondence", not bad_mon,
              "" if not bad_mon else "%d failing runs; first: %s faults=%s seed=%d: %s" % (len(bad_mon), bad_mon[0][0]["prog"], bad_mon[0][0]["faults"], bad_mon[0][0]["seed"], bad_mon[0][1]["mon"]))
    ck.oblige("corr:task-level event log (take / execute-or-cancel / throw / exchange winner / exception stored / finalise / wait exit, result, reset) is a run of DispatchEH",
              "correspondence", not bad_corr,
              "" if not bad_corr else "%d logs differ; first: %s faults=%s seed=%d: %s" % (len(bad_corr), bad_corr[0][0]["prog"], bad_corr[0][0]["faults"], bad_corr[0][0]["seed"], bad_corr[0][2]))
    ck.oblige("corr:event logs of the clients — task_arena::execute (functor begin/end, catch-block accesses to exec_context, m_wait_ctx.release, m_completed, "
              "the caller's exception load, ~delegated_task, return/rethrow on the caller) is a run of ExecEH; graph::wait_for_all (exception that left, "
              "is_cancelled/exception_thrown, reset) a run of GraphEH; parallel_pipeline (filter bodies, token objects created/destroyed, context words, "
              "tokens parked at the exit, exit) a run of PipeEH", "correspondence", not bad_client,
              "" if not bad_client else "%d logs differ; first: %s faults=%s seed=%d: %s" % (len(bad_client), bad_client[0][0]["prog"], bad_client[0][0]["faults"], bad_client[0][0]["seed"], bad_client[0][2]))
    ck.extra["runs"]["client_event_logs_validated"] = nclient
    bad_corr = bad_corr + bad_client
    for fk, lst in sorted(bad_known.items()):
        known = any(p == PID and k == fk for (p, k, _) in common.known_findings())
        o = {"name": "monitor:fault class '%s'" % fk, "kind": "correspondence", "ok": False,
             "detail": "%d failing runs; first: %s faults=%s: %s" % (len(lst), lst[0][0]["prog"], lst[0][0]["faults"], lst[0][1]["mon"])}
        if known:
            o["explained"] = True
        ck.obligations.append(o)
        log("fault class %s: %d failing runs (%s)" % (fk, len(lst), "known finding" if known else "NOT in KNOWN_FINDINGS.txt"))

    # ---- failing-input search / replays ----------------------------------------------------------------------------
    reported = set()
    for sp, r in bad_mon:
        cls = (sp["prog"], tuple(sorted({f.split(":")[0] for f in sp["faults"]})), vclass(r["mon"]))
        if cls in reported or len(reported) >= 4:
            continue
        reported.add(cls)
        report(ck, exe, sp, r)
    for fk, lst in sorted(bad_known.items()):
        sp, r = min(lst, key=lambda x: (len(x[0]["faults"]), x[0]["size"], x[0]["P"]))
        report(ck, exe, sp, r, "known-class")
    lean_broken = [o for o in ck.broken() if o["kind"] in ("theorem", "audit", "generated")]
    if (bad_corr or lean_broken) and not bad_mon:
        # the model no longer describes the code (or a theorem broke): look harder for an input on which the PROPERTY fails
        found = search(ck, exe, [sp for sp, _, _ in bad_corr][:6], 400 if quick else 3000)
        if not found and bad_corr:
            sp, r, d = bad_corr[0]
            log("no property failure found for the broken correspondence: %s" % d)


def search(ck, exe, seeds_from, budget):
    """More schedules / fault pairs around the cases whose event log left the model; every program when none is given."""
    rng = ck.rng
    specs = []
    progs = [sp for sp in seeds_from] or [mk(p, 3, PROGS[p][1], 1, 96, []) for p in PROGS]
    per = max(1, budget // max(1, len(progs)))
    for sp in progs:
        kinds = PROGS.get(sp["prog"], (["body"],))[0]
        for s in range(per):
            c = dict(sp)
            c["seed"] = rng.randrange(1, 1 << 30)
            c["stay"] = rng.choice([16, 48, 96, 160, 220])
            c["P"] = rng.choice([2, 3, 4])
            if sp.get("script") is None:
                nf = rng.choice([1, 2, 2, 3])
                c["faults"] = sorted({"%s:%d" % (rng.choice(kinds) if rng.random() < 0.3 else "body", rng.randrange(0, max(2, sp["size"]))) for _ in range(nf)})
            c["flags"] = 0
            specs.append(c)
    res = run_specs(exe, specs)
    for sp, r in zip(specs, res):
        ck.count(1)
        if r["mon"] != "ok" and not finding_key(sp, r["mon"]):
            report(ck, exe, sp, r, "search")
            return True
    return False


def replay(ck, obj):
    r = obj["replay"]
    exe = build()
    with tempfile.NamedTemporaryFile("w", suffix=".sched", delete=False) as f:
        f.write(" ".join(map(str, r["schedule"])))
        path = f.name
    sp = {"prog": r["prog"], "P": r["P"], "size": r["size"], "faults": r["faults"], "flags": 0, "script": r.get("script"), "schedfile": path}
    res = run_chunk(exe, [sp])[0]
    os.unlink(path)
    print("replay %s P=%d size=%d faults=%s: %s" % (r["prog"], r["P"], r["size"], ",".join(r["faults"]) or "-", res["mon"]))
    return 0 if res["mon"] == "ok" else 1
