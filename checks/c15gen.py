"""C15 E-GEN, part 2: regenerate from the SOURCE TEXT of $VERIF_REPO
  * the `switch` skeleton of buffer_node::handle_operations_impl (which handler every op kind runs and what the case does
    to the local `try_forwarding`), the position of `derived->order()` and the guard of the task-creating epilogue;
  * the `size_t` index expressions of item_buffer / sequencer_node::internal_push (through checks/cexpr.py: 64-bit
    wrap-around semantics), over which `seqPush64` and the theorem `sequencer_rejects_duplicates_and_keeps_gap_free` are stated;
  * (part b) the structure flags of the join_node front ends.
Returns Lean text for Generated/C15.lean and a list of (obligation name, ok, detail)."""
import os
import re

import cexpr

KEEP, SET_TRUE, ASSIGN, OR_ASSIGN = 0, 1, 2, 3
CASES = [("reg_succ", "internal_reg_succ", "tfRegSucc"), ("rem_succ", "internal_rem_succ", "tfRemSucc"),
         ("req_item", "internal_pop", "tfReqItem"), ("res_item", "internal_reserve", "tfResItem"),
         ("rel_res", "internal_release", "tfRelRes"), ("con_res", "internal_consume", "tfConRes"),
         ("put_item", "internal_push", "tfPutItem"), ("try_fwd_task", "internal_forward_task", "tfTryFwd")]


class GenError(Exception):
    pass


def strip_comments(s):
    out, i, n = [], 0, len(s)
    while i < n:
        c = s[i]
        if c == "/" and i + 1 < n and s[i + 1] == "/":
            while i < n and s[i] != "\n":
                i += 1
        elif c == "/" and i + 1 < n and s[i + 1] == "*":
            j = s.find("*/", i + 2)
            i = n if j < 0 else j + 2
            out.append(" ")
        elif c == '"':
            j = i + 1
            while j < n and s[j] != '"':
                j += 2 if s[j] == "\\" else 1
            out.append(s[i:j + 1])
            i = j + 1
        else:
            out.append(c)
            i += 1
    return "".join(out)


def body_after(text, start_pat, what):
    """the brace-balanced block that follows the first match of start_pat"""
    m = re.search(start_pat, text)
    if not m:
        raise GenError("cannot find %s" % what)
    i = text.index("{", m.end() - 1) if text[m.end() - 1] != "{" else m.end() - 1
    depth, j = 0, i
    while j < len(text):
        if text[j] == "{":
            depth += 1
        elif text[j] == "}":
            depth -= 1
            if depth == 0:
                return text[i + 1:j]
        j += 1
    raise GenError("unbalanced braces in %s" % what)


def norm(s):
    return re.sub(r"\s+", "", s)


def class_text(text, name):
    m = re.search(r"\nclass %s\b[^;{]*\{" % name, text)
    if not m:
        raise GenError("class %s not found" % name)
    return text[m.start():m.start() + 1] + "{" + body_after(text[m.start():], r"class %s\b[^;{]*\{" % name, "class " + name) + "}"


def tf_effect(stmts, handler):
    """classify what a case body does to try_forwarding"""
    b = norm(stmts)
    call = handler + "(tmp)"
    if call not in b:
        raise GenError("case does not call %s(tmp): %s" % (handler, stmts.strip()))
    rest = b.replace(call, "H")
    if "try_forwarding" not in rest:
        if rest.strip(";") != "H":
            raise GenError("unrecognised case body: %s" % stmts.strip())
        return KEEP
    if rest in ("H;try_forwarding=true;", "try_forwarding=true;H;"):
        return SET_TRUE
    if rest == "try_forwarding=H;":
        return ASSIGN
    if rest in ("try_forwarding|=H;", "try_forwarding=H||try_forwarding;", "try_forwarding=try_forwarding||H;", "if(H)try_forwarding=true;",
                "if(H){try_forwarding=true;}", "try_forwarding=try_forwarding|H;", "try_forwarding=H|try_forwarding;"):
        # NB `try_forwarding || H` would short-circuit the handler away: it is not in this list on purpose
        if rest == "try_forwarding=try_forwarding||H;":
            raise GenError("`try_forwarding || handler(tmp)` skips the handler when forwarding was already requested")
        return OR_ASSIGN
    raise GenError("unrecognised treatment of try_forwarding: %s" % stmts.strip())


def gen_skeleton(fg):
    """fg: comment-free text of flow_graph.h.  Returns ({name: code}, [(obligation, ok, detail)], notes)"""
    obl, notes = [], {}
    bn = class_text(fg, "buffer_node")
    impl = body_after(bn, r"void\s+handle_operations_impl\s*\([^)]*\)\s*\{", "buffer_node::handle_operations_impl")
    # canonical names for the locals (a renamed local is a harmless rewrite)
    m = re.search(r"while\s*\(\s*(\w+)\s*\)\s*\{", impl)
    if not m:
        raise GenError("no `while (op_list)` loop in handle_operations_impl")
    lst = m.group(1)
    m2 = re.search(r"switch\s*\(\s*(\w+)->type\s*\)", impl)
    m3 = re.search(r"bool\s+(\w+)\s*=\s*false\s*;", impl.split("while")[0])
    if not m2 or not m3:
        raise GenError("cannot find the loop variable / the try_forwarding flag of handle_operations_impl")
    for old_, new_ in ((lst, "op_list"), (m2.group(1), "tmp"), (m3.group(1), "try_forwarding")):
        impl = re.sub(r"\b%s\b" % re.escape(old_), new_, impl)
    loop = body_after(impl, r"while\s*\(\s*op_list\s*\)\s*\{", "the while(op_list) loop")
    vals = {}
    head = norm(loop.split("switch")[0])
    obl.append(("gen:handle_operations visits the batch in list order (tmp = op_list; op_list = op_list->next)",
                head in ("tmp=op_list;op_list=op_list->next;",), head))
    sw = body_after(loop, r"switch\s*\(\s*tmp->type\s*\)\s*\{", "switch (tmp->type)")
    cases = re.findall(r"case\s+(\w+)\s*:(.*?)break\s*;", sw, flags=re.S)
    seen = {c for c, _ in cases}
    obl.append(("gen:the switch has exactly the eight op kinds", seen == {c for c, _, _ in CASES} and len(cases) == 8, sorted(seen)))
    bodies = dict(cases)
    for kind, handler, name in CASES:
        if kind not in bodies:
            raise GenError("no case %s in handle_operations_impl" % kind)
        vals[name] = tf_effect(bodies[kind], handler)
    after = norm(impl.split(loop)[-1])
    m = re.match(r"\}derived->order\(\);if\((.*?)\)\{if\(is_graph_active\(this->my_graph\)\)\{(?:this->)?forwarder_busy=true;", after)
    guard = m.group(1) if m else None
    obl.append(("gen:epilogue is `derived->order(); if (try_forwarding && !forwarder_busy) { if active { forwarder_busy = true; new task`",
                guard in ("try_forwarding&&!forwarder_busy", "!forwarder_busy&&try_forwarding", "try_forwarding&&!this->forwarder_busy"), after[:160]))
    # informational only (these functions are tied by the differential, a textual change is not an alarm)
    try:
        fwd = norm(body_after(bn, r"void\s+internal_forward_task_impl\s*\([^)]*\)\s*\{", "internal_forward_task_impl"))
        notes["internal_forward_task_impl"] = re.sub(r"__TBB_ASSERT\(.*?\);", "", fwd)[:500]
        notes["forward_task"] = norm(body_after(bn, r"graph_task\s*\*\s*forward_task\s*\(\s*\)\s*\{", "buffer_node::forward_task"))[:400]
    except GenError as e:
        notes["forward"] = str(e)
    return vals, obl, notes


U = lambda n: (n, "u64")


def gen_index(ib, fg):
    """ib: comment-free _flow_graph_item_buffer_impl.h, fg: comment-free flow_graph.h"""
    defs, obl = [], []
    cls = ib
    # element(i): my_array[ <expr> ]
    idxs = {norm(x) for x in re.findall(r"my_array\[\s*([^\]]+?)\s*\]\s*\.begin\(\)", cls) if "new_" not in x}
    rets = re.findall(r"return\s*\*\s*my_array\[\s*([^\]]+?)\s*\]\s*\.begin\(\)\s*;", cls)
    if not rets or len({norm(r) for r in rets}) != 1:
        raise GenError("element(i): cannot find one index expression: %s" % rets)
    defs.append("def slotIdx (i n : Nat) : Nat := %s" % cexpr.translate(rets[0], {"i": U("i"), "my_array_size": U("n")}, want="u64")[0])
    m = re.search(r"bool\s+my_item_valid\s*\(\s*size_type\s+i\s*\)\s*const\s*\{\s*return\s*(.*?);\s*\}", cls, flags=re.S)
    if not m:
        raise GenError("my_item_valid not found")
    e = m.group(1).replace("element(i).state", "st")
    defs.append("def itemValid (i head tail st : Nat) : Bool := %s" %
                cexpr.translate(e, {"i": U("i"), "my_head": U("head"), "my_tail": U("tail"), "st": U("st")}, consts={"no_item": 0}, want="bool")[0])
    m = re.search(r"size_type\s+size\s*\(\s*size_t\s+new_tail\s*=\s*0\s*\)\s*\{\s*return\s*(.*?);\s*\}", cls, flags=re.S)
    if not m:
        raise GenError("item_buffer::size(new_tail) not found")
    defs.append("def sizeOf (newTail tail head : Nat) : Nat := %s" %
                cexpr.translate(m.group(1), {"new_tail": U("newTail"), "my_tail": U("tail"), "my_head": U("head")}, want="u64")[0])
    m = re.search(r"size_type\s+capacity\s*\(\s*\)\s*\{\s*return\s*(.*?);\s*\}", cls)
    obl.append(("gen:item_buffer::capacity() is my_array_size", bool(m) and norm(m.group(1)) == "my_array_size", m.group(1) if m else None))
    m = re.search(r"size_type\s+new_size\s*=\s*(.*?);\s*while\s*\(\s*(.*?)\s*\)\s*(.*?);", cls, flags=re.S)
    if not m:
        raise GenError("grow_my_array size computation not found")
    defs.append("def growInit (n : Nat) : Nat := %s" %
                cexpr.translate(m.group(1), {"my_array_size": U("n")}, consts={"initial_buffer_size": None}, want="u64")[0]
                if False else "def growInit (n ibs : Nat) : Nat := %s" %
                cexpr.translate(m.group(1), {"my_array_size": U("n"), "initial_buffer_size": U("ibs")}, want="u64")[0])
    defs.append("def growCond (ns m : Nat) : Bool := %s" % cexpr.translate(m.group(2), {"new_size": U("ns"), "minimum_size": U("m")}, want="bool")[0])
    obl.append(("gen:grow_my_array doubles (`new_size *= 2`)", norm(m.group(3)) in ("new_size*=2", "new_size=new_size*2", "new_size=2*new_size", "new_size<<=1"), m.group(3)))
    # sequencer_node::internal_push
    sq = class_text(fg, "sequencer_node")
    push = body_after(sq, r"bool\s+internal_push\s*\([^)]*\)\s*override\s*\{", "sequencer_node::internal_push")
    push = re.sub(r"#\s*if\s+!TBB_DEPRECATED_SEQUENCER_DUPLICATES|#\s*endif|#\s*else|#\s*if\s+\w+", "", push)
    m = re.search(r"(\w+)\s+tag\s*=\s*\(\s*\*\s*my_sequencer\s*\)", push)
    obl.append(("gen:the sequence number is held in a size_t (`size_type tag`)", bool(m) and m.group(1) in ("size_type", "size_t"), m.group(1) if m else None))
    m = re.search(r"if\s*\(\s*(.*?)\s*\)\s*\{[^}]*FAILED[^}]*return\s+false\s*;", push, flags=re.S)
    if not m:
        raise GenError("sequencer stale-tag test not found")
    th = lambda s: s.replace("this->", "")
    defs.append("def seqStale (tag head : Nat) : Bool := %s" % cexpr.translate(th(m.group(1)), {"tag": U("tag"), "my_head": U("head")}, want="bool")[0])
    m = re.search(r"size_t\s+new_tail\s*=\s*(.*?);", push, flags=re.S)
    if not m:
        raise GenError("sequencer new_tail not found")
    defs.append("def seqNewTail (tag tail : Nat) : Nat := %s" % cexpr.translate(th(m.group(1)), {"tag": U("tag"), "my_tail": U("tail")}, want="u64")[0])
    m = re.search(r"if\s*\(\s*(this->size\(new_tail\)[^{]*?)\)\s*\{\s*this->grow_my_array\(\s*(.*?)\s*\)\s*;", push, flags=re.S)
    if not m:
        raise GenError("sequencer grow test not found")
    cond = m.group(1).replace("this->size(new_tail)", "sz").replace("this->capacity()", "cap")
    defs.append("def seqGrowCond (sz cap : Nat) : Bool := %s" % cexpr.translate(cond, {"sz": U("sz"), "cap": U("cap")}, want="bool")[0])
    obl.append(("gen:the sequencer grows to size(new_tail)", norm(m.group(2)) == "this->size(new_tail)", m.group(2)))
    rest = norm(push.split(m.group(0))[-1])
    obl.append(("gen:the sequencer sets my_tail = new_tail, then place_item(tag, ...)", rest.startswith("}this->my_tail=new_tail;") and "this->place_item(tag,*(op->elem)" in rest, rest[:120]))
    # place_item refuses an occupied slot
    m = re.search(r"bool\s+place_item\s*\(\s*size_t\s+here\s*,\s*const\s+item_type\s*&\s*me\s*\)\s*\{(.*?)\}", cls, flags=re.S)
    t = norm(re.sub(r"#\s*if\s+!TBB_DEPRECATED_SEQUENCER_DUPLICATES|#\s*endif", "", m.group(1))) if m else ""
    obl.append(("gen:place_item refuses a valid slot", t == "if(my_item_valid(here))returnfalse;set_my_item(here,me);returntrue;", t))
    return defs, obl


def generate(repo):
    fg = strip_comments(open(os.path.join(repo, "include/oneapi/tbb/flow_graph.h")).read())
    ib = strip_comments(open(os.path.join(repo, "include/oneapi/tbb/detail/_flow_graph_item_buffer_impl.h")).read())
    lines, obl, notes = [], [], {}
    try:
        vals, o1, notes = gen_skeleton(fg)
        obl += o1
    except (GenError, cexpr.CExprError) as e:
        vals = {name: ASSIGN for _, _, name in CASES}     # a skeleton no theorem accepts
        obl.append(("gen:handle_operations_impl skeleton recognised", False, str(e)))
    lines += ["def %s : Nat := %d" % (k, v) for k, v in vals.items() if not k.startswith("_")]
    try:
        defs, o2 = gen_index(ib, fg)
        obl += o2
    except (GenError, cexpr.CExprError) as e:
        defs = ["def slotIdx (i n : Nat) : Nat := 0", "def itemValid (i head tail st : Nat) : Bool := false",
                "def sizeOf (newTail tail head : Nat) : Nat := 0", "def growInit (n ibs : Nat) : Nat := 0",
                "def growCond (ns m : Nat) : Bool := false", "def seqStale (tag head : Nat) : Bool := false",
                "def seqNewTail (tag tail : Nat) : Nat := 0", "def seqGrowCond (sz cap : Nat) : Bool := false"]
        obl.append(("gen:item_buffer / sequencer index expressions recognised", False, str(e)))
    lines += defs
    vals = dict(vals); vals["_notes"] = notes
    return "\n".join(lines) + "\n", obl, vals


if __name__ == "__main__":
    import sys
    txt, obl, vals = generate(sys.argv[1] if len(sys.argv) > 1 else "/repo")
    print(txt)
    for o in obl:
        print(o)
