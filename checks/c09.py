"""C09 — concurrent_queue / concurrent_bounded_queue are linearizable FIFO queues (DESIGN.md §3 C09, §4 F3).

Ties (all against /repo's current tree, on every run):
  E-GEN   n_queue, phi, mask width, items_per_page(sizeof T) for sizeof T = 1..300  -> Generated/C09.lean
  E-PURE  lane / base / slot-index arithmetic and the per-lane page chain (pages, masks, head/tail counters) of the real
          micro_queue vs the Lean definitions (`c09pure`, `c09ring`)
  E-SHIM  the real header code (and src/tbb/concurrent_bounded_queue.cpp + concurrent_monitor + semaphore) under the
          controlled scheduler: 2-4 threads x op programs x element size classes; the ticket-level access log
          (tail/head/n_invalid/abort counter, lane turnstiles, page mask, the element move-out) is replayed access by
          access on the Lean model `TicketQ` (`c09q`), operation results and final counters must agree;
          implementation-side monitors independent of the model: conservation, FIFO linearizability of the history
          (capacity-aware for the bounded queue), capacity bound, abort/wake-up and stuck-lane detection via the
          scheduler's deadlock detection, element life-cycle (double destroy / move from a dead slot).
"""
import json
import os
import re
import sys

import common
import c09pg
import c09ops
from common import REPO, cxx_build, drv, gen_write, log, sh

SIZES = [8, 16, 32, 64, 128, 200]          # sizeof(Item) -> items_per_page 32,16,8,4,2,1
IPP = {8: 32, 16: 16, 32: 8, 64: 4, 128: 2, 200: 1}
PG_BAD = []                                 # families whose page-level replay broke (drives the page-window search)
NQ = [8, 3]                                 # n_queue, phi: set from the generated constants in run()
F3_KEY = "bounded-abort-vs-new-pop-ticket"
ALLOC_KEY = "page-alloc-failure-then-pop-dereferences-invalid-page"
FULL_KEY = "bounded-full-after-failed-push"
SETCAP_KEY = "set-capacity-negative-installs-zero"
SKIP_KEY = "bounded-pop-skips-invalid-ticket-without-notify-deadlock"
SETCAP_WAKE_KEY = "set-capacity-raise-does-not-wake-blocked-push"


# --------------------------------------------------------------------------------------------------
# E-GEN
# --------------------------------------------------------------------------------------------------

def gen(ck):
    exe = cxx_build("C09", "consts", ["harness/c09/consts.cpp"], flags=["-O0", "-fno-access-control"])
    rc, out, err = sh([exe], timeout=60)
    c = json.loads(out)
    body = "def n_queue : Nat := %d\ndef phi : Nat := %d\ndef mask_bits : Nat := %d\n" % (c["n_queue"], c["phi"], c["mask_bits"])
    body += "/-- concurrent_bounded_queue::infinite_capacity (what set_capacity(negative) installs) -/\ndef infinite_capacity : Int := %d\n" % c["infinite_capacity"]
    body += "/-- (sizeof(T), micro_queue<T>::items_per_page) for sizeof(T) = 1..300 -/\ndef ipp_table : List (Nat × Nat) := [" + \
        ", ".join("(%d, %d)" % (a, b) for a, b in c["items_per_page"]) + "]\n"
    gen_write("C09", body)
    ck.extra["generated_constants"] = {"n_queue": c["n_queue"], "phi": c["phi"], "mask_bits": c["mask_bits"], "infinite_capacity": c["infinite_capacity"],
                                       "items_per_page_classes": sorted({b for _, b in c["items_per_page"]}, reverse=True)}
    ok = c["n_queue"] > 0 and len(c["items_per_page"]) == 300
    ck.oblige("gen:n_queue/phi/items_per_page extracted from the headers", "generated", ok, json.dumps(ck.extra["generated_constants"]))
    return c


# --------------------------------------------------------------------------------------------------
# E-SHIM harness plumbing
# --------------------------------------------------------------------------------------------------

def build_q(size, extra=()):
    return cxx_build("C09", "q%d" % size,
                     ["harness/c09/q.cpp", common.SHIM_SRC, "harness/c09/stubs.cpp", os.path.join(REPO, "src/tbb/concurrent_bounded_queue.cpp")],
                     flags=["-O1", "-g", "-fno-access-control", "-D__TBB_BUILD", "-DELEM_SIZE=%d" % size, "-I" + os.path.join(REPO, "src")]
                     + list(extra) + common.SHIM_FLAGS)


def scen_text(sc):
    t = "cfg %s %s %d\n" % (sc["kind"], sc["cap"], 1 if sc.get("drain", True) else 0)
    return t + "".join("prog " + " ".join(p) + "\n" for p in sc["progs"])


def parse_runs(out):
    runs, cur = [], None
    for l in out.split("\n"):
        w = l.split()
        if not w:
            continue
        if w[0] == "run":
            cur = {"idx": int(w[1]), "eff": {}, "log": [], "plog": [], "res": {}, "mon": "", "sched": [], "drain": None, "fin": None, "dead": None,
                   "pgfin": None, "pglive": []}
        elif cur is None:
            continue
        elif w[0] == "eff":
            cur["eff"][int(w[1])] = w[2:]
        elif w[0] == "e":
            cur["log"].append(("e", int(w[1]), w[2], w[3], int(w[4]), int(w[5]), int(w[6])))
            cur["plog"].append(cur["log"][-1])
        elif w[0] == "n":
            cur["log"].append(("n", int(w[1]), w[2], int(w[3]), int(w[4])))
            cur["plog"].append(cur["log"][-1])
        elif w[0] == "p":
            cur["plog"].append(("p", int(w[1]), w[2], w[3], int(w[4]), int(w[5])))
        elif w[0] == "pgfin":
            if cur["pgfin"] is None:
                cur["pgfin"] = {}
            cur["pgfin"][int(w[1])] = (int(w[2]), int(w[3]), [int(x) for x in w[5:]])
        elif w[0] == "pglive":
            cur["pglive"] = [int(x) for x in w[1:]]
        elif w[0] == "pgcopy":
            cur.setdefault("pgcopy", {})[int(w[1])] = (int(w[2]), int(w[3]))
        elif w[0] == "pgclear":
            cur["pgclear"] = [int(x) for x in w[1:]]
        elif w[0] == "res":
            cur["res"][int(w[1])] = w[2:]
        elif w[0] == "drain":
            cur["drain"] = w[1:] if w[1:] not in (["STUCK"], ["skipped"]) else w[1]
        elif w[0] == "fin":
            cur["fin"] = [int(x) for x in w[1:]]
        elif w[0] == "mon":
            cur["mon"] = " ".join(w[1:])
        elif w[0] == "dead":
            cur["dead"] = [int(x) for x in w[1:]]
        elif w[0] == "sched":
            cur["sched"] = w[1:]
        elif w[0] == "end":
            runs.append(cur)
            cur = None
    return runs


def run_harness(exe, sc, mode, arg, n=1, timeout=600):
    """Runs the harness; after a deadlock (the process must _exit) continues with the next run index (rand mode)."""
    text = scen_text(sc)
    runs, start, note = [], 0, ""
    while True:
        cmd = [exe, mode, str(arg), str(n)] + ([str(start)] if mode == "rand" else [])
        rc, out, err = sh(cmd, input=text, timeout=timeout)
        rs = parse_runs(out)
        runs += rs
        if rc not in (0, 1, 3) and rs and rs[-1]["dead"] is not None and out.rstrip().endswith("end"):
            rc = 3          # (rare) the process died while tearing down after a fully reported deadlocked run: stuck threads are detached
        if rc not in (0, 1, 3):
            note = "harness crashed rc=%d: %s" % (rc, (err or out)[-400:].replace("\n", " | "))
            # whatever the crashing run printed is lost; record it as a run of its own
            cm = re.search(r"CRASH signal=(\d+) tid=(\d+)\nsched([ \d]*)", out)
            if cm:
                note = "the code under test faulted (signal %s in thread %s) — with the quarantining page allocator: an access to a freed page, or a wild page pointer" % (cm.group(1), cm.group(2))
            runs.append({"idx": (rs[-1]["idx"] + 1) if rs else start, "eff": {}, "log": [], "plog": [], "res": {}, "mon": "CRASH " + note,
                         "sched": cm.group(3).split() if cm else [], "drain": None, "fin": None, "dead": None, "crash": True, "pgfin": None, "pglive": []})
        if mode == "rand" and rc in (3,) or (mode == "rand" and rc not in (0, 1)):
            nxt = runs[-1]["idx"] + 1
            if nxt < n and nxt > start:
                start = nxt
                continue
        break
    m = re.search(r"summary runs=(\d+) bad=(\d+)", out)
    return runs, (int(m.group(1)) if m else None), note


# --------------------------------------------------------------------------------------------------
# correspondence: replay of the ticket-level log on the Lean model
# --------------------------------------------------------------------------------------------------

def model_lines(sc, run, ipp):
    T = len(sc["progs"])
    lines = ["reset %d %s" % (ipp, sc["cap"])]
    for t in range(T):
        lines.append("prog " + " ".join(run["eff"].get(t, [])))
    # hint per event: does the operation the access belongs to end with user_abort?
    opidx = {t: -1 for t in range(T)}
    evs = []
    def cur_op(t):
        e = run["eff"].get(t, [])
        return e[opidx[t]].split(":")[0] if 0 <= opidx[t] < len(e) else None
    for rec in run["log"]:
        if rec[0] == "n":
            if rec[2] == "b":
                opidx[rec[1]] = rec[3]
            elif rec[2] == "r" and cur_op(rec[1]) == "abort":
                evs.append(None)                      # the model's abort() returns now
                lines.append("s %d 0" % rec[1])
            continue
        _, t, kind, var, a, b, ok = rec
        if kind in ("fwait", "fwake"):
            continue
        if var in ("ep0", "ep1"):
            # epoch words of the two monitors: only the aborter's store (= abort_all flushing a non-empty wait-set) concerns the model
            if kind == "store" and cur_op(t) == "abort":
                evs.append(None)
                lines.append("e %d store %s P" % (t, var))
            continue
        res = run["res"].get(t, [])
        aborted = opidx[t] < len(res) and res[opidx[t]] == "aborted"
        evs.append((t, kind, var, a, b, ok))
        lines.append("e %d %s %s %s" % (t, kind, var, "A" if aborted else "P"))
    lines += ["state", "done"]
    return lines, evs


def check_model_output(sc, run, out, evs):
    T = len(sc["progs"])
    out = out[1 + T:]
    for i, e in enumerate(evs):
        if e is None:
            continue
        (t, kind, var, a, b, ok) = e
        m = out[i].split(" | ")
        exp = "%s %s %d %d %d" % (kind, var, a, b, ok)
        if m[0] != exp:
            return "access %d (thread %d): implementation `%s`, model `%s`" % (i, t, exp, m[0])
    st = out[len(evs)].split()
    stm = {st[i]: int(st[i + 1]) for i in range(0, len(st), 2)}
    done = out[len(evs) + 1].split()
    per = {t: [] for t in range(T)}
    for d in done:
        f = d.split(":")
        tid = int(f[0])
        if f[1] == "val":
            per[tid].append("val:" + f[2])
            wit, inside = f[4], f[5]
        else:
            per[tid].append(f[1])
            wit, inside = f[3], f[4]
        if wit != "1":
            return "model: an empty/full answer of thread %d has no instant at which the queue was empty/full" % tid
        if inside != "1":
            return "model: linearisation instant outside the operation's interval (thread %d)" % tid
    for t in range(T):
        r = run["res"].get(t, [])
        if run["dead"] is None:
            if per[t] != r:
                return "thread %d results: implementation %s, model %s" % (t, r, per[t])
        elif per[t] != r[:len(per[t])] or len(per[t]) < len(r) - 1:
            return "thread %d results (deadlocked run): implementation %s, model %s" % (t, r, per[t])
    if run["fin"] and run["dead"] is None and run["drain"] in ([], "skipped", None):
        # the harness read the counters after the drain; compare only when nothing was drained
        pass
    for flag in ("crashed", "underflow"):
        if stm.get(flag):
            return "model reached `%s`" % flag
    run["model_state"] = stm
    return None


def replay_batch(ck, items):
    """items: list of (sc, run, ipp).  One driver invocation for all of them.  Returns list of mismatch descriptions (or None)."""
    lines, meta = [], []
    for sc, run, ipp in items:
        ls, evs = model_lines(sc, run, ipp)
        meta.append((len(lines), len(ls), evs))
        lines += ls
    out = drv("c09q", "\n".join(lines) + "\n") if lines else []
    res = []
    for (sc, run, ipp), (off, n, evs) in zip(items, meta):
        try:
            res.append(check_model_output(sc, run, out[off:off + n], evs))
        except (IndexError, ValueError) as e:
            res.append("model driver output malformed: %r" % (e,))
        ck.traces_validated += 1
    return res


# --------------------------------------------------------------------------------------------------
# implementation-side monitors (use only what the implementation did)
# --------------------------------------------------------------------------------------------------

def history(sc, run):
    """[(tid, opname, arg, result, inv, resp)] with inv/resp = positions in the log; resp = None for pending ops."""
    ops, open_ = [], {}
    for pos, rec in enumerate(run["log"]):
        if rec[0] != "n":
            continue
        _, t, tag, a, b = rec
        if tag == "b":
            open_[t] = (a, pos)
        elif tag == "r":
            i, p0 = open_.pop(t)
            ops.append((t, i, p0, pos))
    hist = []
    for (t, i, p0, p1) in ops:
        eff = run["eff"][t][i].split(":")
        hist.append({"tid": t, "op": eff[0], "v": int(eff[1]) if len(eff) > 1 else None, "res": run["res"][t][i], "inv": p0, "resp": p1})
    for t, (i, p0) in open_.items():
        eff = run["eff"][t][i].split(":")
        hist.append({"tid": t, "op": eff[0], "v": int(eff[1]) if len(eff) > 1 else None, "res": None, "inv": p0, "resp": None})
    return hist


def lin_check(hist, cap0, drained, limit=200000, capfree=False):
    """Wing-Gong search: is the history linearizable w.r.t. a sequential FIFO queue with capacity?
    Completed ops must take effect between inv and resp; pending ops may take effect or not; aborted ops and throwing pushes have
    no effect; after everything, the queue content must equal `drained` (if given)."""
    ops = [h for h in hist if h["op"] in ("push", "bpush", "btrypush", "trypop", "bpop", "setcap")]
    n = len(ops)
    INF = 1 << 60
    resp = [o["resp"] if o["resp"] is not None else INF for o in ops]
    seen = set()
    budget = [limit]

    def apply(o, q, cap):
        r = o["res"]
        k = o["op"]
        if k == "setcap":
            return (q, (None if o["v"] < 0 else o["v"]))
        if k in ("push", "bpush", "btrypush"):
            if r in ("threw", "aborted", "badalloc", "badlast"):
                return (q, cap)
            if r == "full":
                return (q, cap) if (capfree or (cap is not None and len(q) >= cap)) else None
            if r == "ok" or r is None:
                if k != "push" and not capfree and cap is not None and len(q) >= cap:
                    return None
                return (q + (o["v"],), cap)
        if k in ("trypop", "bpop"):
            if r == "aborted":
                return (q, cap)
            if r == "empty":
                return (q, cap) if not q else None
            if r is None:
                return (q[1:], cap) if q else None
            if r.startswith("val:"):
                return (q[1:], cap) if q and q[0] == int(r[4:]) else None
        return None

    def rec(done, q, cap):
        if (done, q, cap) in seen:
            return False
        budget[0] -= 1
        if budget[0] < 0:
            return None
        seen.add((done, q, cap))
        pending_done = all((done >> i) & 1 or ops[i]["resp"] is None for i in range(n))
        if pending_done and (drained is None or list(q) == drained):
            # pending ops that never take effect are fine (still blocked)
            return True
        # minimal response among undone completed ops
        mr = min([resp[i] for i in range(n) if not (done >> i) & 1] + [INF])
        for i in range(n):
            if (done >> i) & 1 or ops[i]["inv"] > mr:
                continue
            nx = apply(ops[i], q, cap)
            if nx is None:
                continue
            r = rec(done | (1 << i), nx[0], nx[1])
            if r is None:
                return None
            if r:
                return True
        return False

    return rec(0, (), cap0)


def monitors(sc, run):
    """Returns (verdict, detail, key) — verdict None if everything the property demands held on this run."""
    if run.get("crash"):
        return "crash", run["mon"], "crash"
    mon = run["mon"]
    hist = history(sc, run)
    has_abort = any(h["op"] == "abort" for h in hist)
    if mon.startswith("VIOLATION") and not (has_abort and mon == "VIOLATION capacity exceeded"):
        return "element-lifecycle", mon, mon.split(" ")[1] if len(mon.split(" ")) > 1 else "?"
    pushed_ok = [h["v"] for h in hist if h["op"] in ("push", "bpush", "btrypush") and h["res"] == "ok"]
    pushed_maybe = [h["v"] for h in hist if h["op"] in ("push", "bpush", "btrypush") and h["res"] is None]
    failed = [h["v"] for h in hist if h["op"] in ("push", "bpush", "btrypush") and h["res"] in ("threw", "aborted", "badalloc", "badlast", "full")]
    popped = [int(h["res"][4:]) for h in hist if h["res"] and h["res"].startswith("val:")]
    drained = [int(x) for x in run["drain"]] if isinstance(run["drain"], list) else None
    got = popped + (drained or [])
    if len(set(got)) != len(got):
        d = sorted(x for x in set(got) if got.count(x) > 1)
        return "duplicated", "value(s) %s delivered more than once (popped %s, drained %s)" % (d, popped, drained), "item-duplicated"
    inv = [x for x in got if x not in pushed_ok and x not in pushed_maybe]
    if inv:
        return "invented", "value(s) %s delivered but never (successfully) pushed; failed pushes: %s" % (inv, failed), "item-invented"
    if run["dead"] is None and run["drain"] == "STUCK":
        return "stuck", "draining try_pop never returns (a lane turn that never comes)", "pop-stuck"
    if drained is not None and run["dead"] is None:
        lost = [x for x in pushed_ok if x not in got]
        if lost:
            return "lost", "value(s) %s pushed successfully but neither popped nor left in the queue (popped %s, drained %s)" % (lost, popped, drained), "item-lost"
    cap0 = None if sc["cap"] == "inf" or sc["kind"] == "u" else int(sc["cap"])
    capfree = False
    if any(h["op"] == "abort" for h in hist):
        # a blocked pop's ticket lets a push through the capacity gate; if that pop is then aborted the queue holds one item more
        # than the capacity (accepted semantics of abort, and excluded by bounded_capacity's hypothesis): check FIFO order only
        cap0, capfree = None, True
    if run["dead"] is not None:
        v = dead_verdict(sc, run, hist)
        if v:
            return v
    lc = lin_check(hist, cap0, drained if run["dead"] is None else None, capfree=capfree)
    if lc is False:
        return "not-linearizable", "history has no FIFO linearization: " + " ".join(
            "%d:%s%s=%s[%s,%s]" % (h["tid"], h["op"], "" if h["v"] is None else "(%d)" % h["v"], h["res"], h["inv"], h["resp"]) for h in hist) + \
            " drained=%s" % drained, "fifo-order"
    if mon not in ("ok", "DEADLOCK", "DRAIN-STUCK") and not (has_abort and mon == "VIOLATION capacity exceeded"):
        return "monitor", mon, "monitor"
    return None


def dead_verdict(sc, run, hist):
    """A deadlocked run is legitimate only if every parked thread is blocked in a blocking op that the FIFO spec also blocks."""
    fin = run["fin"]
    tail, head, ninv, fabort = fin[0], fin[1], fin[2], fin[3]
    capv = None
    cap = sc["cap"]
    for t in run["dead"]:
        pend = [h for h in hist if h["tid"] == t and h["resp"] is None]
        if not pend:
            return "stuck", "thread %d parked outside any operation" % t, "stuck"
        h = pend[0]
        mine = [r for r in run["log"][h["inv"]:] if r[0] == "e" and r[1] == t]
        old = next((r[4] for r in mine if r[2] == "load" and r[3] == "abort"), None)
        if h["op"] == "bpop":
            tk = [r[4] for r in mine if r[2] == "fadd" and r[3] == "head"]
            # the FIFO spec blocks this pop too iff no element is left: every successfully pushed value was delivered.  (Its ticket may
            # belong to a push that failed or was aborted; then nobody wakes it until a later push does, which is what the spec allows.)
            left = len([g for g in hist if g["op"] in ("push", "bpush", "btrypush") and g["res"] == "ok"]) - \
                len([g for g in hist if g["res"] and g["res"].startswith("val:")])
            if tk and old == fabort and (tail <= tk[-1] or left == 0):
                continue
            return "lost-wakeup", "blocking pop of thread %d (ticket %s) never returns although tail=%d head=%d abort=%d (read %s)" % (
                t, tk[-1:] or "-", tail, head, fabort, old), "blocked-pop-never-returns"
        if h["op"] == "bpush":
            tk = [r[4] for r in mine if r[2] == "fadd" and r[3] == "tail"]
            c = None if cap == "inf" else int(cap)
            for g in hist:
                if g["op"] == "setcap":
                    c = "?"
            if tk and c not in (None, "?") and head <= tk[-1] - c and old == fabort:
                continue
            return "lost-wakeup", "blocking push of thread %d (ticket %s) never returns although head=%d tail=%d cap=%s abort=%d (read %s)" % (
                t, tk[-1:] or "-", head, tail, cap, fabort, old), "blocked-push-never-returns"
        return "stuck", "thread %d never returns from non-blocking %s (stuck lane turnstile)" % (t, h["op"]), "%s-stuck" % h["op"]
    return None


def undo_hazard(run):
    """Did an aborted pop execute `head_counter--` while not holding the latest pop ticket?  (shape of DESIGN §4 F3)"""
    last = {}
    for rec in run["log"]:
        if rec[0] != "e":
            continue
        _, t, kind, var, a, b, ok = rec
        if var == "head" and kind in ("fadd",) or (var == "head" and kind == "cas" and ok):
            last[t] = a
        if var == "head" and kind == "fsub" and t in last and last[t] + 1 != a:
            return True
    return False


# --------------------------------------------------------------------------------------------------
# E-PURE: arithmetic and page chain of the real micro_queue vs the Lean definitions
# --------------------------------------------------------------------------------------------------

def pure_stage(ck, consts):
    quick = ck.tier == "quick"
    exe = cxx_build("C09", "pure", ["harness/c09/pure.cpp", "harness/c09/stubs.cpp"], flags=["-O1", "-g", "-fno-access-control"])
    rng = ck.rng
    nq = consts["n_queue"]
    bad = []
    n = 0
    for size in SIZES:
        ipp = IPP[size]
        ks = list(range(0, 4 * nq * max(ipp, 2) + 3)) + [rng.randrange(1 << 20) for _ in range(200 if quick else 3000)] + \
            [(1 << e) + d for e in (31, 32, 40, 63) for d in (-1, 0, 1)] + [(1 << 64) - 1 - i for i in range(20)]
        rc, out, err = sh([exe, str(size)], input="".join("tk %d\n" % k for k in ks), timeout=300)
        impl = out.split("\n")[:-1]
        mod = drv("c09pure", "".join("tk %d %d\n" % (ipp, k) for k in ks))
        for k, a, b in zip(ks, impl, mod):
            n += 1
            bw = b.split()
            # model prints: lane base baseAnd idx idxAnd page ; implementation: lane (k & -n_queue) idx page
            if len(bw) != 6 or a.split() != [bw[0], bw[1], bw[3], bw[5]] or bw[1] != bw[2] or bw[3] != bw[4]:
                bad.append("sizeof(T)=%d k=%d: implementation `%s`, model `%s`" % (size, k, a, b))
        ck.count(len(ks), ("pure", size))
    ck.oblige("corr:lane/base/slot-index arithmetic of the real helpers = Lean definitions (E-PURE, %d tickets)" % n, "correspondence", not bad, "; ".join(bad[:3]))
    # page chains
    bad = []
    nops = 0
    hung = False
    for size in SIZES:
        ipp = IPP[size]
        for rep in range(2 if quick else 10):
            ops = []
            inq = 0
            length = min(60 + 10 * nq * ipp // 4, 700) if quick else min(200 + 10 * nq * ipp, 3000)
            burst = 0
            for _ in range(length):
                if burst > 0 or rng.random() < 0.55:
                    ops.append("push %d" % (0 if rng.random() < 0.15 else 1))
                    inq += 1
                    burst = burst - 1 if burst > 0 else (rng.choice([0, 0, nq * ipp + 3]) if rng.random() < 0.1 else 0)
                else:
                    ops.append("pop")
            if hung:
                break
            rc, out, err = sh([exe, str(size)], input="\n".join(ops) + "\n", timeout=30)
            impl = out.split("\n")[:-1]
            if rc == -9:
                # a sequential operation of the real queue never returned (no scheduler here: nothing else can help it)
                hung = True
                k = min(len(impl), len(ops) - 1)
                bad.append("sizeof(T)=%d: sequential `%s` (op %d) never returns" % (size, ops[k], k))
                ck.counterexample("sequential-op-never-returns", "single thread, concurrent_queue<T> with sizeof(T)=%d: after %s the call `%s` never returns" % (
                    size, ops[:k][-12:], ops[k]), {"engine": "E-PURE", "sizeof_T": size, "ops": ops[:k + 1]})
                break
            if rc != 0 or len(impl) != len(ops):
                bad.append("sizeof(T)=%d: harness rc=%d %s" % (size, rc, err[-200:]))
                continue
            # per-lane model drivers
            lanes = {l: ["reset %d" % ipp] for l in range(nq)}
            tail = head = 0
            marks = []                       # (op index, lane, number of model lines of that lane so far)
            tickets = []
            for i, o in enumerate(ops):
                if o.startswith("push"):
                    tickets.append(("push", tail, o.split()[1]))
                    tail += 1
                else:
                    # a try_pop draws head tickets while tail > head; every ticket that meets an invalid slot is a lane pop of its own
                    tk = []
                    while head < tail:
                        tk.append(head)
                        head += 1
                        if pushed_valid(tickets, tk[-1]):
                            break
                    tickets.append(("pop", tk, None))
            lane_of = {}
            allk = sorted({t[1] for t in tickets if t[0] == "push"})
            if allk:
                lo = drv("c09pure", "".join("tk %d %d\n" % (ipp, k) for k in allk))
                lane_of = {k: int(x.split()[0]) for k, x in zip(allk, lo)}
            for i, t in enumerate(tickets):
                if t[0] == "push":
                    l = lane_of[t[1]]
                    lanes[l] += ["prep", "pub %s" % t[2]]
                    marks.append((i, l, len(lanes[l])))
                elif t[0] == "pop":
                    for k in t[1]:
                        if k in lane_of:
                            l = lane_of[k]
                            lanes[l].append("pop")
                            marks.append((i, l, len(lanes[l])))
            outs = {l: drv("c09ring", "\n".join(lanes[l]) + "\n") for l in range(nq)}
            state = {l: (0, 0, []) for l in range(nq)}
            mi = 0
            for i in range(len(ops)):
                while mi < len(marks) and marks[mi][0] == i:
                    _, l, ln = marks[mi]
                    w = outs[l][ln - 1].split()
                    if "stuck" in w:
                        state[l] = "stuck"
                    else:
                        j = w.index("hr")
                        pages = w[w.index("pages") + 1:]
                        state[l] = (int(w[j + 1]), int(w[j + 3]), [int(p.split(":")[1]) for p in pages])
                    mi += 1
                got = {}
                for m in re.finditer(r"L(\d+) (\d+) (\d+) ([\d,]*);", impl[i]):
                    got[int(m.group(1))] = (int(m.group(2)), int(m.group(3)), [int(x) for x in m.group(4).split(",") if x])
                nops += 1
                if got != state:
                    dl = [l for l in range(nq) if got.get(l) != state[l]]
                    bad.append("sizeof(T)=%d after op %d (%s): lane %s implementation (head round, tail round, masks) %s, model %s" % (
                        size, i, ops[i], dl[:1], [got.get(l) for l in dl[:1]], [state[l] for l in dl[:1]]))
                    break
            ck.count(len(ops), ("ring", size, rep))
    ck.oblige("corr:per-lane page chain (head/tail rounds, pages, masks) of the real micro_queue = Lean `Ring` (E-PURE, %d ops)" % nops,
              "correspondence", not bad, "; ".join(bad[:2]))
    return not bad


def pushed_valid(tickets, k):
    for t in tickets:
        if t[0] == "push" and t[1] == k:
            return t[2] == "1"
    return True


# --------------------------------------------------------------------------------------------------
# scenarios
# --------------------------------------------------------------------------------------------------

class Vals:
    def __init__(self):
        self.n = 0

    def next(self):
        self.n += 1
        return self.n


def gen_unbounded(rng):
    v = Vals()
    T = rng.choice([2, 2, 3, 3, 4])
    progs = []
    for t in range(T):
        role = rng.choice(["prod", "cons", "mix", "mix"])
        ops = []
        for _ in range(rng.randrange(2, 6)):
            push = role == "prod" or (role == "mix" and rng.random() < 0.5)
            ops.append("push:%d:%s" % (v.next(), "c" if rng.random() < 0.15 else "n") if push else "trypop")
        progs.append(ops)
    return {"kind": "u", "cap": "inf", "progs": progs}


def gen_alloc(rng):
    v = Vals()
    T = rng.choice([1, 2, 3])
    progs = [["push:%d:%s" % (v.next(), "a" if rng.random() < 0.25 else "n") for _ in range(rng.randrange(2, 6))] for _ in range(T)]
    return {"kind": "u", "cap": "inf", "progs": progs, "drain": False}


def gen_bounded(rng):
    v = Vals()
    cap = rng.choice(["1", "2", "3", "inf"])
    T = rng.choice([2, 3, 3, 4])
    progs = []
    for t in range(T):
        role = rng.choice(["prod", "cons", "mix"])
        ops = []
        for _ in range(rng.randrange(2, 5)):
            push = role == "prod" or (role == "mix" and rng.random() < 0.5)
            if push:
                f = "c" if (cap == "inf" and rng.random() < 0.15) else "n"
                ops.append("%s:%d:%s" % (rng.choice(["bpush", "bpush", "btrypush"]), v.next(), f))
            else:
                ops.append(rng.choice(["bpop", "trypop", "trypop"]))
        progs.append(ops)
    return {"kind": "b", "cap": cap, "progs": progs}


def gen_abort(rng):
    """abort scenarios with a single consumer thread (two overlapping pops + abort is the known F3 shape)"""
    v = Vals()
    cap = rng.choice(["1", "2", "inf"])
    cons = [rng.choice(["bpop", "bpop", "trypop"]) for _ in range(rng.randrange(1, 4))]
    progs = [cons]
    for _ in range(rng.choice([1, 2])):
        progs.append(["%s:%d:n" % (rng.choice(["bpush", "bpush", "btrypush"]), v.next()) for _ in range(rng.randrange(1, 4))])
    ab = ["abort"] * rng.choice([1, 1, 2])
    if rng.random() < 0.5:
        progs.append(ab)
    else:
        p = progs[1 + rng.randrange(len(progs) - 1)]
        for a in ab:
            p.insert(rng.randrange(len(p) + 1), a)
    return {"kind": "b", "cap": cap, "progs": progs}


U_CORPUS = [
    {"kind": "u", "cap": "inf", "progs": [["push:1:n", "push:2:n"], ["trypop", "trypop"]]},
    {"kind": "u", "cap": "inf", "progs": [["push:1:n", "push:2:c", "push:3:n"], ["trypop", "trypop"], ["trypop"]]},
    {"kind": "u", "cap": "inf", "progs": [["push:1:n", "trypop"], ["push:2:n", "trypop"]]},
    # page boundaries: 2 full rounds of every lane and more (items_per_page 1 and 2 cross pages, recycle them)
    {"kind": "u", "cap": "inf", "progs": [["push:%d:n" % i for i in range(1, 19)], ["trypop"] * 9, ["trypop"] * 9], "sizes": [128, 200]},
    {"kind": "u", "cap": "inf", "progs": [["push:%d:%s" % (i, "c" if i in (3, 9) else "n") for i in range(1, 19)] + ["trypop"] * 18], "sizes": [64, 128, 200]},
    # two producers share the pages of every lane (consecutive rounds of a lane belong to different threads), a consumer retires them
    {"kind": "u", "cap": "inf", "progs": [["push:%d:n" % i for i in range(1, 10)], ["push:%d:n" % i for i in range(11, 20)], ["trypop"] * 12], "sizes": [128, 32]},
]
B_CORPUS = [
    {"kind": "b", "cap": "1", "progs": [["bpush:1:n", "bpush:2:n"], ["bpop", "bpop"]]},
    {"kind": "b", "cap": "2", "progs": [["bpush:1:n", "bpush:2:n", "bpush:3:n"], ["bpop", "trypop", "bpop"]]},
    {"kind": "b", "cap": "1", "progs": [["btrypush:1:n", "btrypush:2:n"], ["bpop"], ["bpush:3:n"]]},
    {"kind": "b", "cap": "inf", "progs": [["bpop"], ["bpop"], ["bpush:1:n", "bpush:2:c", "bpush:3:n"]]},
    # capacity changes (set_capacity is a plain store: only meaningful between operations)
    {"kind": "b", "cap": "1", "progs": [["btrypush:1:n", "btrypush:2:n", "setcap:2", "btrypush:3:n", "btrypush:4:n", "setcap:5", "btrypush:5:n", "trypop", "setcap:0", "btrypush:6:n", "trypop"]]},
]
A_CORPUS = [
    # blocked push aborted, its ticket is skipped by the consumer later
    {"kind": "b", "cap": "1", "progs": [["bpush:1:n", "bpush:2:n"], ["abort", "trypop", "trypop", "trypop"]]},
    {"kind": "b", "cap": "inf", "progs": [["bpop", "bpop"], ["abort"], ["bpush:1:n"]]},
    {"kind": "b", "cap": "1", "progs": [["bpop", "trypop"], ["bpush:1:n", "bpush:2:n", "abort"], ["abort"]]},
]
# DFS scenarios must not have schedules in which a blocking call legitimately blocks for ever (the harness cannot continue after a deadlock)
# a pop preempted between "lane head advanced" and "element moved out" while another pop works through the next round of the same lane
U_DFS_PAGES = [
    {"kind": "u", "cap": "inf", "progs": [["push:%d:n" % i for i in range(1, 19)], ["trypop"] * 2, ["trypop"] * 9], "sizes": [128], "dfs_bound": 1},
    {"kind": "u", "cap": "inf", "progs": [["push:%d:n" % i for i in range(1, 19)], ["trypop"] * 2, ["trypop"] * 9], "sizes": [8], "dfs_bound": 1},
]
A_DFS = [
    {"kind": "b", "cap": "inf", "progs": [["bpop"], ["abort"], ["bpush:1:n"]]},
    {"kind": "b", "cap": "1", "progs": [["bpush:1:n", "bpush:2:n"], ["abort"], ["bpop"]]},
]
F3_SCENARIO = {"kind": "b", "cap": "inf", "progs": [["bpop"], ["abort"], ["bpop"], ["bpush:1:n", "bpush:2:n"]]}
F3_SCRIPT = "0*,1*,2*,0*,3*,2*"
ALLOC_SCENARIO = {"kind": "u", "cap": "inf", "progs": [["push:1:a", "trypop"]], "drain": False}
FULL_SCENARIO = {"kind": "b", "cap": "1", "progs": [["bpush:1:c", "btrypush:2:n"]]}
SKIP_SCENARIO = {"kind": "b", "cap": "1", "progs": [["bpush:1:n"], ["bpush:2:c"], ["trypop"], ["bpush:3:n"], ["trypop"]]}
SKIP_SCRIPT = "0*,1*,2*,1*,3*,4*"
SETCAP_SCENARIO = {"kind": "b", "cap": "inf", "progs": [["setcap:-1", "btrypush:1:n"]]}


# --------------------------------------------------------------------------------------------------
# running a family
# --------------------------------------------------------------------------------------------------

def analyse(ck, exes, size, sc, runs, tally, family):
    """model replay + monitors for a list of runs of one scenario"""
    ipp = IPP[size]
    ok_runs = [r for r in runs if not r.get("crash")]
    res = replay_batch(ck, [(sc, r, ipp) for r in ok_runs])
    for r, d in zip(ok_runs, res):
        if d:
            tally["corr"].append((size, sc, r, d))
    for r in ok_runs:
        d, info = c09pg.replay_one(r, NQ[0], NQ[1], ipp, len(sc["progs"]))
        tally.setdefault("pg", {"n": 0, "events": 0, "tolerated": 0, "quiescent": 0, "skipped": 0, "copyclear": 0, "bad": []})
        pg = tally["pg"]
        pg["n"] += 1
        pg["events"] += info["events"]
        pg["tolerated"] += info["tolerated_loads"]
        pg["quiescent"] += 1 if info.get("quiescent_compared") else 0
        pg["skipped"] += 1 if info.get("skipped") else 0
        pg["copyclear"] += 1 if info.get("copy_clear_compared") else 0
        if d:
            pg["bad"].append((size, sc, r, d))
    for r in runs:
        v = monitors(sc, r)
        hz = (not r.get("crash")) and undo_hazard(r)
        if v:
            tally["mon"].append((size, sc, r, v, hz))
        kinds = tuple(sorted({(x[2], x[3][:2]) for x in r["log"] if x[0] == "e"}))
        ck.count(1, (family, size, len(sc["progs"]), kinds, tuple(tuple(x) for x in r["res"].values()), r["dead"] is not None))
        tally["runs"] += 1
        tally["dead"] += 1 if r["dead"] is not None else 0


def run_family(ck, exes, family, scenarios, nrand, tally):
    for si, sc in enumerate(scenarios):
        sizes = sc.get("sizes") or [SIZES[(si + ck.seed) % len(SIZES)]]
        for size in sizes:
            runs, _, note = run_harness(exes[size], sc, "rand", ck.seed * 100003 + si * 17 + size, nrand)
            analyse(ck, exes, size, sc, runs, tally, family)
            if si < 1 and runs and not runs[0].get("crash"):
                r = runs[0]
                ck.sample({"family": family, "sizeof_T": size, "scenario": sc["progs"], "kind": sc["kind"], "cap": sc["cap"],
                           "results": r["res"], "drained": r["drain"], "ticket_log_head": [" ".join(str(x) for x in e[1:]) for e in r["log"] if e[0] == "e"][:14]})


def dfs_family(ck, exes, family, scenarios, bound, maxruns, tally):
    total = 0
    for si, sc in enumerate(scenarios):
        size = (sc.get("sizes") or [SIZES[(si + 1) % len(SIZES)]])[0]
        runs, n, note = run_harness(exes[size], sc, "dfs", sc.get("dfs_bound", bound), maxruns, timeout=1500)
        total += n or 0
        if runs:                     # dfs mode prints only the failing run
            analyse(ck, exes, size, sc, runs[-1:], tally, family + "-dfs")
            exempt = runs[-1]["mon"] == "VIOLATION capacity exceeded" and any("abort" in p for p in sc["progs"])
            if (not tally["mon"] or tally["mon"][-1][2] is not runs[-1]) and runs[-1]["mon"].startswith("VIOLATION") and not exempt:
                tally["mon"].append((size, sc, runs[-1], ("harness-monitor", runs[-1]["mon"], "harness-monitor"), undo_hazard(runs[-1])))
            if runs[-1]["dead"] is not None and not (tally["mon"] and tally["mon"][-1][2] is runs[-1]):
                log("note: DFS of %s stopped at a legitimate deadlock after %s runs" % (sc["progs"], n))
    ck.evaluations += total
    return total


def skip_shape(sc, r):
    """a pop attempt skipped an invalidated ticket (no notification of blocked pushers follows a skip) in a bounded queue with a finite capacity"""
    return sc["kind"] == "b" and sc["cap"] != "inf" and any(x[0] == "e" and x[2] == "fsub" and x[3] == "ninv" for x in r["log"])


def key_of(sc, r, v, hz):
    if hz:
        return F3_KEY
    if v[0] in ("lost-wakeup", "stuck") and not r.get("crash") and skip_shape(sc, r):
        return SKIP_KEY
    return v[2]


def report(ck, tally, name):
    """turn the tally of a family into obligations + counterexamples"""
    corr, mon = tally["corr"], tally["mon"]
    known = [m for m in mon if key_of(m[1], m[2], m[3], m[4]) in (F3_KEY, SKIP_KEY)]       # runs that show a known shape
    other = [m for m in mon if key_of(m[1], m[2], m[3], m[4]) not in (F3_KEY, SKIP_KEY)]
    corr_other = [c for c in corr if not undo_hazard(c[2])]
    pg = tally.get("pg")
    if pg is not None:
        b = pg["bad"]
        ck.oblige("corr:%s page-level access log (head_page/tail_page/page_mutex/mask/alloc/free/construct/move-out) replays on the lane model Pg; "
                  "chains and live pages agree at quiescence, copy construction + clear() of the end state = copyLane / clearPages "
                  "(%d runs, %d events, %d quiescent snapshots, %d copy/clear comparisons, %d tolerated loads, %d skipped: tickets not unique)"
                  % (name, pg["n"], pg["events"], pg["quiescent"], pg["copyclear"], pg["tolerated"], pg["skipped"]), "correspondence", not b,
                  "" if not b else "%s | sizeof(T)=%d scenario %s cap %s | schedule %s" % (b[0][3], b[0][0], b[0][1]["progs"], b[0][1]["cap"], " ".join(b[0][2]["sched"][:400])))
        ck.extra.setdefault("page_replay", {})[name] = {k: pg[k] for k in ("n", "events", "tolerated", "quiescent", "copyclear", "skipped")}
        if b:
            PG_BAD.append(name)
    ck.oblige("corr:%s ticket-level access log replays on TicketQ (accesses, values, results)" % name, "correspondence", not corr_other,
              "" if not corr_other else "%s | sizeof(T)=%d scenario %s cap %s | schedule %s" % (
                  corr_other[0][3], corr_other[0][0], corr_other[0][1]["progs"], corr_other[0][1]["cap"], " ".join(corr_other[0][2]["sched"][:400])))
    o = ck.oblige("monitor:%s conservation / FIFO linearizability / capacity / no stuck or lost wake-up / element life-cycle" % name, "correspondence",
                  not other and not known, "" if not mon else "%s | sizeof(T)=%d scenario %s cap %s" % (mon[0][3][1][:600], mon[0][0], mon[0][1]["progs"], mon[0][1]["cap"]))
    seen = set()
    for (size, sc, r, v, hz) in (other + known)[:6]:
        key = key_of(sc, r, v, hz)
        if key in seen:
            continue
        seen.add(key)
        ck.counterexample(key, "%s: %s (sizeof(T)=%d, %s queue cap %s, programs %s)" % (v[0], v[1][:500], size, "bounded" if sc["kind"] == "b" else "unbounded", sc["cap"], sc["progs"]),
                          {"engine": "E-SHIM", "sizeof_T": size, "scenario": sc, "schedule": r["sched"], "verdict": list(v), "results": r["res"], "drained": r["drain"]})
    if known and not other and ck.obligations:
        ck.obligations[-1]["explained"] = True
    return o


def shrink(ck, exes, size, sc, key, budget=40):
    """greedy op removal while some schedule (bounded-preemption DFS, then random) still violates with the same key"""
    def fails(s):
        for mode, arg, n in (("dfs", 2, 3000), ("rand", ck.seed + 7, 60)):
            runs, _, _ = run_harness(exes[size], s, mode, arg, n, timeout=300)
            cand = runs[-1:] if mode == "dfs" else runs
            for r in cand:
                v = monitors(s, r)
                if v is None and r["mon"] not in ("ok",) and mode == "dfs":
                    v = ("harness-monitor", r["mon"], "harness-monitor")
                if v and (v[2] == key or key_of(s, r, v, (not r.get("crash")) and undo_hazard(r)) == key):
                    return r, v
        return None
    best = None
    cur = sc
    improved = True
    while improved and budget > 0:
        improved = False
        for t in range(len(cur["progs"])):
            for i in range(len(cur["progs"][t])):
                budget -= 1
                if budget <= 0:
                    break
                progs = [list(p) for p in cur["progs"]]
                del progs[t][i]
                progs = [p for p in progs if p]
                if not progs:
                    continue
                cand = dict(cur, progs=progs)
                f = fails(cand)
                if f:
                    cur, best, improved = cand, f, True
                    break
            if improved:
                break
    return cur, best


# --------------------------------------------------------------------------------------------------
# the check
# --------------------------------------------------------------------------------------------------

def build_all(extra=()):
    from concurrent.futures import ThreadPoolExecutor
    with ThreadPoolExecutor(max_workers=len(SIZES)) as ex:
        return dict(zip(SIZES, ex.map(lambda s: build_q(s, extra), SIZES)))


def known_shapes(ck, exes):
    """the three as-coded failures, reproduced deterministically on the implementation"""
    # F3 (DESIGN §4): abort() racing a new blocking pop
    sc = F3_SCENARIO
    runs, _, note = run_harness(exes[8], sc, "script", F3_SCRIPT, 1)
    r = runs[0] if runs else None
    f3 = False
    if r is not None and not r.get("crash"):
        d = replay_batch(ck, [(sc, r, IPP[8])])[0]
        v = monitors(sc, r)
        hz = undo_hazard(r)
        f3 = bool(v) and hz
        ck.extra["F3"] = {"reproduced": f3, "results": r["res"], "drained": r["drain"], "monitor": list(v) if v else None,
                          "model_replay": d or "agrees (model reaches hazard=%s)" % r.get("model_state", {}).get("hazard"), "script": F3_SCRIPT}
        if f3:
            ck.counterexample(F3_KEY, "abort() racing a new blocking pop: T0 pop sleeps (ticket 0); abort(); T2 pop takes ticket 1; T0 wakes and does head_counter-- (2->1); "
                              "push 1, push 2: T2 gets %s, item 1 is unreachable, %s" % (r["res"].get(2), v[1]),
                              {"engine": "E-SHIM", "sizeof_T": 8, "scenario": sc, "script": F3_SCRIPT, "schedule": r["sched"], "verdict": list(v), "results": r["res"]})
        if d:
            ck.oblige("corr:F3 schedule replays on TicketQ", "correspondence", False, d)
    ck.oblige("monitor:the F3 schedule (abort vs new blocking pop) — expected to fail on the current tree (known finding %s)" % F3_KEY, "correspondence", not f3,
              "reproduced deterministically under E-SHIM (script %s)" % F3_SCRIPT if f3 else "")
    if f3:
        ck.obligations[-1]["explained"] = True
    # page allocation failure, then a pop reaches the ticket
    sc = ALLOC_SCENARIO
    runs, _, note = run_harness(exes[8], sc, "replay", "0", 1)
    crashed = any(r.get("crash") for r in runs)
    bad = crashed or any(monitors(sc, r) for r in runs)
    ck.extra["alloc_failure_then_pop"] = {"crashed": crashed, "note": note[:300]}
    if bad:
        ck.counterexample(ALLOC_KEY, "single thread, concurrent_queue<T>: the page allocation of push(1) throws bad_alloc; the following try_pop draws that ticket and "
                          "micro_queue::pop reads p->mask with p == (padded_page*)1: %s" % (note[:200] or "monitor violation"),
                          {"engine": "E-SHIM", "sizeof_T": 8, "scenario": sc, "schedule": ["0"], "verdict": ["crash", note[:300], ALLOC_KEY]})
    ck.oblige("monitor:page allocation failure followed by try_pop (model: alloc_failure_crashes) — known finding %s" % ALLOC_KEY, "correspondence", not bad, note[:300])
    if bad:
        ck.obligations[-1]["explained"] = True
    # bounded queue reports full although it holds nothing, after a push whose constructor threw
    sc = FULL_SCENARIO
    runs, _, note = run_harness(exes[8], sc, "replay", "0", 1)
    r = runs[0] if runs else None
    v = monitors(sc, r) if r is not None else None
    ck.extra["full_after_failed_push"] = {"results": r["res"] if r else None, "monitor": list(v) if v else None}
    if v:
        ck.counterexample(FULL_KEY, "single thread, concurrent_bounded_queue capacity 1: push(1) throws from the element constructor, then try_push(2) returns false "
                          "although the queue holds no element (the invalid ticket still counts against the capacity until a pop attempt skips it): %s" % v[1][:300],
                          {"engine": "E-SHIM", "sizeof_T": 8, "scenario": sc, "schedule": r["sched"], "verdict": list(v), "results": r["res"]})
    ck.oblige("monitor:try_push after a throwing push on a bounded queue — known finding %s" % FULL_KEY, "correspondence", not v, v[1][:300] if v else "")
    if v:
        ck.obligations[-1]["explained"] = True


# windows around an aborted blocked PUSH (the ticket of an aborted push must stay accounted for: later tickets may already be in use):
# (scenario, phase script) — thread 0 parks in its blocked push, the other thread(s) abort and go on using the queue before thread 0
# has run its abort handler; every run must end without a stuck try_pop/try_push, a lost or duplicated item
ABORT_PUSH_WINDOWS = [
    ({"kind": "b", "cap": "1", "progs": [["bpush:1:n", "bpush:2:n"], ["abort", "trypop", "trypop", "btrypush:3:n", "trypop"]]}, "0*,1*,0*,1*"),
    ({"kind": "b", "cap": "1", "progs": [["bpush:1:n", "bpush:2:n"], ["abort", "trypop", "trypop"], ["bpush:3:n", "trypop"]]}, "0*,1*,2*,0*,1*,2*"),
    ({"kind": "b", "cap": "1", "progs": [["bpush:1:n", "bpush:2:n"], ["setcap:3", "btrypush:3:n", "abort", "trypop", "trypop", "trypop"]]}, "0*,1*,0*,1*"),
    ({"kind": "b", "cap": "1", "progs": [["bpush:1:n", "bpush:2:n"], ["setcap:3", "btrypush:3:n", "abort", "btrypush:4:n", "trypop", "trypop", "trypop", "trypop"]]}, "0*,1*,0*,1*"),
    ({"kind": "b", "cap": "2", "progs": [["bpush:1:n", "bpush:2:n", "bpush:3:n"], ["bpush:4:n"], ["abort", "trypop", "trypop", "trypop", "trypop"]]}, "0*,1*,2*,1*,0*,2*"),
]


def abort_push_windows(ck, exes):
    bad, corr, n = [], [], 0
    for size in (8, 64):
        for sc, script in ABORT_PUSH_WINDOWS:
            runs, _, note = run_harness(exes[size], sc, "script", script, 1)
            n += len(runs)
            for r in runs:
                ck.count(1, ("abort-push-window", size, str(sc["progs"]), str(r["res"])))
                v = ("crash", r["mon"], "crash") if r.get("crash") else monitors(sc, r)
                if v:
                    bad.append((size, sc, script, r, v))
                elif r["dead"] is None:
                    d = replay_batch(ck, [(sc, r, IPP[size])])[0]
                    if d:
                        corr.append((size, sc, script, d))
            if not runs:
                bad.append((size, sc, script, {"res": {}, "sched": [], "drain": None}, ("crash", note[:300], "crash")))
    ck.traces_validated += n
    ck.oblige("monitor:aborted blocked push while later tickets are in use (scripted windows: abort, then pops/pushes/set_capacity by other threads before the "
              "woken pusher runs its handler): nothing stuck, lost or duplicated", "correspondence", not bad,
              "; ".join("%s under %s: %s: %s" % (sc["progs"], script, v[0], v[1][:200]) for _, sc, script, _, v in bad[:2]))
    ck.oblige("corr:aborted-push window traces replay on TicketQ", "correspondence", not corr, "; ".join("%s: %s" % (sc["progs"], d) for _, sc, _, d in corr[:2]))
    for size, sc, script, r, v in bad[:1]:
        ck.counterexample("abort-push-window:" + v[2], "%s: %s (sizeof(T)=%d, capacity %s, programs %s, phase script %s)" % (v[0], v[1][:400], size, sc["cap"], sc["progs"], script),
                          {"engine": "E-SHIM", "sizeof_T": size, "scenario": sc, "script": script, "schedule": r.get("sched", []), "verdict": list(v), "results": r.get("res")})


def stored_floor(sc, r):
    """bounded queue, runs without abort: a lower bound of the number of stored items at every push completion, under EVERY linearization
    of the pops in flight: (pushes that completed with an item) - (claimed pop tickets that are not invalidated slots).  A pop ticket is claimed by
    the CAS on head_counter; a slot is invalid when the push that drew its ticket threw.  The bound must not exceed the capacity."""
    cap = int(sc["cap"])
    H, invalid, okp, cur = 0, set(), 0, {}
    for ev in r["log"]:
        if ev[0] == "e":
            _, tid, kind, var, a, b, ok = ev
            if var == "tail" and ((kind == "fadd") or (kind == "cas" and ok)):
                cur[tid] = a
            elif var == "head" and kind == "cas" and ok:
                H = max(H, b)
        elif ev[0] == "n" and ev[2] == "r":
            _, tid, _, idx, code = ev
            op = sc["progs"][tid][idx] if idx < len(sc["progs"][tid]) else ""
            if op.startswith("bpush") or op.startswith("btrypush"):
                if code == 0:
                    okp += 1
                    floor = okp - (H - len([t for t in invalid if t < H]))
                    if floor > cap:
                        return "after %d completed pushes at least %d items are stored under every linearization of the pops in flight (head_counter %d, invalidated slots below it %s): capacity %d" % (
                            okp, floor, H, sorted(t for t in invalid if t < H), cap)
                elif code == 1 and tid in cur:
                    invalid.add(cur[tid])
    return None


# a pop that has claimed the ticket of an INVALIDATED slot waits behind an earlier pop on the same micro-queue (ticket - 8) while blocking pushes
# arrive and nobody pops: thread 1 is stopped k scheduling points into its try_pop (k swept across the claim of ticket 0)
def capacity_window_scenarios():
    out = []
    for cap, extra in ((10, 10), (9, 10)):
        progs = [["bpush:%d:n" % v for v in range(8)] + ["bpush:8:c", "bpush:9:n"], ["trypop"], ["trypop"] * 7, ["trypop"],
                 ["bpush:%d:n" % v for v in range(10, 10 + extra)], ["trypop"] * 3]
        for k in range(3, 10):
            out.append(({"kind": "b", "cap": str(cap), "progs": progs}, "0*,1:%d,2*,3*,4*,1*,3*,5*,4*,5*" % k))
    return out


def capacity_windows(ck, exes):
    bad, n = [], 0
    for size in (8, 64):
        for sc, script in capacity_window_scenarios():
            runs, _, note = run_harness(exes[size], sc, "script", script, 1)
            n += len(runs)
            for r in runs:
                ck.count(1, ("capacity-window", size, sc["cap"], script.split(",")[1]))
                v = ("crash", r["mon"], "crash") if r.get("crash") else monitors(sc, r)
                if not v:
                    f = stored_floor(sc, r)
                    if f:
                        v = ("capacity", f, "capacity-exceeded")
                if v:
                    bad.append((size, sc, script, r, v))
            if not runs:
                bad.append((size, sc, script, {"res": {}, "sched": [], "drain": None}, ("crash", note[:300], "crash")))
        if bad:
            break
    ck.traces_validated += n
    ck.oblige("monitor:bounded capacity while a pop that claimed an invalidated slot waits behind an earlier pop of its micro-queue and blocking pushes arrive "
              "(scripted windows, the first pop stopped k = 3..9 scheduling points into its call): the number of stored items, bounded from below under every "
              "linearization of the pops in flight, never exceeds the capacity; nothing stuck, lost or duplicated", "correspondence", not bad,
              "; ".join("%s under %s: %s: %s" % (sc["progs"][1:4], script, v[0], v[1][:300]) for _, sc, script, _, v in bad[:2]))
    for size, sc, script, r, v in bad[:1]:
        ck.counterexample("capacity-window:" + v[2], "%s: %s (sizeof(T)=%d, capacity %s, programs %s, phase script %s)" % (v[0], v[1][:400], size, sc["cap"], sc["progs"], script),
                          {"engine": "E-SHIM", "sizeof_T": size, "scenario": sc, "script": script, "schedule": r.get("sched", []), "verdict": list(v), "results": r.get("res"),
                           "monitor": "stored_floor"})


def skip_shape_demo(ck, exes):
    sc = SKIP_SCENARIO
    runs, _, note = run_harness(exes[8], sc, "script", SKIP_SCRIPT, 1)
    r = runs[0] if runs else None
    v = monitors(sc, r) if r is not None else None
    bad = bool(v) and v[0] in ("lost-wakeup", "stuck")
    ck.extra["skip_invalid_no_notify"] = {"results": r["res"] if r else None, "parked": r["dead"] if r else None, "monitor": list(v) if v else None, "script": SKIP_SCRIPT}
    if bad:
        ck.counterexample(SKIP_KEY, "concurrent_bounded_queue capacity 1: push(1); push(2) blocks, is let in by try_pop #1 and its constructor throws (ticket 1 invalid); "
                          "push(3) (ticket 2) sleeps until a pop with ticket >= 1 notifies; try_pop #2 skips ticket 1 WITHOUT notifying, draws ticket 2 and spins for the "
                          "sleeping push(3): both wait for each other for ever (%s)" % v[1][:300],
                          {"engine": "E-SHIM", "sizeof_T": 8, "scenario": sc, "script": SKIP_SCRIPT, "schedule": r["sched"], "verdict": list(v), "results": r["res"]})
    ck.oblige("monitor:pop skipping an invalidated ticket while a push sleeps on the capacity — known finding %s" % SKIP_KEY, "correspondence", not bad, v[1][:300] if v else "")
    if bad:
        ck.obligations[-1]["explained"] = True


# blocked push / pop complete as soon as space / items appear: proved for a CONSTANT capacity and for abort() on the wait / notify model of C02's
# bounded-queue client (C02: bq_blocked_ops_complete, bq_abort_wakes_all; hypothesis `clean` = the C09 findings excluded).  Raising the capacity is
# the one way space can appear that is not a pop: as coded set_capacity() is a plain store without a notification and the sleeper's target was
# computed from the old capacity, so the blocked push stays blocked (reproduced on the real library with real threads; known finding).
SETCAP_WAKE_SCENARIO = {"kind": "b", "cap": "1", "progs": [["bpush:1:n", "bpush:2:n"], ["setcap:5"]], "drain": False}
SETCAP_WAKE_SCRIPT = "0*,1*,0*"


def setcap_wake_shape(ck, exes):
    sc = SETCAP_WAKE_SCENARIO
    runs, _, note = run_harness(exes[8], sc, "script", SETCAP_WAKE_SCRIPT, 1)
    r = runs[0] if runs else None
    v = monitors(sc, r) if r is not None else None
    bad = bool(v) and v[0] in ("lost-wakeup", "stuck")
    ck.extra["set_capacity_raise_vs_blocked_push"] = {"results": r["res"] if r else None, "parked": r["dead"] if r else None, "monitor": list(v) if v else None,
                                                      "script": SETCAP_WAKE_SCRIPT}
    if bad:
        ck.counterexample(SETCAP_WAKE_KEY, "concurrent_bounded_queue capacity 1: push(1); push(2) blocks (ticket 1, target = ticket - capacity = 0); another thread calls "
                          "set_capacity(5) and returns: nothing wakes the sleeper and its target is stale, so the push stays blocked although the queue now has "
                          "room for 4 more items (%s)" % v[1][:300],
                          {"engine": "E-SHIM", "sizeof_T": 8, "scenario": sc, "script": SETCAP_WAKE_SCRIPT, "schedule": r["sched"], "verdict": list(v), "results": r["res"]})
    ck.oblige("monitor:a push blocked on the old capacity completes when set_capacity raises the capacity — known finding %s" % SETCAP_WAKE_KEY, "correspondence",
              not bad, v[1][:300] if v else "")
    if bad:
        ck.obligations[-1]["explained"] = True


def setcap_shape(ck, exes, consts):
    big = consts["infinite_capacity"] >= (1 << 31)
    sc = SETCAP_SCENARIO
    runs, _, note = run_harness(exes[8], sc, "replay", "0", 1)
    r = runs[0] if runs else None
    v = monitors(sc, r) if r is not None else None
    ck.extra["set_capacity_negative"] = {"infinite_capacity": consts["infinite_capacity"], "results": r["res"] if r else None}
    if v:
        ck.counterexample(SETCAP_KEY, "single thread, concurrent_bounded_queue: set_capacity(-1) (documented: negative = unbounded) installs infinite_capacity = "
                          "ptrdiff_t(~size_type(0)/2) = %d because size_type is the signed std::ptrdiff_t; the following try_push(1) on the empty queue returns false: %s"
                          % (consts["infinite_capacity"], v[1][:200]),
                          {"engine": "E-SHIM", "sizeof_T": 8, "scenario": sc, "schedule": r["sched"], "verdict": list(v), "results": r["res"]})
    ck.oblige("gen:concurrent_bounded_queue::infinite_capacity is effectively infinite (>= 2^31) / set_capacity(negative) makes the queue unbounded — known finding %s" % SETCAP_KEY,
              "generated", big and not v, "infinite_capacity = %d; %s" % (consts["infinite_capacity"], v[1][:200] if v else ""))
    if not (big and not v) and v:
        ck.obligations[-1]["explained"] = True


# layer 3 for the page life cycle: when the page-level correspondence breaks, look for a schedule on which the real code faults or breaks a
# monitor.  Small scenarios around the windows the lane theorems are about: the pop finalizer retiring the last page of a lane while a push
# links the next one (items_per_page 1 and 2), two pops on consecutive rounds of one lane; bounded-preemption DFS.
PAGE_WINDOWS = [
    (200, {"kind": "u", "cap": "inf", "progs": [["push:%d:n" % i for i in range(1, 10)], ["trypop"]]}, 2),
    (200, {"kind": "u", "cap": "inf", "progs": [["push:%d:n" % i for i in range(1, 10)], ["trypop"] * 9, ["trypop"]]}, 1),
    (128, {"kind": "u", "cap": "inf", "progs": [["push:%d:n" % i for i in range(1, 18)], ["trypop"] * 9, ["trypop"] * 2]}, 1),
]


def page_window_search(ck, exes):
    found = None
    for size, sc, bound in PAGE_WINDOWS:
        runs, n, note = run_harness(exes[size], sc, "dfs", bound, 30000 if ck.tier == "quick" else 300000, timeout=1500)
        ck.evaluations += n or 0
        for r in runs[-1:]:
            v = ("crash", r["mon"], "crash") if r.get("crash") else monitors(sc, r)
            if v is None and r["mon"].startswith("VIOLATION"):
                v = ("harness-monitor", r["mon"], "harness-monitor")
            if v:
                found = (size, sc, r, v)
                break
        if found:
            break
    ck.extra["page_window_search"] = {"found": bool(found)}
    if found:
        size, sc, r, v = found
        ck.counterexample("page-window:" + v[2], "%s: %s (sizeof(T)=%d, programs %s; found by bounded-preemption DFS after the page-level replay broke)" % (
            v[0], v[1][:400], size, sc["progs"]),
            {"engine": "E-SHIM", "sizeof_T": size, "scenario": sc, "schedule": r.get("sched", []), "verdict": list(v), "results": r.get("res")})


def run(ck):
    quick = ck.tier == "quick"
    del PG_BAD[:]
    ck.rule = ("E-SHIM: hand-written corpus (contention, page-boundary, abort windows) + seeded random 2-4 thread programs over "
               "push/try_pop (unbounded) and push/try_push/pop/try_pop/abort/set_capacity (bounded), element sizes of all six items_per_page classes, "
               "constructor failures at random positions, page-allocation failures (push-only programs), each under seeded random schedules plus "
               "bounded-preemption DFS of the corpus; E-PURE: exhaustive small + boundary-biased tickets, random push/pop sequences per size class. "
               "distinct = (family, size class, #threads, access kinds seen, results, deadlocked)")
    ck.assumptions += [
        "proved on the model TicketQ (N threads, all schedules, sequentially consistent interleavings of the atomic accesses to the ticket counters, lane turnstiles and page masks)",
        "the blocked wait of concurrent_bounded_queue is modelled as 'wait until serviceable / aborted / re-check' (three scheduler choices); the concurrent_monitor "
        "wake-up protocol itself is C02's; no-lost-wake-up for the queue is covered here by the scheduler's deadlock detection on the real code (sampled)",
        "release/acquire visibility is not modelled (the shim serialises accesses)",
        "page linking under page_mutex is modelled sequentially per lane (`Ring`), tied by E-PURE white-box comparison, not by the E-SHIM trace",
        "random bounded scenarios with a finite capacity do not inject constructor failures, random abort scenarios have a single consumer thread, random "
        "allocation-failure scenarios are push-only: outside these the three known failures (reported separately, with theorems abort_conserves_fails / "
        "alloc_failure_crashes and dedicated replays) would reappear under other seeds",
        "try_push_full_truthful / bounded_capacity are about ticket occupancy (tail - head), which counts invalidated tickets until a pop attempt skips them",
        "page life cycle: proved on the lane model Pg (one micro_queue, N threads, all schedules, one step per atomic access; the plain next accesses, construction, "
        "move-out, allocation and deallocation are steps of their own) under `wf` (rounds unique: what TicketQ guarantees while ok) and while no page allocation failed; "
        "tied by replaying the page-level access log of every E-SHIM run on Pg and by comparing page chains / live pages at quiescence",
        "copy / move / assignment / swap / clear / size / empty / iteration / set_capacity: proved at ticket level (Seq), the page-level side is `Pg.copyLane` / `Pg.clearPages` "
        "(executable, compared through the page count) and the differential against the real containers; negative size() arises only concurrently",
        "weak CAS never fails spuriously under the shim"]
    ck.trusted += ["harness/shim (atomic shim + baton scheduler)", "harness/c09/q.cpp (address naming, element life-cycle instrumentation)",
                   "checks/c09.py: history extraction and the FIFO linearizability checker", "trace replay is a sampled correspondence",
                   "checks/c09pg.py (lane operations derived from the tickets, page ids -> page numbers)", "checks/c09ops.py + harness/c09/seq.cpp (operation generator, allocator ledger)"]
    consts = gen(ck)
    NQ[0], NQ[1] = consts["n_queue"], consts["phi"]
    ck.lean_stage()
    pure_stage(ck, consts)
    c09ops.stage(ck)
    exes = build_all()
    known_shapes(ck, exes)
    setcap_shape(ck, exes, consts)
    skip_shape_demo(ck, exes)
    setcap_wake_shape(ck, exes)
    abort_push_windows(ck, exes)
    capacity_windows(ck, exes)
    rng = ck.rng
    nsc, nrand = (14, 10) if quick else (120, 40)
    fams = [("unbounded", U_CORPUS + [gen_unbounded(rng) for _ in range(nsc)]),
            ("alloc-failure", [gen_alloc(rng) for _ in range(max(3, nsc // 3))]),
            ("bounded", B_CORPUS + [gen_bounded(rng) for _ in range(nsc)]),
            ("abort", A_CORPUS + [gen_abort(rng) for _ in range(nsc)])]
    corpus = {"unbounded": U_CORPUS[:3] + U_DFS_PAGES, "bounded": [B_CORPUS[0], B_CORPUS[1], B_CORPUS[3]], "abort": A_DFS}
    sched_stats = {}
    for name, scs in fams:
        tally = {"corr": [], "mon": [], "runs": 0, "dead": 0}
        run_family(ck, exes, name, scs, nrand, tally)
        dfs = 0
        if name in corpus:
            dfs = dfs_family(ck, exes, name, corpus[name], 2 if quick else 3, 4000 if quick else 150000, tally)
        sched_stats[name] = {"scenarios": len(scs), "random_runs": tally["runs"], "legit_or_other_deadlocks": tally["dead"], "dfs_runs": dfs}
        ok = report(ck, tally, name)
        if not ok and tally["mon"]:
            # failing-input search: shrink the first unknown violation
            size, sc, r, v, hz = ([m for m in tally["mon"] if key_of(m[1], m[2], m[3], m[4]) not in (F3_KEY, SKIP_KEY)] or tally["mon"])[0]
            key = key_of(sc, r, v, hz)
            small, best = shrink(ck, exes, size, sc, key, 25 if quick else 80)
            if best and small["progs"] != sc["progs"]:
                rr, vv = best
                ck.counterexamples = [c for c in ck.counterexamples if not (c["key"] == key and c["replay"].get("scenario") == sc)]
                ck.counterexample(key, "%s: %s (shrunk; sizeof(T)=%d, %s queue cap %s, programs %s)" % (vv[0], vv[1][:500], size, "bounded" if small["kind"] == "b" else "unbounded", small["cap"], small["progs"]),
                                  {"engine": "E-SHIM", "sizeof_T": size, "scenario": small, "schedule": rr["sched"], "verdict": list(vv), "results": rr["res"], "drained": rr["drain"]})
        elif tally["corr"] and not tally["mon"]:
            # the model and the code disagree but no monitor fired: look harder on that scenario for a property failure
            size, sc, r, d = tally["corr"][0]
            t2 = {"corr": [], "mon": [], "runs": 0, "dead": 0}
            runs, _, _ = run_harness(exes[size], sc, "rand", ck.seed + 991, 200 if quick else 2000)
            for rr in runs:
                vv = monitors(sc, rr)
                if vv:
                    ck.counterexample(key_of(sc, rr, vv, undo_hazard(rr)), "%s: %s (sizeof(T)=%d, programs %s)" % (vv[0], vv[1][:500], size, sc["progs"]),
                                      {"engine": "E-SHIM", "sizeof_T": size, "scenario": sc, "schedule": rr["sched"], "verdict": list(vv), "results": rr["res"]})
                    break
    ck.extra["schedules"] = sched_stats
    if PG_BAD and not any(c.get("key", "").startswith(("crash", "page-window")) for c in ck.counterexamples):
        page_window_search(ck, exes)


def replay(ck, obj):
    if "replay" not in obj:
        print("this record has no failing input (the search found none): broken obligations were", [o["name"] for o in obj.get("broken_obligations", [])][:6])
        print("replay: re-run `python3 checks/check.py C09` to re-check them")
        return 1
    r = obj["replay"]
    if r.get("engine") == "E-PURE-SEQ":
        return c09ops.replay(ck, r)
    if r.get("engine") == "E-PURE":
        exe = cxx_build("C09", "pure", ["harness/c09/pure.cpp", "harness/c09/stubs.cpp"], flags=["-O1", "-g", "-fno-access-control"])
        rc, out, err = sh([exe, str(r["sizeof_T"])], input="\n".join(r["ops"]) + "\n", timeout=30)
        print("rc", rc, "lines", len(out.split("\n")) - 1, "of", len(r["ops"]))
        bad = rc != 0
        print("replay:", "still fails (the last operation never returns / crashes)" if bad else "no longer fails")
        return 1 if bad else 0
    exe = build_q(r.get("sizeof_T", 8))
    sc = r["scenario"]
    if r.get("script"):
        runs, _, note = run_harness(exe, sc, "script", r["script"], 1)
    else:
        runs, _, note = run_harness(exe, sc, "replay", ",".join(r["schedule"]) or "0", 1)
    bad = False
    for x in runs:
        v = "crash: " + x["mon"] if x.get("crash") else monitors(sc, x)
        if not v and r.get("monitor") == "stored_floor":
            f = stored_floor(sc, x)
            v = ("capacity", f, "capacity-exceeded") if f else None
        print("results", x["res"], "drained", x["drain"], "harness-monitor", x["mon"], "verdict", v)
        exempt = x["mon"] == "VIOLATION capacity exceeded" and any("abort" in p for p in sc["progs"])
        if v or (x["mon"].startswith("VIOLATION") and not exempt):
            bad = True
    if not runs:
        print("harness produced no run:", note)
        bad = True
    print("replay:", "still fails" if bad else "no longer fails")
    return 1 if bad else 0
