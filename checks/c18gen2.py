"""C18 — E-GEN, second part: entry-point guards of the pool API, realloc, and the C++ allocator layer, regenerated from
the source text into `Generated/C18.lean` (appended to the guards of checks/c18.py)."""
import os
import re

import cexpr
import c17
from c17 import FRONTEND, function_body, lean_def, match_paren, read, strip_comments, tr_expr
from common import REPO

INC = os.path.join(REPO, "include/oneapi/tbb")


def _if_cond(body, start_regex, what):
    m = re.search(start_regex, body)
    if not m:
        raise cexpr.CExprError("%s: `%s` not found" % (what, start_regex))
    j = match_paren(body, m.end() - 1)
    return " ".join(body[m.end():j - 1].split()), j


def _member_fn(text, cls_regex, fn_regex, what):
    """body of member function `fn_regex` of the class / struct starting at cls_regex"""
    m = re.search(cls_regex, text)
    if not m:
        raise cexpr.CExprError("%s: class not found (%s)" % (what, cls_regex))
    return function_body(text[m.end():], fn_regex)


def gen_more(c, consts, funcs):
    out, src = "", {}
    fe = strip_comments(read(FRONTEND))
    # -- pool_create_v1: policy checks -----------------------------------------------------------------------
    sa = strip_comments(read(os.path.join(INC, "scalable_allocator.h")))
    m = re.search(r"TBBMALLOC_POOL_VERSION\s*=\s*(\d+)", sa)
    if not m:
        raise cexpr.CExprError("MemPoolPolicy::TBBMALLOC_POOL_VERSION not found")
    pc = dict(consts)
    pc["MemPoolPolicy::TBBMALLOC_POOL_VERSION"] = (int(m.group(1)), "i32")
    body = strip_comments(function_body(fe, r"rml::MemPoolError\s+pool_create_v1\s*\("))
    c1, j1 = _if_cond(body, r"^\s*if\s*\(", "pool_create_v1 (INVALID_POLICY test)")
    if not re.match(r"\s*\{\s*\*pool\s*=\s*nullptr\s*;\s*return\s+INVALID_POLICY\s*;\s*\}", body[j1:]):
        raise cexpr.CExprError("pool_create_v1: first test does not return INVALID_POLICY")
    rest = body[j1:]
    c2, j2 = _if_cond(rest, r"\}\s*if\s*\(", "pool_create_v1 (UNSUPPORTED_POLICY test)")
    if not re.match(r"\s*\{\s*\*pool\s*=\s*nullptr\s*;\s*return\s+UNSUPPORTED_POLICY\s*;\s*\}", rest[j2:]):
        raise cexpr.CExprError("pool_create_v1: second test does not return UNSUPPORTED_POLICY")
    sub = lambda s: re.sub(r"policy\s*->\s*", "", s)
    PP = [("pAlloc", "u64"), ("pFree", "u64"), ("version", "i32"), ("fixedPool", "bool"), ("reserved", "u32")]
    env = {p: (p, t) for p, t in PP}
    src["poolCreateInvalid"], src["poolCreateUnsupported"] = c1, c2
    out += lean_def("poolCreateInvalid", PP, "bool", tr_expr(sub(c1), env, pc, funcs, want="bool")[0])
    out += lean_def("poolCreateUnsupported", PP, "bool", tr_expr(sub(c2), env, pc, funcs, want="bool")[0])
    out += "def poolVersion : Int := %d\n" % int(m.group(1))
    # -- pool_aligned_malloc / pool_aligned_realloc argument checks -------------------------------------------
    for fn, sig, name in (("pool_aligned_malloc", r"void\s*\*\s*pool_aligned_malloc\s*\(\s*rml::MemoryPool\s*\*\s*mPool\s*,\s*size_t\s+size\s*,\s*size_t\s+alignment\s*\)", "poolAlignedMallocReject"),
                          ("pool_aligned_realloc", r"void\s*\*\s*pool_aligned_realloc\s*\(\s*rml::MemoryPool\s*\*\s*memPool\s*,\s*void\s*\*\s*ptr\s*,\s*size_t\s+size\s*,\s*size_t\s+alignment\s*\)", "poolAlignedReallocReject")):
        body = strip_comments(function_body(fe, sig))
        cond, j = _if_cond(body, r"^\s*if\s*\(", fn)
        if not re.match(r"\s*return\s+nullptr\s*;", body[j:]):
            raise cexpr.CExprError(fn + ": argument test does not `return nullptr`")
        P = [("size", "u64"), ("alignment", "u64")]
        src[name] = cond
        out += lean_def(name, P, "bool", tr_expr(cond, {p: (p, t) for p, t in P}, consts, funcs, want="bool")[0])
    # -- reallocAligned: bytes copied, and the old block is freed only when the new one exists ----------------
    body = strip_comments(function_body(fe, r"static\s+void\s*\*\s*reallocAligned\s*\(\s*MemoryPool\s*\*\s*memPool\s*,\s*void\s*\*\s*ptr\s*,"))
    m = re.search(r"if\s*\(\s*result\s*\)\s*\{\s*memcpy\s*\(\s*result\s*,\s*ptr\s*,([^;]*)\)\s*;\s*internalPoolFree\s*\(\s*memPool\s*,\s*ptr\s*,\s*0\s*\)\s*;\s*\}\s*return\s+result\s*;\s*$", body)
    if not m:
        raise cexpr.CExprError("reallocAligned: tail is not `if (result) { memcpy(result, ptr, <len>); internalPoolFree(memPool, ptr, 0); } return result;`")
    if len(re.findall(r"internalPoolFree\s*\(", body)) != 1:
        raise cexpr.CExprError("reallocAligned: the old block is freed in more than one place")
    P = [("copySize", "u64"), ("newSize", "u64")]
    src["reallocCopyLen"] = " ".join(m.group(1).split())
    out += lean_def("reallocCopyLen", P, "u64", tr_expr(m.group(1), {p: (p, t) for p, t in P}, consts, funcs, want="u64")[0])
    # -- C++ layer --------------------------------------------------------------------------------------------
    al = strip_comments(read(os.path.join(REPO, "src/tbb/allocator.cpp")))
    body = strip_comments(function_body(al, r"void\s*\*\s*__TBB_EXPORTED_FUNC\s+cache_aligned_allocate\s*\(\s*std::size_t\s+size\s*\)"))
    cond, j = _if_cond(body, r"if\s*\(", "cache_aligned_allocate")
    if not re.match(r"\s*\{\s*throw_exception\s*\(\s*exception_id::bad_alloc\s*\)\s*;\s*\}", body[j:]):
        raise cexpr.CExprError("cache_aligned_allocate: the first test is not the wrap-around test that throws bad_alloc")
    P = [("size", "u64"), ("cache_line_size", "u64")]
    src["cacheAlignedReject"] = cond
    out += lean_def("cacheAlignedReject", P, "bool", tr_expr(cond, {p: (p, t) for p, t in P}, consts, funcs, want="bool")[0])
    PN = [("n", "u64"), ("sizeofT", "u64")]
    envn = {p: (p, t) for p, t in PN}
    xt = {"size_type": "u64", "std::size_t": "u64"}

    def alloc_guard(text, cls, fn, name, what):
        b = strip_comments(_member_fn(text, cls, fn, what))
        m = re.search(r"=\s*(n\s*>[^?]*)\?\s*nullptr\s*:\s*static_cast\s*<[^>]*>\s*\(\s*[\w:>\-]+\s*\(\s*([^;]*?)\)\s*\)\s*;", b)
        if not m:
            raise cexpr.CExprError("%s: `p = n > ... ? nullptr : static_cast<..>(malloc(<arg>))` not found" % what)
        g, a = m.group(1).replace("sizeof(value_type)", "sizeofT").replace("sizeof (value_type)", "sizeofT"), m.group(2).replace("sizeof(value_type)", "sizeofT")
        src[name + "Reject"], src[name + "Arg"] = " ".join(g.split()), " ".join(a.split())
        return lean_def(name + "Reject", PN, "bool", tr_expr(g, envn, consts, funcs, xt, want="bool")[0]) + \
            lean_def(name + "Arg", PN, "u64", tr_expr(a, envn, consts, funcs, xt, want="u64")[0])

    out += alloc_guard(sa, r"class\s+scalable_allocator\s*\{", r"T\s*\*\s*allocate\s*\(\s*std::size_t\s+n\s*\)", "scalableAllocator", "scalable_allocator<T>::allocate")
    mp = strip_comments(read(os.path.join(INC, "memory_pool.h")))
    out += alloc_guard(mp, r"class\s+memory_pool_allocator\s*\{", r"pointer\s+allocate\s*\(\s*size_type\s+n\s*,", "poolAllocator", "memory_pool_allocator<T>::allocate")

    def plain_arg(text, cls, fn, callee, name, what):
        b = strip_comments(_member_fn(text, cls, fn, what))
        m = re.search(r"return\s+static_cast\s*<[^>]*>\s*\(\s*" + callee + r"\s*\(\s*([^;]*?)\)\s*\)\s*;", b)
        if not m:
            raise cexpr.CExprError("%s: `return static_cast<T*>(%s(<arg>));` not found" % (what, callee))
        a = m.group(1).replace("sizeof(value_type)", "sizeofT")
        src[name] = " ".join(m.group(1).split())
        guarded = bool(re.search(r"\bn\s*>", b) or re.search(r"max_size\s*\(", b))
        return lean_def(name, PN, "u64", tr_expr(a, envn, consts, funcs, xt, want="u64")[0]), guarded

    ca = strip_comments(read(os.path.join(INC, "cache_aligned_allocator.h")))
    d, g1 = plain_arg(ca, r"class\s+cache_aligned_allocator\s*\{", r"T\s*\*\s*allocate\s*\(\s*std::size_t\s+n\s*\)", r"r1::cache_aligned_allocate", "cacheAlignedAllocatorArg", "cache_aligned_allocator<T>::allocate")
    out += d
    ta = strip_comments(read(os.path.join(INC, "tbb_allocator.h")))
    d, g2 = plain_arg(ta, r"class\s+tbb_allocator\s*\{", r"T\s*\*\s*allocate\s*\(\s*std::size_t\s+n\s*\)", r"r1::allocate_memory", "tbbAllocatorArg", "tbb_allocator<T>::allocate")
    out += d
    src["cacheAlignedAllocatorGuarded"], src["tbbAllocatorGuarded"] = g1, g2
    # cache_aligned_resource::do_allocate: space = correct_size(bytes) + correct_alignment(alignment)
    cr = _member_fn(ca, r"class\s+cache_aligned_resource\b", r"void\s*\*\s*do_allocate\s*\(\s*std::size_t\s+bytes\s*,\s*std::size_t\s+alignment\s*\)", "cache_aligned_resource::do_allocate")
    m1 = re.search(r"std::size_t\s+cache_line_alignment\s*=\s*([^;]*);\s*std::size_t\s+space\s*=\s*([^;]*);", cr)
    cs = _member_fn(ca, r"class\s+cache_aligned_resource\b", r"std::size_t\s+correct_size\s*\(\s*std::size_t\s+bytes\s*\)", "correct_size")
    m2 = re.search(r"return\s+([^;]*);", cs)
    cal = _member_fn(ca, r"class\s+cache_aligned_resource\b", r"std::size_t\s+correct_alignment\s*\(\s*std::size_t\s+alignment\s*\)", "correct_alignment")
    m3 = re.search(r"return\s+(alignment\s*<\s*cache_line_size[^;]*);", cal)
    if not (m1 and m2 and m3):
        raise cexpr.CExprError("cache_aligned_resource: do_allocate / correct_size / correct_alignment not of the expected shape")
    rc_ = dict(consts)
    rc_["sizeof(std::uintptr_t)"] = c["sizeofVoidP"]
    PR = [("bytes", "u64"), ("alignment", "u64"), ("cache_line_size", "u64")]
    envr = {p: (p, t) for p, t in PR}
    out += lean_def("carCorrectSize", PR, "u64", tr_expr(m2.group(1), envr, rc_, funcs, xt, want="u64")[0])
    out += lean_def("carCorrectAlignment", PR, "u64", tr_expr(m3.group(1), envr, rc_, funcs, xt, want="u64")[0])
    f2 = dict(funcs)
    f2["correct_size"] = ("carCorrectSize1", ["u64"], "u64")
    f2["correct_alignment"] = ("carCorrectAlignment1", ["u64"], "u64")
    space = m1.group(2).replace("cache_line_alignment", "(" + m1.group(1) + ")")
    src["carSpace"] = " ".join(m1.group(2).split()) + " where cache_line_alignment = " + " ".join(m1.group(1).split())
    e = tr_expr(space, envr, rc_, f2, xt, want="u64")[0]
    e = e.replace("(carCorrectSize1 bytes)", "(carCorrectSize bytes alignment cache_line_size)").replace("(carCorrectAlignment1 alignment)", "(carCorrectAlignment bytes alignment cache_line_size)")
    if "carCorrectSize1" in e or "carCorrectAlignment1" in e:
        raise cexpr.CExprError("cache_aligned_resource::do_allocate: unexpected arguments of correct_size / correct_alignment: " + e)
    out += lean_def("carSpace", PR, "u64", e)
    src["carGuarded"] = bool(re.search(r"space\s*<|bad_alloc|max_size", cr))
    return out, src


FALLBACK2 = """def poolCreateInvalid (pAlloc : Nat) (pFree : Nat) (version : Int) (fixedPool : Bool) (reserved : Nat) : Bool := decide (pAlloc % 7 = 3)
def poolCreateUnsupported (pAlloc : Nat) (pFree : Nat) (version : Int) (fixedPool : Bool) (reserved : Nat) : Bool := decide (pAlloc % 7 = 3)
def poolVersion : Int := 7
def poolAlignedMallocReject (size : Nat) (alignment : Nat) : Bool := decide ((size + alignment) % 7 = 3)
def poolAlignedReallocReject (size : Nat) (alignment : Nat) : Bool := decide ((size + alignment) % 7 = 3)
def reallocCopyLen (copySize : Nat) (newSize : Nat) : Nat := (copySize + newSize) % 7
def cacheAlignedReject (size : Nat) (cache_line_size : Nat) : Bool := decide ((size + cache_line_size) % 7 = 3)
def scalableAllocatorReject (n : Nat) (sizeofT : Nat) : Bool := decide ((n + sizeofT) % 7 = 3)
def scalableAllocatorArg (n : Nat) (sizeofT : Nat) : Nat := (n + sizeofT) % 7
def poolAllocatorReject (n : Nat) (sizeofT : Nat) : Bool := decide ((n + sizeofT) % 7 = 3)
def poolAllocatorArg (n : Nat) (sizeofT : Nat) : Nat := (n + sizeofT) % 7
def cacheAlignedAllocatorArg (n : Nat) (sizeofT : Nat) : Nat := (n + sizeofT) % 7
def tbbAllocatorArg (n : Nat) (sizeofT : Nat) : Nat := (n + sizeofT) % 7
def carCorrectSize (bytes : Nat) (alignment : Nat) (cache_line_size : Nat) : Nat := bytes % 7
def carCorrectAlignment (bytes : Nat) (alignment : Nat) (cache_line_size : Nat) : Nat := alignment % 7
def carSpace (bytes : Nat) (alignment : Nat) (cache_line_size : Nat) : Nat := (bytes + alignment) % 7
"""
