"""C05 — parallel_for_each and parallel_invoke (part of the C05 plug-in, called from checks/c05.py).

Tie between lean/TbbVerif/Model/C05Each.lean (+ Proofs/C05/Each*.lean, theorems for_each_* / invoke_* in Props/C05.lean)
and /repo's current tree:
  E-GEN   max_block_size of both block handling tasks, the iterator-category dispatch of for_each_root_task for a set of
          iterator types, the shape constants of invoke_subroot_task   -> Generated/C05Each.lean
  E-MOCK  the real header code on the scripted runtime harness/c05/r1_each.h (harness/c05/each.cpp): the trace of task
          starts / spawns / body calls / iterator operations / item copies and destructions / waits, with the reference
          counters at every event, is validated event by event against the model (lean/Driver/C05Each.lean);
          implementation-side monitors (per-item counters, copies alive, iterator positions, counter underflow, waits that
          return with work pending, waits never satisfied) do not depend on the model and produce the replays
  E-REAL  real library, real threads: the same monitors (harness/c05/real.cpp, lines `foreach2`, `invoke`)
"""
import json
import os
import re

from common import BuildError, REPO, cxx_build, drv, gen_write, log, sh

H = "harness/c05/"
MOCK_FLAGS = ["-O1", "-g", "-fno-access-control"]


def run_limited(cmd, input=None, timeout=None, mem_kb=8000000):
    return sh(["bash", "-c", "ulimit -v %d; exec \"$@\"" % mem_kb, "x"] + list(cmd), input=input, timeout=timeout)


# ---------------------------------------------------------------------------------------------
# E-GEN
# ---------------------------------------------------------------------------------------------
DISPATCH = ["dispatchPointer", "dispatchVector", "dispatchDeque", "dispatchList", "dispatchForwardList", "dispatchIstream",
            "dispatchCustomRandom", "dispatchCustomForward", "dispatchCustomInput", "dispatchMoveVector", "dispatchMoveList"]
EXPECT_DISPATCH = {"dispatchPointer": 2, "dispatchVector": 2, "dispatchDeque": 2, "dispatchList": 1, "dispatchForwardList": 1, "dispatchIstream": 0,
                   "dispatchCustomRandom": 2, "dispatchCustomForward": 1, "dispatchCustomInput": 0, "dispatchMoveVector": 2, "dispatchMoveList": 1}


def gen(ck):
    exe = cxx_build("C05", "eachconsts", [H + "eachconsts.cpp"], flags=["-O0", "-fno-access-control"])
    rc, out, err = sh([exe], timeout=60)
    if rc != 0:
        raise BuildError("eachconsts harness failed rc=%d %s" % (rc, err[-400:]))
    c = json.loads(out)
    src = open(os.path.join(REPO, "include/oneapi/tbb/parallel_invoke.h")).read()
    m = re.search(r"struct\s+invoke_subroot_task\b.*?task\*\s+execute\s*\(execution_data&\s*\w*\)\s*override\s*\{(.*?)\n    \}", src, re.S)
    body_txt = m.group(1) if m else ""
    adds = re.findall(r"ref_count\.fetch_add\(\s*(\d+)", body_txt)
    c["invokeSubrootRefs"] = int(adds[0]) if len(adds) == 1 else -1
    tm = re.search(r"template\s*<([^>]*)>\s*struct\s+invoke_subroot_task", src)
    c["invokeGroup"] = len(tm.group(1).split(",")) if tm else -1
    c["invokeSubrootExecuteSpawns"] = len(re.findall(r"\bspawn\(", body_txt))
    ck.extra["generated_constants_each"] = c
    names = ["maxBlockInput", "maxBlockForward"] + DISPATCH + ["invokeGroup", "invokeSubrootRefs", "invokeSubrootSpawns"]
    body = "".join("def %s : Nat := %d\n" % (k, max(0, int(c[k]))) for k in names)
    gen_write("C05Each", body)
    ob = lambda name, ok: ck.oblige("gen:" + name, "generated", ok, c)
    ob("for_each block sizes are positive", c["maxBlockInput"] >= 1 and c["maxBlockForward"] >= 1)
    ob("iterator category dispatch of for_each_root_task (0 input / 1 forward / 2 random access path) as modelled: pointers, vector, deque and "
       "iterators whose tag derives from random_access_iterator_tag take the parallel_for path, list / forward_list / forward tags the forward "
       "block path, istream_iterator / input tags the copying block path, move_iterator dispatches on its base", all(c[k] == EXPECT_DISPATCH[k] for k in DISPATCH))
    ob("invoke_subroot_task handles three functions: ref_count += 3, two spawned invokers, one run by the subroot itself",
       c["invokeGroup"] == 3 and c["invokeSubrootRefs"] == 3 and c["invokeSubrootSpawns"] == 2 and c["invokeSubrootExecuteSpawns"] == 2)
    return c


# ---------------------------------------------------------------------------------------------
# scenarios
# ---------------------------------------------------------------------------------------------
POISON0 = 500000


def strip_poison(rest):
    """`F k (id m child*m)*k` without the children whose feeder::add fails (the model sees the adds that succeed)"""
    if not rest or rest[0] != "F":
        return rest
    k, out, i = int(rest[1]), [], 2
    for _ in range(k):
        pid, m = rest[i], int(rest[i + 1])
        kids = [c for c in rest[i + 2:i + 2 + m] if int(c) < POISON0]
        out += [pid, str(len(kids))] + kids
        i += 2 + m
    return ["F", str(k)] + out + rest[i:]


def feed_table(rng, ids, depth, maxkids, next_id):
    """feeds for a forest: each item of `ids` may add up to maxkids new items, recursively up to `depth` levels"""
    table = {}
    level = list(ids)
    for d in range(depth):
        nxt = []
        for x in level:
            k = rng.choice([0, 0, 1, 2, maxkids]) if level is not ids or rng.random() < 0.5 else 0
            if k:
                kids = list(range(next_id[0], next_id[0] + k))
                next_id[0] += k
                nxt += kids
                # a child whose copy / move constructor throws inside feeder::add (ids >= POISON0): the body catches and feeds on
                if rng.random() < 0.3:
                    kids = list(kids)
                    kids.insert(rng.randrange(0, len(kids)), POISON0 + next_id[0])
                    next_id[0] += 1
                table[x] = kids
        level = nxt
        if not level:
            break
    return table


def each_scenarios(ck, n, small=False):
    rng = ck.rng
    scs = []
    sizes = [1, 2, 3, 4, 5, 7, 8, 9, 11, 12, 13, 16, 17, 31, 33] if not small else [1, 2, 3, 4, 5, 6, 8, 9]
    for i in range(n):
        cat = "ifrd"[i % 4]
        m = rng.choice(sizes) if rng.random() < 0.8 else rng.randrange(1, 60 if not small else 10)
        if i % 41 == 40:
            m = 0
        base = rng.choice([10, 100, 1000])
        ids = list(range(base, base + m))
        rng.shuffle(ids)
        nid = [base + 10000]
        depth = rng.choice([0, 1, 2, 3, 3])
        table = feed_table(rng, ids, depth, rng.choice([1, 2, 3]), nid) if depth else {}
        T = rng.choice([1, 2, 2, 3, 4, 8])
        st = rng.choice([(0, 0), (30, 30), (60, 20), (90, 50), (10, 90), (100, 100), (50, 0)])
        f = " ".join("%d %d %s" % (k, len(v), " ".join(map(str, v))) for k, v in sorted(table.items()))
        scs.append("each %s %d %d %d %d %d %s F %d %s" % (cat, T, rng.randrange(1, 1 << 40), st[0], st[1], m, " ".join(map(str, ids)), len(table), f))
    return [re.sub(r"\s+", " ", s).strip() for s in scs]


def invoke_scenarios(ck, per_n):
    rng = ck.rng
    scs = []
    for n in range(2, 13):
        for j in range(per_n):
            T = rng.choice([1, 2, 3, 4, 8])
            st = rng.choice([(0, 0), (30, 30), (60, 20), (90, 50), (10, 90), (100, 100)])
            scs.append("invoke %d %d %d %d %d %d" % (n, T, rng.randrange(1, 1 << 40), st[0], st[1], j % 2))
    return scs


# ---------------------------------------------------------------------------------------------
# trace handling
# ---------------------------------------------------------------------------------------------
def split_runs(out):
    runs, cur = [], []
    for l in out.split("\n"):
        if l == "END":
            runs.append(cur)
            cur = []
        elif l:
            cur.append(l)
    return runs, cur


def ra_chunks(trace):
    """random-access path: maximal runs of consecutive positions whose body calls start in the same frame"""
    per = {}
    order = []
    for l in trace:
        w = l.split()
        if w[0] == "ev" and w[2] == "bs" and w[4].startswith("pos:"):
            f, k = int(w[1]), int(w[4][4:])
            runs = per.setdefault(f, [])
            if runs and runs[-1][1] == k:
                runs[-1][1] = k + 1
            else:
                runs.append([k, k + 1])
                order.append(runs[-1])
    return [(a, b) for a, b in order]


def driver_input(sc, trace, consts):
    w = sc.split()
    if w[0] == "each":
        cat, T, n = ("i" if w[1] == "d" else w[1]), int(w[2]), int(w[6])      # (d: a derived input tag, the same model as i)
        ids = w[7:7 + n]
        rest = strip_poison(w[7 + n:])           # F k …
        trace = [l for l in trace if not (l.startswith("ev ") and l.split()[2] == "addthrow")]
        mb = consts["maxBlockInput"] if cat == "i" else consts["maxBlockForward"]
        chunks = ra_chunks(trace) if cat == "r" else []
        cfg = "cfgE %s %d %d %d %s %s C %d %s" % (cat, T, mb, n, " ".join(ids), " ".join(rest), len(chunks), " ".join("%d %d" % c for c in chunks))
    else:
        cfg = "cfgI %s" % w[1]
    return [re.sub(r"\s+", " ", cfg).strip()] + trace + ["end"]


def monitors(sc, trace, mline, consts):
    """implementation-side monitors on one run (independent of the model); None or text"""
    if mline is None:
        return "no monitor line (the harness died)"
    M = dict(kv.split("=", 1) for kv in mline.split()[1:])
    if M.get("problem", "-") != "-":
        return M["problem"].replace("_", " ")
    w = sc.split()
    # a failed feeder::add (the item's copy / move constructor threw) changes no counter
    prev = None
    for l in trace:
        snap = l.split(" | ", 1)[1] if " | " in l else None
        if l.startswith("ev ") and l.split()[2] == "addthrow" and prev is not None and snap is not None and snap != prev:
            return "a feeder::add that failed (item constructor threw) changed the reference counters: %s -> %s" % (prev, snap)
        if snap is not None:
            prev = snap
    if w[0] == "each" and w[1] in "ifd":
        n = int(w[6])
        mb = consts["maxBlockInput"] if w[1] in "id" else consts["maxBlockForward"]
        # blocks: the root task's increments between two spawns of itself
        sizes, cur, pos = [], 0, 0
        for l in trace:
            t = l.split()
            if t[0] == "ev" and t[2] == "inc":
                if int(t[3]) != pos:
                    return "iterator incremented from position %s, expected %d" % (t[3], pos)
                pos += 1
                cur += 1
            elif t[0] == "S" and t[2] == "root":
                sizes.append(cur)
                cur = 0
        if pos != n:
            return "the iterator was advanced %d times over a sequence of %d" % (pos, n)
        if any(s < 1 or s > mb for s in sizes) or sum(sizes) != n:
            return "block sizes %s for %d items (max_block_size %d)" % (sizes, n, mb)
    return None


def run_mock(ck, consts, scs=None, report=True, tag=""):
    exe = cxx_build("C05", "each", [H + "each.cpp"], flags=MOCK_FLAGS)
    own = scs is None
    if own:
        q = ck.tier == "quick"
        scs = each_scenarios(ck, 240 if q else 6000) + invoke_scenarios(ck, 4 if q else 60)
    rc, out, err = run_limited([exe], input="\n".join(scs) + "\n", timeout=1800)
    runs, tail = split_runs(out)
    fails = []
    if rc != 0 or len(runs) != len(scs):
        i = min(len(runs), len(scs) - 1)
        m = None
        for l in tail:
            if l.startswith("M "):
                m = l
        what = ("a wait is never satisfied (no task pending, reference count > 0): a reference is never released" if "DEADLOCK" in out[-400:] else
                "runaway (more than 2,000,000 task executions)" if "RUNAWAY" in out[-200:] else "harness crashed: rc=%d %s" % (rc, err[-300:].strip()))
        if report:
            ck.oblige("monitor:scripted parallel_for_each / parallel_invoke runs%s complete" % tag, "correspondence", False, "%r: %s %s" % (scs[i], what, m or ""))
        fails.append((scs[i], what))
        return fails
    # model validation
    lines, where = [], []
    mon_bad = None
    for si, (sc, run) in enumerate(zip(scs, runs)):
        if run == ["bad-op"]:
            if mon_bad is None:
                mon_bad = (sc, "harness rejected the scenario")
            continue
        trace = [l for l in run if not l.startswith("M ")]
        ml = [l for l in run if l.startswith("M ")]
        m = monitors(sc, trace, ml[-1] if ml else None, consts)
        if m and mon_bad is None:
            mon_bad = (sc, m)
            fails.append((sc, m))
        di = driver_input(sc, trace, consts)
        lines += di
        where += [(si, j) for j in range(len(di))]
    model = drv("c05each", "\n".join(lines) + "\n", timeout=3600) if lines else []
    mism, fin_bad = None, None
    if len(model) != len(lines):
        mism = ("?", "?", "model produced %d lines for %d" % (len(model), len(lines)))
    for (si, j), l, mo in zip(where, lines, model):
        if mo.startswith("MISMATCH") or mo == "bad-op":
            if mism is None:
                mism = (scs[si], l, mo)
        elif mo.startswith("final"):
            f = dict(kv.split("=", 1) for kv in mo.split()[1:] if "=" in kv)
            if (f.get("failed") == "0") and not (f.get("bad") == "0" and f.get("returned") == "1" and f.get("quiescent") == "1" and f.get("root") == "0"):
                if fin_bad is None:
                    fin_bad = (scs[si], mo[:300])
    if own:
        ck.count(len(lines))
        ck.traces_validated += len(scs)
        for sc, run in zip(scs, runs):
            w = sc.split()
            ck.distinct.add(("each", w[0], w[1], min(len(run) // 8, 60), w[3] if w[0] == "each" else w[2]))
        ck.extra["each_mock_runs"] = len(scs)
        ck.extra["each_mock_events"] = len(lines)
        ck.sample({"scenario": scs[0], "trace_head": runs[0][:12], "model": model[:13]})
        j = len(scs) - 3
        ck.sample({"scenario": scs[j], "trace_head": runs[j][:10]})
    if report:
        ck.oblige("corr:parallel_for_each / parallel_invoke traces%s (tasks started, spawned, body calls, iterator operations, item copies and destructions, "
                  "waits, reference counters after every event) are runs of the model" % tag, "correspondence", mism is None,
                  "" if mism is None else "scenario %r\n event %r\n %s" % mism)
        ck.oblige("corr:the model run of every trace%s ends returned, quiescent, root counter 0, no counter underflow" % tag, "correspondence", fin_bad is None, fin_bad or "")
        ck.oblige("monitor:scripted parallel_for_each / parallel_invoke%s: every item (function) exactly once, nothing runs after the return, no wait returns with work "
                  "pending, no counter underflow, copies destroyed exactly once and alive during the body, iterator advanced sequentially, block sizes in [1,max]" % tag,
                  "correspondence", mon_bad is None, mon_bad or "")
    if mism is not None and not fails:
        fails.append((mism[0], None))
    return fails


def search(ck, consts, first_fails):
    """small scenarios, many schedules, implementation monitors only; the shortest failing scenario is reported"""
    found = [f for f in first_fails if f[1]]
    if first_fails or not found:
        try:
            scs = sorted(each_scenarios(ck, 900, small=True) + invoke_scenarios(ck, 20), key=len)
            # one process per batch: a deadlocking / crashing scenario ends its batch, so go through the list in slices
            pos = 0
            while pos < len(scs) and len(found) < 4:
                fails = run_mock(ck, consts, scs[pos:pos + 150], report=False)
                for sc, m in fails:
                    if m:
                        found.append((sc, m))
                        break
                if fails and fails[0][1]:
                    break
                pos += 150
        except BuildError as e:
            log("search: each harness does not build: %s" % str(e)[:200])
    found.sort(key=lambda f: len(f[0]))
    for sc, m in found[:1]:
        ck.counterexample("each:" + sc.replace(" ", "="), "%s under the scripted runtime: %s (scenario: %s)" % ("parallel_for_each" if sc.startswith("each") else "parallel_invoke", m, sc),
                          {"engine": "E-MOCK", "harness": H + "each.cpp", "stdin": sc + "\n", "monitor": "each"})


def replay_line(consts_unused, stdin):
    exe = cxx_build("C05", "each", [H + "each.cpp"], flags=MOCK_FLAGS)
    rc, out, err = run_limited([exe], input=stdin, timeout=600)
    print("replay: rc=%d\n%s%s" % (rc, out[-3000:], err[-500:]))
    if rc != 0:
        return "harness exits with rc=%d (%s)" % (rc, "wait never satisfied" if "DEADLOCK" in out else "crash")
    runs, _ = split_runs(out)
    consts = {"maxBlockInput": 1 << 30, "maxBlockForward": 1 << 30}
    for sc, run in zip(stdin.strip().split("\n"), runs):
        ml = [l for l in run if l.startswith("M ")]
        M = dict(kv.split("=", 1) for kv in ml[-1].split()[1:]) if ml else {"problem": "no-monitor-line"}
        if M.get("problem", "-") != "-":
            return M["problem"].replace("_", " ")
    return None
