"""C10 E-GEN (second part): regenerates, from the text of include/oneapi/tbb/concurrent_hash_map.h, the statement skeletons
of the functions whose lock usage the refined model HMapR (Model/C10R.lean) transcribes:
    bucket_accessor::acquire, rehash_bucket, lookup, exclude, internal_erase,
    check_mask_race, check_rehashing_collision, insert_new_node, enable_segment, get_bucket, add_to_bucket, search_bucket
Comments, assertions and white space are removed, and parameters / local variables are renamed positionally (v0, v1, ...; labels
L0, L1, ...), and adjacent independent call-free assignments are sorted, so that a renamed local, a comment, an assertion or a swap of
two independent assignments does not change a skeleton, while any other change of the statements does.  Props/C10.lean pins the skeletons (`generated_lock_skeletons`): an edit of one of these bodies is flagged on the next run
even if no explored schedule exhibits a difference."""
import re

HEADER = "include/oneapi/tbb/concurrent_hash_map.h"

SIG = [
    ("acquire", r"inline void acquire\(\s*concurrent_hash_map \*(\w+), const hashcode_type (\w+), bool (\w+) = false\s*\)"),
    ("rehash_bucket", r"void rehash_bucket\(\s*bucket \*(\w+), const hashcode_type (\w+)\s*\)"),
    ("lookup", r"bool lookup\(\s*const K &(\w+), const T \*(\w+), const_accessor \*(\w+), bool (\w+), AllocateNodeType (\w+), node \*(\w+)\s*= nullptr\)"),
    ("exclude", r"bool exclude\(\s*const_accessor &(\w+)\s*\)"),
    ("internal_erase", r"bool internal_erase\(\s*const K& (\w+)\s*\)"),
    ("check_mask_race", r"inline bool check_mask_race\(\s*const hashcode_type (\w+), hashcode_type &(\w+)\s*\) const"),
    ("check_rehashing_collision", r"bool check_rehashing_collision\(\s*const hashcode_type (\w+), hashcode_type (\w+), hashcode_type (\w+)\s*\) const"),
    ("insert_new_node", r"segment_index_type insert_new_node\(\s*bucket \*(\w+), node_base \*(\w+), hashcode_type (\w+)\s*\)"),
    ("enable_segment", r"void enable_segment\(\s*segment_index_type (\w+), bool (\w+) = false\s*\)"),
    ("get_bucket", r"bucket \*get_bucket\(\s*hashcode_type (\w+)\s*\) const noexcept"),
    ("add_to_bucket", r"static void add_to_bucket\(\s*bucket\* (\w+), node_base\* (\w+)\s*\)"),
    ("search_bucket", r"node \*search_bucket\(\s*const K &(\w+), bucket \*(\w+)\s*\) const"),
]

KEYWORDS = {"goto", "return", "else", "delete", "throw", "case", "new", "if", "while", "for", "do", "break", "continue", "typename",
            "const", "static", "using", "sizeof", "this", "true", "false", "nullptr", "template", "struct", "class", "operator"}


class GenError(Exception):
    pass


def strip_comments(text):
    text = re.sub(r"/\*.*?\*/", " ", text, flags=re.S)
    return re.sub(r"//[^\n]*", " ", text)


def match_brace(text, i, open_c="{", close_c="}"):
    depth = 0
    for j in range(i, len(text)):
        if text[j] == open_c:
            depth += 1
        elif text[j] == close_c:
            depth -= 1
            if depth == 0:
                return j + 1
    raise GenError("unbalanced braces")


def drop_asserts(body):
    out, i = "", 0
    while True:
        j = body.find("__TBB_ASSERT", i)
        if j < 0:
            return out + body[i:]
        out += body[i:j]
        p = body.index("(", j)
        e = match_brace(body, p, "(", ")")
        while e < len(body) and body[e] in " ;\n\t":
            e += 1
        i = e


def norm(body):
    return re.sub(r"\s+", " ", drop_asserts(body)).strip()


def func(text, sig_re):
    m = re.search(sig_re + r"\s*\{", text)
    if not m:
        raise GenError("function not found: " + sig_re[:60])
    end = match_brace(text, m.end() - 1)
    return m, norm(text[m.end():end - 1])


def split_statements(body):
    """normalised body -> list of statements / braces (parentheses are respected: the `;` of a for-header do not split)"""
    out, cur, depth = [], "", 0
    for ch in body:
        if ch == "(":
            depth += 1
        elif ch == ")":
            depth -= 1
        if depth == 0 and ch in ";{}":
            c = cur.strip()
            if ch == ";":
                if c:
                    out.append(c)
            elif ch == "{":
                out.append((c + " {").strip())
            else:
                if c:
                    out.append(c)
                out.append("}")
            cur = ""
        else:
            cur += ch
    if cur.strip():
        out.append(cur.strip())
    return out


DECL = re.compile(r"^(?:(?:const|static|typename)\s+)*[A-Za-z_][\w:]*(?:<[^;=()]*>)?(?:\s+const)?(?:\s*[*&]+\s*(?:const\s+)?|\s+)"
                  r"([A-Za-z_]\w*)\s*(?:=|$|\(|,)")
DECL_MORE = re.compile(r",\s*([A-Za-z_]\w*)\s*(?:=|$|,)")
LABEL = re.compile(r"^([A-Za-z_]\w*)\s*:(?!:)")
FOR_DECL = re.compile(r"^for\s*\(\s*(?:[A-Za-z_][\w:]*(?:<[^;=()]*>)?\s*[*&]?\s+)([A-Za-z_]\w*)\s*(?:=|;|\()")


def locals_of(stmts):
    """declared local variables and labels, in order of first declaration"""
    names, labels = [], []
    for s in stmts:
        t = s
        m = LABEL.match(t)
        while m and m.group(1) not in KEYWORDS and m.group(1) not in ("default", "public", "private", "protected"):
            if m.group(1) not in labels:
                labels.append(m.group(1))
            t = t[m.end():].strip()
            m = LABEL.match(t)
        m = FOR_DECL.match(t)
        if m and m.group(1) not in KEYWORDS and m.group(1) not in names:
            names.append(m.group(1))
        first = t.split(" ", 1)[0].split("(", 1)[0]
        if first in KEYWORDS and first not in ("const", "static", "typename"):
            continue
        m = DECL.match(t)
        if m and m.group(1) not in KEYWORDS:
            # `x = 1` alone has a single token before `=`: DECL needs a type token, so it does not match
            if m.group(1) not in names:
                names.append(m.group(1))
            # further declarators of the same statement: `hashcode_type m_now, m_old = m`
            head = t[:m.start(1)]
            if "(" not in head:
                rest = t[m.end(1):]
                depth = 0
                flat = ""
                for ch in rest:
                    if ch in "([{":
                        depth += 1
                    elif ch in ")]}":
                        depth -= 1
                    flat += ch if depth == 0 else " "
                for mm in DECL_MORE.finditer(flat):
                    if mm.group(1) not in KEYWORDS and mm.group(1) not in names:
                        names.append(mm.group(1))
    return names, labels


def rename(stmts, params):
    names, labels = locals_of(stmts)
    order = list(params) + [n for n in names if n not in params]
    mapping = {n: "v%d" % i for i, n in enumerate(order)}
    lmap = {n: "L%d" % i for i, n in enumerate(labels) if n not in mapping}
    out = []
    for s in stmts:
        def sub(m):
            w = m.group(0)
            # a member access `x.name` / `x->name` / `ns::name` is not a local
            pre = s[max(0, m.start() - 2):m.start()]
            if pre.endswith(".") or pre.endswith("->") or pre.endswith("::"):
                return w
            if w in mapping:
                return mapping[w]
            if w in lmap:
                return lmap[w]
            return w
        out.append(re.sub(r"[A-Za-z_]\w*", sub, s))
    return out, mapping, lmap


SIMPLE_ASSIGN = re.compile(r"^([A-Za-z_][\w]*(?:(?:->|\.)[A-Za-z_]\w*)*) = ([^(){};=]*)$")


def _independent(a, b):
    (la, ra), (lb, rb) = a, b
    if la == lb:
        return False
    ids = lambda t: set(re.findall(r"[A-Za-z_][\w]*(?:(?:->|\.)[A-Za-z_]\w*)*", t))
    # neither statement reads what the other writes (a written `x->f` is read by any occurrence of `x->f`; a written plain `x` by any path through x)
    def reads(lhs, rhs_ids):
        return any(i == lhs or i.startswith(lhs + "->") or i.startswith(lhs + ".") or lhs.startswith(i + "->") and False for i in rhs_ids)
    base = lambda l: re.split(r"->|\.", l)[0]
    if reads(la, ids(rb)) or reads(lb, ids(ra)):
        return False
    if la == base(lb) or lb == base(la):          # one writes the pointer the other writes through
        return False
    return True


def canon_order(stmts):
    """adjacent simple assignments without calls that are pairwise independent are put into lexicographic order, so that swapping
    two independent assignments does not change a skeleton"""
    out, i = [], 0
    while i < len(stmts):
        j = i
        run = []
        while j < len(stmts):
            m = SIMPLE_ASSIGN.match(stmts[j])
            if not m or m.group(1).split("->")[0].split(".")[0] in KEYWORDS:
                break
            run.append((m.group(1), m.group(2)))
            j += 1
        if len(run) >= 2 and all(_independent(run[a], run[b]) for a in range(len(run)) for b in range(a + 1, len(run))):
            out += sorted(stmts[i:j])
            i = j
        elif run:
            out += stmts[i:j]
            i = j
        else:
            out.append(stmts[i])
            i += 1
    return out


def skeletons(repo):
    """-> ({name: [statements]}, [(what, ok, detail)])"""
    text = strip_comments(open(repo + "/" + HEADER).read())
    out, obl = {}, []
    for name, sig in SIG:
        try:
            m, body = func(text, sig)
            st, mapping, lmap = rename(split_statements(body), list(m.groups()))
            st = canon_order(st)
            out[name] = ["(" + ", ".join("v%d" % i for i in range(len(m.groups()))) + ")"] + st
            obl.append(("signature of %s found" % name, True, ""))
        except (GenError, ValueError) as e:
            out[name] = ["not found: " + str(e)[:100]]
            obl.append(("signature of %s found" % name, False, str(e)[:200]))
    return out, obl


def camel(name):
    p = name.split("_")
    return p[0] + "".join(w.capitalize() for w in p[1:])


def lean_str(s):
    return '"' + s.replace("\\", "\\\\").replace('"', '\\"') + '"'


def lean_list(xs):
    return "[" + ",\n  ".join(lean_str(x) for x in xs) + "]"


def generate(repo):
    sk, obl = skeletons(repo)
    body = ""
    for name, _ in SIG:
        body += "def %sSkeleton : List String := %s\n" % (camel(name), lean_list(sk[name]))
    return body, obl, sk


if __name__ == "__main__":
    import sys
    sk, obl = skeletons(sys.argv[1] if len(sys.argv) > 1 else "/repo")
    for k, v in sk.items():
        print("==", k)
        for s in v:
            print("   ", s)
    print(obl)
