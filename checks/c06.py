"""C06 — parallel_reduce / parallel_deterministic_reduce / parallel_scan / parallel_sort equal the sequential
result for any input and schedule (DESIGN.md §3 C06).

Ties on every run against $VERIF_REPO's current tree:
  E-GEN   sort constants (grainsize via a compiled dumper; min_parallel_size, serial_cutoff, poll period, median offset
          divisor from the source text); the serial probe's loop start / loop bound / ARGUMENT ORDER of its comp(…) call,
          the pretest body's argument order and the pretest's first index; start_scan::execute's `treat_as_stolen`
          expression (value + whether its short-circuit evaluation reads m_left_sum in a stolen task) and
          start_reduce::execute's lazy-split guard, each translated from the source text -> Generated/C06.lean; the
          theorems are proved FROM these generated facts (a guard that is not equivalent, a swapped comparison, an
          uncovered pair break the Lean build)
  E-PURE  the real quick_sort_range split constructor / median_of_three / pseudo_median_of_nine / is_divisible,
          quick_sort_pretest_body and the whole parallel_quick_sort on one thread (probe + pretest comparison sequence,
          return-unsorted decision) (white box) vs the Lean model on generated arrays: outputs must be EQUAL
  E-REAL  real parallel_reduce / parallel_deterministic_reduce / parallel_scan / parallel_sort with recording
          free-monoid bodies on real threads — including RE-ENTRANT bodies (leaf bodies wait on a task_group inside
          operator(), so sibling right children run nested on the same thread, not stolen, left sibling unfinished;
          deterministic with one thread) and FORCED real steals after the left sibling completed; implementation-side
          monitors + the observed event log must be a run of the Lean model (reduce: replay through drv_c06 c06rd;
          scan: model run under the observed oracle incl. `early`; deterministic reduce: equal split/join term)
"""
import json
import os
import re

import common
from common import BuildError, REPO, cxx_build, drv, first_diff, gen_write, log, sh

PID = "C06"
H = "harness/c06/"
SORT_H = os.path.join(REPO, "include/oneapi/tbb/parallel_sort.h")
CMPS = ["lt", "gt", "div3", "div100", "mod7"]


# ---------------------------------------------------------------------------------------------
# building / running
# ---------------------------------------------------------------------------------------------
def tbb_link():
    d = None
    if os.path.isdir(os.path.join(REPO, "_build")):
        d = common.ensure_repo_built(targets=("tbb",))
    if d is None:
        # header-only experiments (a git worktree without _build): the library of the pinned tree
        b = "/repo/_build"
        for x in sorted(os.listdir(b)) if os.path.isdir(b) else []:
            if os.path.exists(os.path.join(b, x, "libtbb.so")):
                d = os.path.join(b, x)
                break
    if d is None:
        raise BuildError("no built libtbb found under %s/_build or /repo/_build" % REPO)
    return ["-L" + d, "-ltbb", "-Wl,-rpath," + d]


def build_all(ck):
    libs = ck.libs = getattr(ck, "libs", None) or tbb_link()
    flags = ["-O1", "-g", "-fno-access-control", "-pthread"]
    ck.exe_pure = cxx_build(PID, "pure", [H + "pure.cpp"], flags=flags, libs=libs)
    ck.exe_pure_asan = cxx_build(PID, "pure_asan", [H + "pure.cpp"], libs=libs,
                                 flags=flags + ["-fsanitize=address", "-fno-omit-frame-pointer", "-fno-sanitize-recover=all"])
    ck.exe_real = cxx_build(PID, "real", [H + "real.cpp"], flags=flags, libs=libs)
    ck.exe_asan = cxx_build(PID, "real_asan", [H + "real.cpp"], libs=libs,
                            flags=flags + ["-fsanitize=address", "-fno-omit-frame-pointer", "-fno-sanitize-recover=all"])


SKIPPED = "skipped=1"


def run_lines(exe, lines, timeout=600, env=None, max_crashes=5):
    """Feed lines to a line-protocol harness; survive crashes/timeouts: returns one output per line — None for a line that
    killed the harness (crash, or the harness' watchdog: the scenario did not return), SKIPPED for lines that were not run
    because the crash budget was used up (a broken tree may hang in many scenarios; the check must stay bounded)."""
    out = [None] * len(lines)
    start = 0
    crashes = []
    if env is not None:
        env = dict(os.environ, **env)
    while start < len(lines):
        if len(crashes) >= max_crashes:
            out[start:] = [SKIPPED] * (len(lines) - start)
            break
        rc, o, e = sh([exe], input="\n".join(lines[start:]) + "\n", timeout=timeout, env=env)
        got = o.split("\n")
        if got and got[-1] == "":
            got = got[:-1]
        if rc == 0 and len(got) == len(lines) - start:
            out[start:] = got
            break
        k = min(len(got), len(lines) - start - 1)
        out[start:start + k] = got[:k]
        m = re.search(r"ERROR: AddressSanitizer[^\n]*|WATCHDOG[^\n]*", e)
        crashes.append((start + k, rc, m.group(0) if m else e[-300:]))
        start = start + k + 1          # skip the line that killed the harness
    return out, crashes


def not_run(ck, what, outs, crashes, lines):
    """obligation: every scenario returned (no crash, no hang) and none had to be skipped"""
    nskip = sum(1 for o in outs if o == SKIPPED)
    ok = not crashes and not nskip
    ck.oblige("monitor:every %s scenario returns (no crash, no hang)" % what, "correspondence", ok,
              "" if ok else "%d scenario(s) killed the harness, e.g. `%s`: %s; %d scenario(s) not run after that" % (
                  len(crashes), lines[crashes[0][0]][:100] if crashes else "", str(crashes[0][2])[:160] if crashes else "", nskip))


def parse_kv(line):
    """'a=1 b=x log=…' -> dict (log is the rest of the line)"""
    d = {}
    if line is None:
        return d
    head, sep, lg = line.partition(" log=")
    for kv in head.split():
        if "=" in kv:
            k, v = kv.split("=", 1)
            d[k] = v
    if sep:
        d["log"] = [tuple(int(x) if x.lstrip("-").isdigit() else x for x in ev.split()) for ev in lg.split(";") if ev]
    return d


# ---------------------------------------------------------------------------------------------
# E-GEN
# ---------------------------------------------------------------------------------------------
SCAN_H = os.path.join(REPO, "include/oneapi/tbb/parallel_scan.h")
REDUCE_H = os.path.join(REPO, "include/oneapi/tbb/parallel_reduce.h")


def strip_src(path):
    """source text without comments and without any white space"""
    t = open(path).read()
    t = re.sub(r"/\*.*?\*/", "", t, flags=re.S)
    t = re.sub(r"//[^\n]*", "", t)
    return re.sub(r"\s+", "", t)


class GuardSyntax(Exception):
    pass


def parse_guard(text, atoms):
    """C++ boolean expression (white-space free) over the given atoms -> AST.
    atoms: [(regex, name-or-function(match) -> lean term)].  AST: ('atom', lean, name) | ('not', x) | ('and', x, y) | ('or', x, y).
    Precedence ! > && > ||, parentheses.  Anything else raises GuardSyntax."""
    toks = []
    k = 0
    while k < len(text):
        for pat, name in atoms:
            m = re.compile(pat).match(text, k)
            if m:
                toks.append(("atom", name(m) if callable(name) else name, name if not callable(name) else "cmp"))
                k = m.end()
                break
        else:
            if text.startswith("&&", k) or text.startswith("||", k):
                toks.append((text[k:k + 2],))
                k += 2
            elif text[k] in "()!":
                toks.append((text[k],))
                k += 1
            else:
                raise GuardSyntax("unrecognised operand at `%s`" % text[k:k + 60])
    pos = [0]

    def peek():
        return toks[pos[0]][0] if pos[0] < len(toks) else None

    def take():
        pos[0] += 1
        return toks[pos[0] - 1]

    def p_or():
        x = p_and()
        while peek() == "||":
            take()
            x = ("or", x, p_and())
        return x

    def p_and():
        x = p_not()
        while peek() == "&&":
            take()
            x = ("and", x, p_not())
        return x

    def p_not():
        if peek() == "!":
            take()
            return ("not", p_not())
        if peek() == "(":
            take()
            x = p_or()
            if peek() != ")":
                raise GuardSyntax("unbalanced parentheses")
            take()
            return x
        if peek() == "atom":
            return take()
        raise GuardSyntax("operand expected")
    x = p_or()
    if pos[0] != len(toks):
        raise GuardSyntax("trailing tokens")
    return x


def lean_val(x):
    if x[0] == "atom":
        return x[1]
    if x[0] == "not":
        return "(!%s)" % lean_val(x[1])
    return "(%s %s %s)" % (lean_val(x[1]), "&&" if x[0] == "and" else "||", lean_val(x[2]))


def lean_reads(x, what):
    """Bool term: does the short-circuit evaluation of x evaluate the atom named `what`?"""
    if x[0] == "atom":
        return "true" if x[1] == what else "false"
    if x[0] == "not":
        return lean_reads(x[1], what)
    if x[0] == "and":
        return "(%s || (%s && %s))" % (lean_reads(x[1], what), lean_val(x[1]), lean_reads(x[2], what))
    return "(%s || (!%s && %s))" % (lean_reads(x[1], what), lean_val(x[1]), lean_reads(x[2], what))


def deref_offset(arg):
    """`*k` / `*(k)` / `*(k+N)` / `*(k-N)` -> offset"""
    m = re.fullmatch(r"\*(?:k|\(k(?:([+-])(\d+))?\))", arg)
    if not m:
        return None
    return 0 if m.group(1) is None else int(m.group(2)) * (1 if m.group(1) == "+" else -1)



def gen_scan_skeleton(ck, sws, c):
    """statement skeleton of the parallel_scan task protocol -> Lean defs used by Model/C06Scan.lean.  A statement that is not
    recognised (a rewrite) falls back to the default and is reported in the evidence: the replay of real event logs against the
    model (corr:… task-protocol model) then decides; a recognised statement that DIFFERS is generated as it is and breaks the theorems."""
    out, notes = [], []
    NOIF = r"((?:(?!if\().)*?)"

    def guard(name, params, regex, atoms, default):
        m = re.search(regex, sws)
        val = None
        if m:
            try:
                val = lean_val(parse_guard(m.group(1), atoms))
            except GuardSyntax as e:
                notes.append("%s: %s" % (name, e))
        else:
            notes.append("%s: statement not found" % name)
        out.append("def %s %s : Bool := %s" % (name, params, val or default))
        c[name] = val or ("default " + default)

    zm = re.search(r"final_sum_type\*(\w+)=m_right_zombie\.load\(", sws)
    zn = zm.group(1) if zm else "right_zombie"
    zat = [(re.escape(zn), "zombie"), (r"m_sum_slot", "ss"), (r"m_result\.m_right", "right"), (r"m_result\.m_left(?!_)", "left")]
    # finish_scan::execute
    recv = None
    m = re.search(r"if\(" + NOIF + r"\)\{?\(\*m_sum_slot\)->reverse_join\(\*m_result\.m_left_sum\);", sws)
    if m:
        recv = "true"
    else:
        m = re.search(r"if\(" + NOIF + r"\)\{?m_result\.m_left_sum->reverse_join\(\*\*m_sum_slot\);", sws)
        if m:
            recv = "false"
    jc = None
    if m:
        try:
            jc = lean_val(parse_guard(m.group(1), zat))
        except GuardSyntax as e:
            notes.append("scanFinishJoins: %s" % e)
    else:
        notes.append("scanFinishJoins: reverse_join of finish_scan::execute not found")
    out.append("def scanFinishJoins (zombie ss : Bool) : Bool := %s" % (jc or "(zombie && ss)"))
    out.append("def scanFinishJoinRecvSlot : Bool := %s" % (recv or "true"))
    c["scanFinishJoins"] = jc or "default"
    c["scanFinishJoinRecvSlot"] = recv or "default"
    guard("scanKeeps", "(zombie right : Bool)", r"if\(" + NOIF + r"\)\{m_return_slot=&m_result;\}else\{m_result\.self_destroy\(ed\);\}", zat, "(zombie || right)")
    if re.search(r"m_result\.m_left_is_final=false;", sws):
        guard("scanResetsLeftIsFinal", "(left : Bool)", r"if\(" + NOIF + r"\)\{?m_result\.m_left_is_final=false;", zat, "left")
    else:
        out.append("def scanResetsLeftIsFinal (left : Bool) : Bool := false")      # the statement is gone
        c["scanResetsLeftIsFinal"] = "false (statement absent)"
    # sum_node::execute
    nj = None
    if re.search(r"if\(m_incoming\)\{?m_left_sum->reverse_join\(\*m_incoming\);", sws):
        nj = "true"
    elif re.search(r"if\(m_incoming\)\{?m_incoming->reverse_join\(\*m_left_sum\);", sws):
        nj = "false"
    else:
        notes.append("scanNodeJoinRecvLeftSum: reverse_join of sum_node::execute not found")
    out.append("def scanNodeJoinRecvLeftSum : Bool := %s" % (nj or "true"))
    c["scanNodeJoinRecvLeftSum"] = nj or "default"
    # start_scan::execute
    guard("scanLeafCond", "(isRight tas divisible exec : Bool)", r"if\(" + NOIF + r"\)\{if\(m_is_final\)",
          [(r"m_is_right_child", "isRight"), (r"treat_as_stolen", "tas"), (r"m_range\.is_divisible\(\)", "divisible"),
           (r"m_partition\.should_execute_range\(ed\)", "exec")], "(((isRight && (!tas)) || (!divisible)) || exec)")
    lm = "if isFinal then 2 else if ss then 1 else 0"
    if "if(m_is_final)m_body(m_range,final_scan_tag());elseif(m_sum_slot)m_body(m_range,pre_scan_tag());" in sws:
        pass
    elif "if(m_is_final)m_body(m_range,final_scan_tag());elsem_body(m_range,pre_scan_tag());" in sws:
        lm = "if isFinal then 2 else 1"
    elif "if(m_sum_slot)m_body(m_range,pre_scan_tag());elseif(m_is_final)m_body(m_range,final_scan_tag());" in sws:
        lm = "if ss then 1 else if isFinal then 2 else 0"
    else:
        notes.append("scanLeafMode: leaf body dispatch not recognised")
    out.append("def scanLeafMode (isFinal ss : Bool) : Nat := %s" % lm)
    c["scanLeafMode"] = lm
    guard("scanLeafWritesSlot", "(ss : Bool)", r"if\(" + NOIF + r"\)\{?\*m_sum_slot=&m_body\.get\(\);", [(r"m_sum_slot", "ss")], "ss")
    scf = "true"
    m = re.search(r"m_body=\*right_zombie;(m_is_final=false;)?", sws)
    if m and not m.group(1) and not re.search(r"if\(treat_as_stolen\)\{(?:(?!\}).)*m_is_final=false;", sws):
        scf = "false"
    elif not m:
        notes.append("scanStolenClearsFinal: `m_body = *right_zombie;` not found")
    out.append("def scanStolenClearsFinal : Bool := %s" % scf)
    c["scanStolenClearsFinal"] = scf
    need = ["task*right_child=this->create_child(Range(m_range,split()),*m_left_sum,m_right,m_left_sum,m_stuff_last);",
            "task*left_child=m_left_is_final?nullptr:this->create_child(m_range,*m_body,m_left,m_incoming,nullptr);",
            "ref_count=(left_child!=nullptr)+(right_child!=nullptr);",
            "m_body(*m_range.begin(),final_scan_tag());if(m_stuff_last)m_stuff_last->assign(m_body);",
            "child->prepare_for_execution(body,incoming,stuff_last);returnchild;}else{body.finish_construction(this,range,stuff_last);return&body;",
            "temp_body.reverse_join(body);", "root->prepare_for_execution(temp_body,nullptr,&body);", "temp_body.assign_to(body);"]
    missing = [x for x in need if x not in sws]
    if missing:
        notes.append("pass-2 / run() statements not recognised (defaults used, replay decides): %s" % [x[:50] for x in missing])
    out.append("def scanPass2Skeleton : Bool := true")
    ck.extra["scan_skeleton_notes"] = notes
    ck.oblige("gen:scan task-protocol skeleton extracted (finish_scan join condition / operand order / keep condition / m_left_is_final reset, "
              "sum_node join operand order, leaf condition, leaf body dispatch, slot write, is_final cleared when treated as stolen)", "generated",
              True, "unrecognised statements fall back to the default and are decided by the event-log replay: %s" % notes if notes else "all recognised")
    return "\n".join(out) + "\n"


def gen(ck):
    ck.libs = tbb_link()
    exe = cxx_build(PID, "consts", [H + "consts.cpp"], flags=["-O1", "-fno-access-control", "-pthread"], libs=ck.libs)
    rc, out, err = sh([exe], timeout=60)
    c = json.loads(out)
    src = re.sub(r"//[^\n]*", "", open(SORT_H).read())
    pats = {
        "minParallelSize": r"constexpr\s+int\s+min_parallel_size\s*=\s*(\d+)\s*;",
        "serialCutoff": r"constexpr\s+int\s+serial_cutoff\s*=\s*(\d+)\s*;",
        "pretestPoll": r"i\s*%\s*(\d+)\s*==\s*0\s*&&\s*context\.is_group_execution_cancelled\(\)",
        "medianDivisor": r"offset\s*=\s*range\.size\s*/\s*(\d+)u?\s*;",
    }
    bad = []
    for k, p in pats.items():
        m = re.search(p, src)
        if m:
            c[k] = int(m.group(1))
        else:
            bad.append(k)
    defaults = {"sortGrainsize": 500, "minParallelSize": 500, "serialCutoff": 9, "pretestPoll": 64,
                "pretestBegin": 10, "medianDivisor": 8, "probeStart": 0, "probeEnd": 9, "probeArg1": 1, "probeArg2": 0,
                "pretestArg1": 1, "pretestArg2": 0}
    # --- the serial probe of parallel_quick_sort: loop start, loop bound, argument order of its comp(…) call
    ws = strip_src(SORT_H)
    ARG = r"\*(?:k|\(k(?:[+-]\d+)?\))"
    m = re.search(r"RandomAccessIteratork=begin(?:\+(\d+))?;for\(;k!=begin((?:[+-](?:\d+|serial_cutoff))*);\+\+k\)\{?if\(comp\((%s),(%s)\)\)\{?do_parallel_quick_sort" % (ARG, ARG), ws)
    probe_ok = False
    if m:
        bound = m.group(2).replace("serial_cutoff", str(c.get("serialCutoff", 9)))
        o1, o2 = deref_offset(m.group(3)), deref_offset(m.group(4))
        try:
            end = eval(bound or "0", {"__builtins__": {}})
        except Exception:
            end = None
        if end is not None and end >= 0 and o1 is not None and o2 is not None and o1 >= 0 and o2 >= 0:
            c.update(probeStart=int(m.group(1) or 0), probeEnd=int(end), probeArg1=o1, probeArg2=o2)
            probe_ok = True
    # first index of the parallel pretest: `blocked_range<…>(k + N, end)` (k = the probe loop's final value) or `begin + EXPR`
    m = re.search(r"parallel_for\(blocked_range<RandomAccessIterator>\((k|begin)((?:[+-](?:\d+|serial_cutoff))*),end\),quick_sort_pretest_body", ws)
    pb_ok = False
    if m and probe_ok:
        try:
            off = eval(m.group(2).replace("serial_cutoff", str(c.get("serialCutoff", 9))) or "0", {"__builtins__": {}})
            pb = off + (c["probeEnd"] if m.group(1) == "k" else 0)
            if pb >= 0:
                c["pretestBegin"] = int(pb)
                pb_ok = True
        except Exception:
            pass
    ck.oblige("gen:pretest-range-recognised", "generated", pb_ok,
              "" if pb_ok else "`parallel_for(blocked_range<RandomAccessIterator>(k + 1, end), quick_sort_pretest_body…` not found in parallel_quick_sort")
    ck.oblige("gen:serial-probe-loop-recognised", "generated", probe_ok,
              "" if probe_ok else "`RandomAccessIterator k = begin; for(; k != begin + serial_cutoff; ++k) if (comp(*(k±a), *(k±b))) do_parallel_quick_sort…` "
              "not found in parallel_quick_sort")
    m = re.search(r"if\(comp\((%s),(%s)\)\)\{?context\.cancel_group_execution\(\)" % (ARG, ARG), ws)
    pre_ok = False
    if m:
        o1, o2 = deref_offset(m.group(1)), deref_offset(m.group(2))
        if o1 is not None and o2 is not None and o1 >= -1 and o2 >= -1:
            c.update(pretestArg1=o1 + 1, pretestArg2=o2 + 1)
            pre_ok = True
    ck.oblige("gen:pretest-test-recognised", "generated", pre_ok,
              "" if pre_ok else "`if (comp(*(k±a), *(k±b))) context.cancel_group_execution()` not found in quick_sort_pretest_body")
    ck.oblige("gen:sort-constants-recognised", "generated", not bad,
              "not found in parallel_sort.h: %s" % bad if bad else {k: c.get(k) for k in defaults})
    order = ["sortGrainsize", "minParallelSize", "serialCutoff", "pretestPoll", "pretestBegin", "medianDivisor",
             "probeStart", "probeEnd", "probeArg1", "probeArg2", "pretestArg1", "pretestArg2"]
    body = "set_option linter.unusedVariables false\n"
    body += "".join("def %s : Nat := %d\n" % (k, c.get(k, defaults[k])) for k in order)
    # --- start_scan::execute's treat_as_stolen, translated from the source text (value + does its short-circuit evaluation
    #     read m_parent->m_result.m_left_sum)
    scan_default = ("and", ("atom", "isRight", ""), ("or", ("atom", "stolen", ""), ("atom", "bodyNeLeftSum", "")))
    sws = strip_src(SCAN_H)
    guard, why = None, "`bool treat_as_stolen = …;` not found in start_scan::execute"
    m = re.search(r"booltreat_as_stolen=(.*?);", sws)
    if m:
        try:
            guard = parse_guard(m.group(1), [
                (r"&m_body\.get\(\)!=m_parent->m_result\.m_left_sum", "bodyNeLeftSum"),
                (r"m_parent->m_result\.m_left_sum!=&m_body\.get\(\)", "bodyNeLeftSum"),
                (r"m_is_right_child", "isRight"),
                (r"is_stolen\(ed\)", "stolen")])
        except GuardSyntax as e:
            why = "treat_as_stolen = %s: %s" % (m.group(1)[:120], e)
    ck.oblige("gen:scan-guard-recognised (treat_as_stolen over is_right_child / is_stolen(ed) / &m_body != m_left_sum)", "generated",
              guard is not None, "" if guard is not None else why)
    g = guard or scan_default
    body += "def scanTreatAsStolen (isRight stolen bodyNeLeftSum : Bool) : Bool := %s\n" % lean_val(g)
    body += "def scanGuardReadsLeftSum (isRight stolen bodyNeLeftSum : Bool) : Bool := %s\n" % lean_reads(g, "bodyNeLeftSum")
    c["scanTreatAsStolen"] = lean_val(g)
    body += gen_scan_skeleton(ck, sws, c)
    # --- start_reduce::execute's lazy body split
    red_default = ("and", ("atom", "isRight", ""), ("atom", "(parentRef == 2)", ""))
    rws = strip_src(REDUCE_H)
    rguard, why = None, "`if (is_right_child && my_parent->m_ref_count.load(acquire) == 2) { tree_node_type* parent_ptr …` not found in start_reduce::execute"
    m = re.search(r"if\(((?:(?!if\().)*?)\)\{tree_node_type\*parent_ptr=static_cast<tree_node_type\*>\(my_parent\);my_body=", rws)
    if m:
        try:
            rguard = parse_guard(m.group(1), [
                (r"my_parent->m_ref_count\.load\((?:std::memory_order_\w+)?\)==(\d+)", lambda mm: "(parentRef == %s)" % mm.group(1)),
                (r"(\d+)==my_parent->m_ref_count\.load\((?:std::memory_order_\w+)?\)", lambda mm: "(parentRef == %s)" % mm.group(1)),
                (r"is_right_child", "isRight"),
                (r"is_stolen\(ed\)", "stolen")])
        except GuardSyntax as e:
            why = "lazy split guard %s: %s" % (m.group(1)[:120], e)
    ck.oblige("gen:reduce-split-guard-recognised (over is_right_child / parent's m_ref_count == N / is_stolen(ed))", "generated",
              rguard is not None, "" if rguard is not None else why)
    body += "def reduceSplitsBody (isRight : Bool) (parentRef : Nat) (stolen : Bool) : Bool := %s\n" % lean_val(rguard or red_default)
    c["reduceSplitsBody"] = lean_val(rguard or red_default)
    ck.extra["generated_constants"] = c
    gen_write(PID, body)
    return c


# ---------------------------------------------------------------------------------------------
# E-PURE: quick_sort_range / pretest body vs model
# ---------------------------------------------------------------------------------------------
def cmp_fn(c):
    if c == "lt":
        return lambda x, y: x < y
    if c == "gt":
        return lambda x, y: x > y
    if c.startswith("div"):
        d = int(c[3:])
        return lambda x, y: x // d < y // d
    if c.startswith("gap"):
        k = int(c[3:])
        return lambda x, y: x + k < y
    m = int(c[3:])
    return lambda x, y: x % m < y % m


def sorted_for(c, n, base=0):
    """an array already sorted w.r.t. comparator c with distinct values"""
    if c == "gt":
        return list(range(base + n - 1, base - 1, -1))
    if c.startswith("mod"):
        m = int(c[3:])
        xs = list(range(base, base + n))
        return sorted(xs, key=lambda x: (x % m, x))
    return list(range(base, base + n))


CMP_NAME = {"lt": "less", "gt": "greater", "div3": "key/3", "div100": "key/100", "mod7": "key%7"}


def key_for(c, r, j=0):
    """a key of rank r (0..6) w.r.t. comparator c; j varies the key among equivalent ones (key projections)"""
    if c == "lt":
        return 10 + r
    if c == "gt":
        return 100 - r
    if c.startswith("div"):
        d = int(c[3:])
        return d * (r + 1) + j % d
    m = int(c[3:])
    return m * (j % 5) + r


def prefix_families(ck, c, sizes=(499, 500, 501, 777, 2048), nrandom=6):
    """inputs whose only descents lie inside (or just outside) the first ten elements — the part that the 9-comparison
    serial probe of parallel_quick_sort is responsible for — while everything from pair (9,10) on is non-decreasing:
      prefix-descent    all keys equal except ONE smaller key at position pos            (pos 0..11)
      prefix-step-down  1,…,1,0,0,…  with the step at position pos                        (pos 1..11)
      prefix-step-tail  3,…,3,0,…,0 then a non-decreasing tail 0…6                        (pos 1..11)
      prefix-random     ten random non-increasing keys with a strict descent, then non-decreasing (pos = first descent)
    returns [(family, pos, ranks)] per size; keys are made with key_for(c, rank)"""
    rng = ck.rng
    res = []
    for n in sizes:
        for pos in range(0, 12):
            r = [1] * n
            r[pos] = 0
            res.append(("prefix-descent", pos, r))
        for pos in range(1, 12):
            res.append(("prefix-step-down", pos, [1] * pos + [0] * (n - pos)))
        for pos in range(1, 12):
            head = [3] * pos + [0] * (max(10, pos) - pos)
            m = n - len(head)
            res.append(("prefix-step-tail", pos, head + [min(6, (i * 7) // m) for i in range(m)]))
        for _ in range(nrandom):
            head = sorted((rng.randrange(0, 7) for _ in range(10)), reverse=True)
            if head[0] == head[-1]:
                head[0] = min(6, head[0] + 1)
                head[-1] = max(0, head[0] - 1)
            pos = next(i for i in range(1, 10) if head[i] < head[i - 1])
            tail = sorted(rng.randrange(head[-1], 7) for _ in range(n - 10))
            res.append(("prefix-random", pos, head + tail))
    out = []
    for fam, pos, ranks in res:
        out.append((fam, pos, [key_for(c, r, (7 * i + 3) % 11) for i, r in enumerate(ranks)]))
    return out


def split_arrays(ck):
    rng = ck.rng
    quick = ck.tier == "quick"
    arrs = []          # (class, cmp, array)
    for c in CMPS:
        small = list(range(1, 20)) + [31, 32, 33, 63, 64, 65]
        for n in small:
            arrs.append(("sorted", c, sorted_for(c, n)))
            arrs.append(("reverse", c, sorted_for(c, n)[::-1]))
            arrs.append(("equal", c, [7] * n))
        for n in ([8, 9, 16, 17, 40] if quick else list(range(2, 41))):
            s = sorted_for(c, n)
            for p in range(n - 1):
                a = list(s)
                a[p], a[p + 1] = a[p + 1], a[p]
                arrs.append(("one-inversion", c, a))
        sizes = [490, 499, 500, 501, 512, 520] if quick else list(range(490, 521))
        for n in sizes:
            arrs.append(("sorted", c, sorted_for(c, n)))
            arrs.append(("reverse", c, sorted_for(c, n)[::-1]))
            arrs.append(("few-keys", c, [rng.randrange(0, 4) for _ in range(n)]))
            arrs.append(("random", c, [rng.randrange(0, 10 * n) for _ in range(n)]))
            s = sorted_for(c, n)
            ps = [0, 1, 8, 9, 10, n // 8, n // 2, n - 3, n - 2] + [rng.randrange(0, n - 1) for _ in range(4 if quick else 40)]
            for p in sorted(set(ps)):
                a = list(s)
                a[p], a[p + 1] = a[p + 1], a[p]
                arrs.append(("one-inversion", c, a))
        for n in ([1000, 2048, 4097] if quick else [1000, 2048, 4097, 10000, 30011]):
            arrs.append(("random", c, [rng.randrange(0, 1 << 40) for _ in range(n)]))
            arrs.append(("few-keys", c, [rng.randrange(0, 7) for _ in range(n)]))
            arrs.append(("sorted", c, sorted_for(c, n)))
            arrs.append(("organ-pipe", c, list(range(n // 2)) + list(range(n - n // 2, 0, -1))))
        for _ in range(60 if quick else 1500):
            n = rng.choice([1, 2, 3, 5, 8, 9, 15, 16, 17, 24, 50, 100, 200])
            k = rng.choice([2, 3, n, 10 * n + 1])
            arrs.append(("random-small", c, [rng.randrange(0, k) for _ in range(n)]))
    if quick:
        # every position of one inversion at the cutoff size, one comparator
        s = sorted_for("lt", 500)
        for p in range(0, 499):
            a = list(s)
            a[p], a[p + 1] = a[p + 1], a[p]
            arrs.append(("one-inversion", "lt", a))
    else:
        for c in CMPS:
            for n in (500, 513):
                s = sorted_for(c, n)
                for p in range(0, n - 1):
                    a = list(s)
                    a[p], a[p + 1] = a[p + 1], a[p]
                    arrs.append(("one-inversion", c, a))
    return arrs


def check_split_post(c, a, outline):
    """implementation-side monitor of the split postcondition; returns None or a description"""
    w = outline.split()
    if "BAD-BEGIN" in w:
        return "the old range no longer begins at the start of the array"
    try:
        j, rs, off = int(w[0]), int(w[1]), int(w[2])
        b = [int(x) for x in w[3:]]
    except (ValueError, IndexError):
        return "unparsable output %r" % outline[:80]
    n = len(a)
    lt = cmp_fn(c)
    if len(b) != n or sorted(b) != sorted(a):
        return "result is not a permutation of the input"
    if not (0 <= j < n):
        return "pivot position %d outside the array" % j
    if off != j + 1:
        return "pivot not excluded from both parts: left part is [0,%d), right part begins at %d" % (j, off)
    if off + rs != n:
        return "sizes do not add up: left %d + pivot + right %d != %d" % (j, rs, n)
    if not (j < n and rs < n):
        return "a part is not smaller than the input"
    piv = b[j]
    for k in range(j):
        if lt(piv, b[k]):
            return "left element at %d is greater than the pivot" % k
    for k in range(j + 1, n):
        if lt(b[k], piv):
            return "right element at %d is less than the pivot" % k
    return None


def run_pure(ck):
    quick = ck.tier == "quick"
    rng = ck.rng
    arrs = split_arrays(ck)
    lines, meta = [], []
    for cls, c, a in arrs:
        lines.append("split %s %d %s" % (c, len(a), " ".join(map(str, a))))
        meta.append(("split", cls, c, a))
    for _ in range(300 if quick else 5000):
        c = rng.choice(CMPS)
        n = rng.choice([1, 2, 3, 8, 9, 30, 100])
        a = [rng.randrange(0, rng.choice([3, 50])) for _ in range(n)]
        l, m, r = (rng.randrange(0, n) for _ in range(3))
        lines.append("med3 %s %d %d %d %d %s" % (c, l, m, r, n, " ".join(map(str, a))))
        meta.append(("med3", "random", c, a))
        lines.append("pmed9 %s %d %s" % (c, n, " ".join(map(str, a))))
        meta.append(("pmed9", "random", c, a))
    for n in list(range(0, 40)) + list(range(480, 530)) + [999, 1000, 1 << 20, (1 << 63) + 5]:
        lines.append("div %d" % n)
        meta.append(("div", "size", "-", [n]))
    # pretest body on single chunks: sorted, one inversion at each position of the chunk, polling boundaries
    for c in (["lt", "div3"] if quick else CMPS):
        for n in ([12, 80, 200] if quick else [12, 70, 80, 130, 200, 600]):
            s = sorted_for(c, n)
            chunks = [(10, n), (1, n), (n // 2, n), (10, 10), (11, 12)] + [(rng.randrange(1, n), n) for _ in range(3)]
            for lo, hi in chunks:
                lines.append("pretest %s %d %d %d %s" % (c, lo, hi, n, " ".join(map(str, s))))
                meta.append(("pretest", "sorted", c, s))
            for p in (range(0, n - 1) if n <= 80 or not quick else sorted({rng.randrange(0, n - 1) for _ in range(40)} | {8, 9, 10, 63, 64, 65, 127, 128, 129})):
                a = list(s)
                a[p], a[p + 1] = a[p + 1], a[p]
                lo = rng.choice([10, 1, max(1, p - 70), max(1, p)])
                lines.append("pretest %s %d %d %d %s" % (c, lo, n, n, " ".join(map(str, a))))
                meta.append(("pretest", "one-inversion", c, a))
    # the whole parallel_quick_sort on one thread (serial probe + pretest + sort): first comparisons and the
    # "already sorted, return as is" decision vs the model; output must be a sorted permutation
    for c in (["lt", "gt", "div3"] if quick else CMPS):
        for fam, pos, a in prefix_families(ck, c, sizes=(500, 501, 777, 2048) if quick else (500, 501, 502, 512, 777, 2048, 4097), nrandom=4 if quick else 30):
            lines.append("pqs %s %d %s" % (c, len(a), " ".join(map(str, a))))
            meta.append(("pqs", "%s:pos=%d" % (fam, pos), c, a))
        for n in (500, 777):
            sa = sorted_for(c, n)
            lines.append("pqs %s %d %s" % (c, n, " ".join(map(str, sa))))
            meta.append(("pqs", "sorted", c, sa))
            for p in list(range(0, 13)) + [n // 2, n - 2]:
                a = list(sa)
                a[p], a[p + 1] = a[p + 1], a[p]
                lines.append("pqs %s %d %s" % (c, n, " ".join(map(str, a))))
                meta.append(("pqs", "one-inversion:pos=%d" % p, c, a))
    impl, crashes = run_lines(ck.exe_pure, lines, timeout=1800)
    model = drv("c06", "\n".join(lines) + "\n", timeout=1800)
    pqs_bad = []
    for i, (op, cls, c, a) in enumerate(meta):
        if op != "pqs" or impl[i] is None:
            continue
        di, dm = parse_kv(impl[i]), parse_kv(model[i])
        if di.get("sorted") != "1" or di.get("perm") != "1":
            pqs_bad.append((i, "parallel_quick_sort returns %s (first unsorted index %s; skipped without sorting: %s)" % (
                "an unsorted array" if di.get("sorted") != "1" else "something that is not a permutation of the input", di.get("first"), di.get("skipped"))))
        # compare with the model: same decision, and the implementation's comparison sequence starts with the model's
        ti, tm = di.get("trace", ""), dm.get("trace", "")
        impl[i] = "skipped=%s trace=%s" % (di.get("skipped"), ti[:len(tm)] if ti.startswith(tm) and (len(ti) == len(tm) or ti[len(tm):len(tm) + 1] == ",") else ti)
    kinds = {}
    for (op, cls, c, a) in meta:
        kinds[op + ":" + cls.split(":")[0]] = kinds.get(op + ":" + cls.split(":")[0], 0) + 1
    ck.extra["pure_input_distribution"] = kinds
    mism, post = [], []
    for i, (ln, im, mo) in enumerate(zip(lines, impl, model)):
        op, cls, c, a = meta[i]
        ck.count(1, (op, cls, c, len(a) if op != "div" else a[0] >= 500, (im or "")[:12]))
        if im != mo:
            mism.append(i)
        if op == "split" and im is not None and im != "none":
            bad = check_split_post(c, a, im)
            if bad:
                post.append((i, bad))
    i0 = len(lines) // 3
    ck.sample({"engine": "E-PURE", "input": lines[i0][:200], "impl": (impl[i0] or "")[:200], "model": model[i0][:200]})
    ck.oblige("corr:quick_sort_range (split_range result array, pivot position, sizes; median_of_three; "
              "pseudo_median_of_nine; is_divisible), pretest body and parallel_quick_sort's probe/pretest comparison sequence "
              "+ return-unsorted decision == model", "correspondence", not mism and not crashes,
              "" if not mism and not crashes else "first mismatch %s: impl %r model %r; crashes %s" % (
                  lines[mism[0]][:160] if mism else None, (impl[mism[0]] or "")[:120] if mism else None,
                  model[mism[0]][:120] if mism else None, crashes[:2]))
    ck.oblige("monitor:split_range postcondition on the implementation (permutation, left <= pivot <= right, pivot "
              "excluded, sizes add up, both parts smaller)", "correspondence", not post,
              "" if not post else "%s on %s" % (post[0][1], lines[post[0][0]][:160]))
    ck.oblige("monitor:parallel_quick_sort (probe + pretest + sort, one thread) leaves a sorted permutation on inputs whose descents "
              "are confined to the first ten elements (every position 0..11, sizes 500..2048, 3+ comparators)", "correspondence",
              not pqs_bad, "" if not pqs_bad else "%s: %s" % (lines[pqs_bad[0][0]][:100], pqs_bad[0][1]))
    ck.pqs_failures = [(lines[i], why, meta[i]) for i, why in pqs_bad]
    ck.pure_failures = {"mism": [(lines[i], impl[i], model[i], meta[i]) for i in mism[:50]],
                        "post": [(lines[i], why, meta[i]) for i, why in post[:50]],
                        "crashes": [(lines[i], rc) for i, rc, _ in crashes[:10]]}



# ---------------------------------------------------------------------------------------------
# E-PURE: the coded partition loop on adversarial inputs, with its comparison trace, under AddressSanitizer
# ---------------------------------------------------------------------------------------------
ADV_CMPS = ["lt", "gt", "div3", "div1000", "mod7", "mod2", "gap1", "gap5"]      # gapK: strict partial order, NOT a strict weak ordering


def adversarial_arrays(ck):
    rng = ck.rng
    quick = ck.tier == "quick"
    g = ck.consts.get("sortGrainsize", 500)
    sizes = list(range(1, 41)) + [63, 64, 65, g - 1, g, g + 1, 2 * g - 1, 2 * g, 2 * g + 1, 3 * g - 1, 3 * g]
    if not quick:
        sizes += list(range(41, 130)) + [rng.randrange(130, 3 * g) for _ in range(60)]
    out = []
    for c in ADV_CMPS:
        for n in sizes:
            fams = [("all-equal", [5] * n),
                    ("organ-pipe", list(range(n // 2)) + list(range(n - n // 2, 0, -1))),
                    ("sorted", list(range(n))), ("reverse", list(range(n, 0, -1))),
                    ("pivot-dups", [(50 if (i * 7 + 3) % 4 else rng.randrange(0, 100)) for i in range(n)]),
                    ("two-values", [rng.randrange(0, 2) for _ in range(n)]),
                    ("saw", [i % 9 for i in range(n)]),
                    ("random", [rng.randrange(0, 3 * n + 1) for _ in range(n)])]
            if quick and n > 65:
                fams = fams[:5] + fams[7:]
            for fam, a in fams:
                out.append((fam, c, a))
    return out


def split_trace_fields(line):
    """'… trace=a:b,c:d' -> (head, [pairs])"""
    head, _, tr = (line or "").partition(" trace=")
    return head, [t for t in tr.split(",") if t]


def run_partition(ck):
    arrs = adversarial_arrays(ck)
    lines = ["splitt %s %d %s" % (c, len(a), " ".join(map(str, a))) for (_, c, a) in arrs]
    impl, crashes = run_lines(ck.exe_pure_asan, lines, timeout=1800, env={"ASAN_OPTIONS": "detect_leaks=0:halt_on_error=1"})
    model = drv("c06", "\n".join(lines) + "\n", timeout=1800)
    mism, post, notsame = [], [], []
    for i, ((fam, c, a), im, mo) in enumerate(zip(arrs, impl, model)):
        ck.count(1, ("splitt", fam, c, min(len(a), 70), (im or "")[:8]))
        if im is None or im == SKIPPED:
            continue
        ih, it = split_trace_fields(im)
        mh, mt = split_trace_fields(mo)
        mf = dict(kv.split("=") for kv in mh.split() if "=" in kv)
        mh = " ".join(w for w in mh.split() if "=" not in w)
        k = int(mf.get("k", "0"))
        if mf.get("same") != "1":
            notsame.append(i)
        # the three inner medians are function arguments (evaluation order unspecified): compared as a multiset; the rest in order
        if ih != mh or sorted(it[:k]) != sorted(mt[:k]) or it[k:] != mt[k:]:
            mism.append((i, "result" if ih != mh else "comparison trace"))
        bad = check_split_post(c, a, ih) if not c.startswith("gap") else check_split_post_weak(c, a, ih)
        if bad:
            post.append((i, bad))
        else:
            ck.traces_validated += 1
    ck.extra["partition_adversarial_inputs"] = len(lines)
    ck.oblige("corr:the coded partition loop (pivot choice, swap to front, both inner scans, final swap, sizes) on adversarial inputs — all-equal, "
              "organ-pipe, many duplicates of the pivot, sorted / reverse, two values, sizes 1..3*grainsize, comparators with large equivalence "
              "classes and strict PARTIAL orders — result AND comparison sequence == model (splitRangeT, checked == splitRange)", "correspondence",
              not mism and not notsame, "" if not (mism or notsame) else "%s: %s differs: impl %r model %r" % (
                  lines[(mism or [(notsame[0], "")])[0][0]][:120], (mism or [(0, "traced model != splitRange")])[0][1],
                  (impl[(mism or [(notsame[0], "")])[0][0]] or "")[:100], model[(mism or [(notsame[0], "")])[0][0]][:100]))
    ck.oblige("monitor:split_range never touches memory outside [begin,end) (AddressSanitizer, exact-size blocks) and partitions around the pivot, "
              "for strict weak orderings and for strict partial orders alike", "correspondence", not crashes and not post,
              "" if not (crashes or post) else ("%s: %s" % (lines[crashes[0][0]][:120], crashes[0][2]) if crashes else "%s: %s" % (lines[post[0][0]][:120], post[0][1])))
    if crashes:
        i = min((cr[0] for cr in crashes), key=lambda k: len(lines[k]))
        fam, c, a = arrs[i]
        ck.counterexample("split:memory:%s:%s:n=%d" % (c, fam, len(a)), "quick_sort_range split constructor on %d keys (%s, comparator %s) reads or writes "
                          "outside the array" % (len(a), fam, c),
                          {"engine": "E-PURE", "harness": H + "pure.cpp", "exe": "pure_asan", "stdin": lines[i], "monitor": "no-crash"})
    elif post:
        i, why = min(post, key=lambda t: len(lines[t[0]]))
        fam, c, a = arrs[i]
        ck.counterexample("split:%s:%s:n=%d" % (c, fam, len(a)), "quick_sort_range split constructor (%s input): %s" % (fam, why),
                          {"engine": "E-PURE", "harness": H + "pure.cpp", "stdin": lines[i].replace("splitt", "split", 1), "monitor": "split-post"})


def check_split_post_weak(c, a, outline):
    """postcondition for comparators that are only asymmetric (strict partial orders): permutation, pivot inside, sizes, and
    nothing left of the pivot is preceded by it, nothing right of it precedes it"""
    return check_split_post(c, a, outline)

# ---------------------------------------------------------------------------------------------
# E-REAL: parallel_reduce
# ---------------------------------------------------------------------------------------------
def canon_reduce(evs):
    """renumber bodies in stamp order of their split events (the model allocates ids in that order)"""
    ids = {0: 0}
    for e in evs:
        if e[0] == "S":
            ids[e[1]] = len(ids)
    out = []
    for e in evs:
        k = e[0]
        if k == "S":
            out.append(("S", ids[e[1]], ids.get(e[2], -1), e[3]))
        elif k == "R":
            out.append(("R", ids.get(e[1], -1), e[2], e[3], e[4]))
        elif k == "J":
            out.append(("J", ids.get(e[1], -1), ids.get(e[2], -1), e[3]))
        elif k == "X":
            out.append(e)
    return out


def bim_monitor(evs, n):
    """Implementation-side monitor on the body events of one parallel_reduce (independent of the model):
    each body absorbs a contiguous ascending interval; join(b, z) only with z split from b, z finished
    (no unjoined body split from z, z never used afterwards), operands adjacent and in order; at the end
    every split body was joined and the user's body holds [0, n).  Returns None or (kind, text)."""
    B = {0: {"lo": None, "hi": None, "src": None, "alive": True, "open": set()}}
    for i, e in enumerate(evs):
        k = e[0]
        if k == "S":
            z, b = e[1], e[2]
            if b not in B or not B[b]["alive"]:
                return ("partner", "event %d: body %d split from unknown/joined body %d" % (i, z, b))
            B[z] = {"lo": None, "hi": None, "src": b, "alive": True, "open": set()}
            B[b]["open"].add(z)
        elif k == "R":
            b, lo, hi = e[1], e[2], e[3]
            if b not in B or not B[b]["alive"]:
                return ("partner", "event %d: body %d is used after it was joined away" % (i, b))
            if B[b]["lo"] is None:
                B[b]["lo"], B[b]["hi"] = lo, hi
            elif B[b]["hi"] != lo:
                return ("order", "event %d: body %d holds [%d,%d) and is applied to [%d,%d): operands reordered or dropped" % (
                    i, b, B[b]["lo"], B[b]["hi"], lo, hi))
            else:
                B[b]["hi"] = hi
        elif k == "J":
            b, z = e[1], e[2]
            if z not in B or b not in B:
                return ("partner", "event %d: join of unknown bodies %d %d" % (i, b, z))
            if B[z]["src"] != b:
                return ("partner", "event %d: body %d (split from %s) is joined into body %d: not the body it was split from" % (i, z, B[z]["src"], b))
            if not B[z]["alive"] or not B[b]["alive"]:
                return ("partner", "event %d: join(%d,%d) with a body that was already joined away" % (i, b, z))
            if B[z]["open"]:
                return ("partner", "event %d: body %d joined while bodies %s split from it are still unjoined (not finished)" % (i, z, sorted(B[z]["open"])))
            if B[z]["lo"] is not None:
                if B[b]["lo"] is None:
                    return ("order", "event %d: join(%d,%d): left operand is empty but lies left of [%d,%d)" % (i, b, z, B[z]["lo"], B[z]["hi"]))
                if B[b]["hi"] != B[z]["lo"]:
                    return ("order", "event %d: join(%d,%d): left holds [%d,%d), right holds [%d,%d): operands not adjacent in order" % (
                        i, b, z, B[b]["lo"], B[b]["hi"], B[z]["lo"], B[z]["hi"]))
                B[b]["hi"] = B[z]["hi"]
            B[z]["alive"] = False
            B[b]["open"].discard(z)
    left = [z for z, d in B.items() if z != 0 and d["alive"]]
    if left:
        return ("lost", "bodies %s were split off and never joined back (their elements are lost)" % left[:5])
    if n > 0 and (B[0]["lo"], B[0]["hi"]) != (0, n):
        return ("order", "user's body ends with [%s,%s), expected [0,%d)" % (B[0]["lo"], B[0]["hi"], n))
    return None


def reduce_scenarios(ck):
    rng = ck.rng
    quick = ck.tier == "quick"
    sc = []
    sizes = [1, 2, 3, 5, 8, 16, 33, 64, 100, 257, 1000]
    grains = [1, 2, 3, 7, 16, 100]
    # exact single-thread correspondence (LRange + simple): all small sizes x grains
    for n in ([0, 1, 2, 3, 5, 8, 16, 33, 100] if quick else list(range(0, 41)) + [100, 257, 1000]):
        for g in ([1, 2, 3, 16] if quick else [1, 2, 3, 5, 7, 16, 100]):
            sc.append(("L", "simple", n, g, 1, 0, 0))
    # replay correspondence under real steals
    for _ in range(2000 if quick else 40000):
        n = rng.choice(sizes + [rng.randrange(2, 400)])
        g = rng.choice(grains)
        if n // g > 600:
            g = max(g, n // 300)
        sc.append(("L", "simple", n, g, rng.choice([2, 3, 4, 8, 16]), rng.randrange(1 << 30), rng.choice([0, 20, 60, 200])))
    # all partitioners / both range kinds: monitors
    for _ in range(3000 if quick else 60000):
        n = rng.choice(sizes + [rng.randrange(2, 3000), 5000])
        g = rng.choice(grains)
        part = rng.choice(["auto", "static", "affinity", "simple"])
        if part == "simple" and n // g > 600:
            g = max(g, n // 300)
        sc.append((rng.choice(["L", "B"]), part, n, g, rng.choice([1, 2, 3, 4, 5, 8, 12, 16]), rng.randrange(1 << 30), rng.choice([0, 20, 60, 200])))
    sc = [x + (0,) for x in sc]
    # re-entrant bodies (see real.cpp): with one thread every right child is popped by its owner inside a left leaf's body
    for n in ([2, 3, 4, 5, 8, 13, 16, 33] if quick else list(range(2, 34)) + [64, 100]):
        for g in ([1, 2, 3] if quick else [1, 2, 3, 5]):
            if g >= n:
                continue
            for re_mode in ([1, 2, 3, 4, 7, 8, 13, 14] if quick else range(1, 19)):
                sc.append(("L", "simple", n, g, 1, rng.randrange(1 << 30), 0, re_mode))
            for part in ("auto", "static", "affinity"):
                sc.append(("L", part, n, g, 1, rng.randrange(1 << 30), 0, rng.choice([1, 2, 7, 8])))
    for _ in range(1000 if quick else 10000):
        n = rng.choice([2, 3, 4, 5, 8, 13, 16, 33, 64])
        sc.append(("L", rng.choice(["simple", "simple", "auto", "affinity"]), n, rng.choice([1, 2, 3]), rng.choice([2, 3, 4, 8]), rng.randrange(1 << 30),
                   rng.choice([0, 20, 60]), rng.randrange(1, 19)))
    return sc


def reduce_line(s):
    return "reduce %s %s %d %d %d %d %d" % s[:7] + (" re=%d" % s[7] if s[7] else "")


def reduce_verdict(o, n):
    d = parse_kv(o)
    if o is None or ("log" not in d and n > 0 and "value" not in d):
        return ("crash", "harness crashed / no output")
    want = "e" if n == 0 else "0-%d" % (n - 1)
    if d.get("value") != want:
        return ("result", "value=%s expected %s" % (d.get("value"), want))
    return bim_monitor(canon_reduce(d.get("log", [])), n)


def replay_lines(evs, n):
    """observed (canonical) events of an LRange+simple_partitioner run -> commands for drv c06rd"""
    cmds = ["init 0 %d" % n]
    for i, e in enumerate(evs):
        k = e[0]
        if k == "X":
            cmds.append("X %d %d %d" % (e[1], e[2], e[3]))
        elif k == "S":
            lo = None
            for f in evs[i + 1:]:
                if f[-1] == e[3] and f[0] in ("X", "R"):      # next event of the same thread: the task's range start
                    lo = f[1] if f[0] == "X" else f[2]
                    break
            cmds.append("S %d %d %d" % (e[1], e[2], -1 if lo is None else lo))
        elif k == "R":
            cmds.append("R %d %d %d" % (e[1], e[2], e[3]))
        elif k == "J":
            cmds.append("J %d %d" % (e[1], e[2]))
    cmds.append("end")
    return cmds


def run_reduce(ck):
    scs = reduce_scenarios(ck)
    scs.sort(key=lambda x: 0 if x[7] and x[4] == 1 else 1)      # the deterministic one-thread re-entrant scenarios first
    lines = [reduce_line(s) for s in scs]
    outs, crashes = run_lines(ck.exe_real, lines, timeout=1800)
    not_run(ck, "reduce", outs, crashes, lines)
    bad_val, bad_mon, bad_serial, bad_replay = [], [], [], []
    serial_q, serial_ix = [], []
    replay_txt, replay_ix, replay_len = [], [], []
    nsplit = nsplit_nested = 0
    for i, (s, o) in enumerate(zip(scs, outs)):
        rk, part, n, g, T, seed, delay, re_mode = s
        if o == SKIPPED:
            continue
        d = parse_kv(o)
        if o is None or "log" not in d and n > 0 and "value" not in d:
            bad_val.append((i, "harness crashed / no output"))
            continue
        evs = canon_reduce(d.get("log", []))
        want = "e" if n == 0 else "0-%d" % (n - 1)
        ns = sum(1 for e in evs if e[0] == "S")
        nsplit += ns
        if re_mode and T == 1:
            nsplit_nested += ns
        ck.count(1, (rk, part, min(n, 50), g, T, min(ns, 6), re_mode))
        if d.get("value") != want:
            bad_val.append((i, "value=%s expected %s" % (d.get("value"), want)))
        m = bim_monitor(evs, n)
        if m:
            bad_mon.append((i, m))
        if d.get("overflow") == "1":
            continue
        if rk == "L" and part == "simple":
            if T == 1 and not re_mode:
                serial_q.append("serial %d 0 %d" % (g, n))
                serial_ix.append((i, evs))
            else:
                cmds = replay_lines(evs, n)
                replay_txt += cmds
                replay_ix.append((i, len(cmds)))
        if i % 97 == 0:
            ck.sample({"engine": "E-REAL", "scenario": lines[i], "value": d.get("value"), "splits": ns,
                       "events": len(evs)}, cap=9)
    # single thread: the log must be exactly the model's no-steal run
    if serial_q:
        mo = drv("c06", "\n".join(serial_q) + "\n", timeout=900)
        for (i, evs), line in zip(serial_ix, mo):
            md = parse_kv(line)
            mev = [tuple(e) for e in md.get("log", [])]
            obs = [e[:-1] for e in evs if e[0] != "X"]
            if obs != mev or md.get("gone") != "1":
                k = first_diff(obs, mev)
                bad_serial.append((i, "event %s: observed %s, model %s" % (k, obs[k] if k is not None and k < len(obs) else None,
                                                                         mev[k] if k is not None and k < len(mev) else None)))
            ck.traces_validated += 1
    # real steals: every observed event must be an enabled model transition
    if replay_txt:
        mo = drv("c06rd", "\n".join(replay_txt) + "\n", timeout=1800)
        pos = 0
        for i, ln in replay_ix:
            seg = mo[pos:pos + ln]
            pos += ln
            n = scs[i][2]
            fails = [x for x in seg[:-1] if x != "ok"]
            want = "done gone=1 wait=0 err=0 value=%s" % ("e" if n == 0 else "%d..%d" % (0, n - 1))
            if fails or seg[-1] != want:
                bad_replay.append((i, (fails[0] if fails else "final state: " + seg[-1])))
            ck.traces_validated += 1
    ck.extra["reduce_runs"] = len(scs)
    ck.extra["reduce_reentrant_runs"] = sum(1 for x in scs if x[7])
    ck.extra["reduce_body_splits_observed"] = nsplit
    ck.extra["reduce_body_splits_by_unstolen_right_children_inside_a_left_leaf_body (1 thread)"] = nsplit_nested
    ck.oblige("monitor:parallel_reduce result == sequential fold in order (free monoid: every element once, nothing reordered)",
              "correspondence", not bad_val and not crashes, "" if not bad_val else "%s: %s" % (lines[bad_val[0][0]], bad_val[0][1]))
    ck.oblige("monitor:every join(partner) joins the body it was split from, after both finished, adjacent operands in order",
              "correspondence", not bad_mon, "" if not bad_mon else "%s: %s" % (lines[bad_mon[0][0]], bad_mon[0][1][1]))
    ck.oblige("corr:single-thread parallel_reduce event log == model's no-steal run (no body split, chunks in order)",
              "correspondence", not bad_serial, "" if not bad_serial else "%s: %s" % (lines[bad_serial[0][0]], bad_serial[0][1]))
    ck.oblige("corr:observed split/run/join/offer events under real steals are enabled transitions of the ReduceTree model",
              "correspondence", not bad_replay, "" if not bad_replay else "%s: %s" % (lines[bad_replay[0][0]], bad_replay[0][1]))
    fails = [(i, "result", w) for i, w in bad_val] + [(i, m[0], m[1]) for i, m in bad_mon]
    re_fails = [f for f in fails if scs[f[0]][7]]
    if re_fails:
        i, kind, text = min(re_fails, key=lambda f: (scs[f[0]][4], scs[f[0]][2], scs[f[0]][3], scs[f[0]][7]))
        rk, part, n, g, T, seed, delay, re_mode = scs[i]
        plain = reduce_line(scs[i][:7] + (0,))
        po, _ = run_lines(ck.exe_real, [plain] * 3, timeout=120, max_crashes=1)
        pv = [v for v in (reduce_verdict(o, n) for o in po if o != SKIPPED) if v]
        if pv:
            ck.counterexample("reduce:%s:%s:n=%d:grain=%d:threads=%d" % (pv[0][0], part, n, g, T),
                              "parallel_reduce: %s (scenario `%s`)" % (pv[0][1], plain),
                              {"engine": "E-REAL", "harness": H + "real.cpp", "stdin": plain, "repeat": 5, "monitor": "reduce", "n": n, "observed": pv[0][1]})
            return
        ck.counterexample("reduce:reentrant-body:%s:n=%d:grain=%d:threads=%d:re=%d:%s" % (part, n, g, T, re_mode, kind),
                          "parallel_reduce whose leaf bodies wait on a task_group inside operator() (the nested wait runs the sibling right child on "
                          "the same thread, not stolen, while the left sibling is unfinished): %s (scenario `%s`)" % (text, lines[i]),
                          {"engine": "E-REAL", "harness": H + "real.cpp", "stdin": lines[i], "repeat": 20 if T == 1 else 200, "monitor": "reduce", "n": n,
                           "observed": text})
    elif fails:
        report_real_failure(ck, "reduce", lines, fails)
    elif bad_serial or bad_replay:
        search_reduce(ck)


def shrink_real(ck, line, want_re, tries=25):
    """re-run a failing scenario line; return the number of failing runs out of `tries` and one failing output"""
    outs, _ = run_lines(ck.exe_real, [line] * tries, timeout=600)
    bad = [o for o in outs if o is None or not re.search(want_re, o)]
    return len(bad), (bad[0] if bad else None)


def report_real_failure(ck, what, lines, fails):
    """fails: [(index, kind, text)] — shrink to the smallest scenario line that still fails and report it"""
    ni = 3 if what == "reduce" else 2
    fails = sorted(fails, key=lambda f: (int(lines[f[0]].split()[ni]), len(lines[f[0]])))
    i, kind, text = fails[0]
    line = lines[i]
    w = line.split()
    best = line
    if what in ("reduce", "scan", "det"):
        # try smaller n with the same configuration
        for n2 in sorted({2, 3, 4, 8, 16, 32, 64}):
            if n2 >= int(w[ni]):
                break
            w2 = list(w)
            w2[ni] = str(n2)
            cand = " ".join(w2)
            expect = expect_re(what, n2)
            nb, _ = shrink_real(ck, cand, expect, tries=40)
            if nb:
                best = cand
                break
    n = int(best.split()[3 if what == "reduce" else 2])
    ck.counterexample("%s:%s:%s" % (what, kind, " ".join(best.split()[1:3 if what == "reduce" else 2])),
                      "%s on real threads: %s (scenario `%s`)" % (what, text, line),
                      {"engine": "E-REAL", "harness": H + "real.cpp", "stdin": best, "repeat": 200,
                       "expect_regex": expect_re(what, n), "observed": text})


def expect_re(what, n):
    if what in ("reduce", "scan"):
        return r"^value=%s " % ("e" if n == 0 else "0-%d" % (n - 1))
    return r".*"


def search_reduce(ck):
    """the model correspondence broke but no run violated the property: look harder for a wrong result"""
    rng = ck.rng
    sc = []
    for _ in range(1500):
        n = rng.choice([2, 3, 4, 8, 16, 33, 100, 1000])
        sc.append((rng.choice(["L", "B"]), rng.choice(["simple", "auto", "static", "affinity"]), n, rng.choice([1, 2, 7]),
                   rng.choice([1, 2, 4, 8, 16]), rng.randrange(1 << 30), rng.choice([0, 50, 300]), 0))
    lines = [reduce_line(s) for s in sc]
    outs, _ = run_lines(ck.exe_real, lines, timeout=1800)
    fails = []
    for i, (s, o) in enumerate(zip(sc, outs)):
        d = parse_kv(o)
        n = s[2]
        if d.get("value") != ("e" if n == 0 else "0-%d" % (n - 1)):
            fails.append((i, "result", "value=%s" % d.get("value")))
        else:
            m = bim_monitor(canon_reduce(d.get("log", [])), n)
            if m:
                fails.append((i, m[0], m[1]))
    ck.extra["reduce_search_runs"] = len(sc)
    if fails:
        report_real_failure(ck, "reduce", lines, fails)


# ---------------------------------------------------------------------------------------------
# E-REAL: parallel_deterministic_reduce
# ---------------------------------------------------------------------------------------------
def det_in_order(term, n):
    """the leaves of the observed join tree, left to right, are the range in order, each body used once"""
    leaves = [(int(a), int(b)) for a, b in re.findall(r"\[(\d+),(\d+)\)", term)]
    pos, ok = 0, "(R" not in term
    for a, b in leaves:
        ok = ok and a == pos and a < b
        pos = b
    return ok and pos == n


def run_det(ck):
    rng = ck.rng
    quick = ck.tier == "quick"
    cfgs = []
    for n in ([1, 2, 3, 7, 10, 64, 100, 257, 1000] if quick else list(range(0, 70)) + [100, 257, 1000, 4099, 20000]):
        for g in ([1, 2, 5, 16] if quick else [1, 2, 3, 5, 16, 100]):
            if n // g <= 3000:
                cfgs.append(("simple", n, g))
            cfgs.append(("static", n, g))
    # no bound on the range or the divisor any more: sizes where float(size) is inexact / beyond 2^16, large grains
    for n, g in ([(70001, 997), (1 << 17, 4096), ((1 << 24) + 3, 1 << 19)] if quick else
                 [(70001, 997), (65536, 1), (1 << 17, 4096), (1 << 20, 1 << 12), ((1 << 24) + 3, 1 << 19), ((1 << 26) + 5, 1 << 21)]):
        cfgs.append(("static", n, g))
        if n // g <= 3000:
            cfgs.append(("simple", n, g))
    lines, meta = [], []
    threads = [1, 2, 3, 4, 8, 16] if quick else [1, 2, 3, 4, 5, 6, 7, 8, 12, 16]
    # arena concurrencies above 64 (the divisor of static_partitioner is the arena's max_concurrency)
    for n, g in ([(1000, 1), (70001, 97)] if quick else [(1000, 1), (4099, 3), (70001, 97), (1 << 20, 1 << 10)]):
        for T in ([70] if quick else [65, 70, 100]):
            lines.append("det static %d %d %d %d 0" % (n, g, T, rng.randrange(1 << 30)))
            meta.append(("static", n, g, T))
    for part, n, g in cfgs:
        for T in threads:
            for rep in range(3 if quick else 10):
                lines.append("det %s %d %d %d %d %d" % (part, n, g, T, rng.randrange(1 << 30), rng.choice([0, 30, 100])))
                meta.append((part, n, g, T))
    # re-entrant bodies (LRange, simple_partitioner): same tree as every other run of the same (n, grain)
    nre = 0
    for part, n, g in cfgs:
        if part == "simple" and 2 <= n <= 100 and n // g <= 64:
            for T, re_mode in [(1, 1), (1, 2), (1, 8), (rng.choice([2, 4]), rng.randrange(1, 19))]:
                lines.append("det simple %d %d %d %d %d re=%d" % (n, g, T, rng.randrange(1 << 30), 0, re_mode))
                meta.append((part, n, g, T))
                nre += 1
    ck.extra["det_reentrant_runs"] = nre
    # every public overload (body / functional form x default / simple / static partitioner x with / without a user context) must
    # build the same tree as the overload used above
    nov = 0
    for part, n, g in cfgs:
        if n < 2 or n > 300 or (part == "simple" and n // g > 300):
            continue
        for ov in range(12):
            if (ov % 3 == 2) != (part == "static"):
                continue
            for T in ([1, 4] if quick else [1, 2, 4, 8]):
                lines.append("detov %d %d %d %d %d %d" % (ov, n, g, T, rng.randrange(1 << 30), rng.choice([0, 30])))
                meta.append((part, n, g, T))
                nov += 1
    ck.extra["det_overload_runs"] = nov
    outs, crashes = run_lines(ck.exe_real, lines, timeout=1800)
    # model terms
    q, qi = [], {}
    seen = {}
    bad_same, bad_model = [], []
    not_run(ck, "deterministic reduce", outs, crashes, lines)
    for i, (m, o) in enumerate(zip(meta, outs)):
        part, n, g, T = m
        d = parse_kv(o)
        if o == SKIPPED:
            continue
        if "term" not in d:
            bad_same.append((i, "no output"))
            continue
        term = o.split(" term=", 1)[1]
        div = int(d.get("divisor", "0"))
        key = (part, n, g) if part == "simple" else (part, n, g, div)
        ck.count(1, (part, min(n, 64), g, div))
        if key in seen and seen[key][1] != term:
            bad_same.append((i, "term differs from run `%s`: %s vs %s" % (lines[seen[key][0]], term[:80], seen[key][1][:80])))
        seen.setdefault(key, (i, term))
        mk = (g, 1 if part == "static" else 0, n, div)
        if mk not in qi:
            qi[mk] = len(q)
            q.append("det %d %d 0 %d %d" % mk)
    mo = drv("c06", "\n".join(q) + "\n", timeout=900) if q else []
    for i, (m, o) in enumerate(zip(meta, outs)):
        part, n, g, T = m
        d = parse_kv(o)
        if "term" not in d:
            continue
        term = o.split(" term=", 1)[1]
        div = int(d.get("divisor", "0"))
        want = mo[qi[(g, 1 if part == "static" else 0, n, div)]]
        if term != want:
            bad_model.append((i, "observed %s, model %s" % (term[:100], want[:100])))
        else:
            ck.traces_validated += 1
    ck.extra["det_runs"] = len(lines)
    ck.oblige("monitor:parallel_deterministic_reduce split/join tree identical across runs, seeds and thread counts "
              "(static_partitioner: for equal partition divisor)", "correspondence", not bad_same and not crashes,
              "" if not bad_same else "%s: %s" % (lines[bad_same[0][0]], bad_same[0][1]))
    ck.oblige("corr:observed deterministic split/join tree == model term detTerm(range, grain[, divisor])", "correspondence",
              not bad_model, "" if not bad_model else "%s: %s" % (lines[bad_model[0][0]], bad_model[0][1]))
    # static_partitioner across ARENA CONCURRENCIES: the property text promises identical results "across … thread counts"
    by_ng = {}
    for key, (i, term) in seen.items():
        if key[0] == "static":
            by_ng.setdefault(key[1:3], {})[key[3]] = (i, term)
    differ = sorted((ng, d) for ng, d in by_ng.items() if len({t for (_, t) in d.values()}) > 1)
    FKEY = "det:static-partitioner:arena-concurrency"
    ck.oblige("monitor:parallel_deterministic_reduce(static_partitioner) builds the same split/join tree in arenas of different concurrency "
              "(the property text: bit-identical 'across runs, thread counts and schedules')", "correspondence", not differ,
              "" if not differ else "range [0,%d) grain %d: %d different trees for partition divisors %s (divisor = max_concurrency() of the arena)" % (
                  differ[0][0][0], differ[0][0][1], len({t for (_, t) in differ[0][1].values()}), sorted(differ[0][1])[:6]),
              cex_keys=[FKEY] if differ else None)
    if differ:
        (n0, g0), d = differ[0]
        divs = sorted(d)
        ck.counterexample(FKEY, "parallel_deterministic_reduce(blocked_range(0,%d,%d), body, static_partitioner()) builds different split/join trees "
                          "in task_arenas of concurrency %d and %d (its partition divisor is read from max_concurrency() at entry): %s  vs  %s; a float sum "
                          "therefore differs bit-wise between the two arenas (theorem det_reduce_static_depends_on_concurrency)" % (
                              n0, g0, divs[0], divs[1], d[divs[0]][1][:60], d[divs[1]][1][:60]),
                          {"engine": "E-REAL", "harness": H + "real.cpp", "stdin_pair": [lines[d[divs[0]][0]], lines[d[divs[1]][0]]], "repeat": 5,
                           "expect": "equal term= in all runs"})
    if bad_same:
        i, text = bad_same[0]
        part, n, g, T = meta[i]
        key = (part, n, g)
        other = [j for j, m in enumerate(meta) if m[:3] == key and j != i][:1]
        ck.counterexample("det:tree-varies:%s" % part, "parallel_deterministic_reduce over [0,%d) grain %d gives different split/join "
                          "trees in two runs: %s" % (n, g, text),
                          {"engine": "E-REAL", "harness": H + "real.cpp", "stdin_pair": [lines[i]] + [lines[j] for j in other],
                           "repeat": 50, "expect": "equal term= in all runs"})
    elif bad_model:
        # same tree everywhere but not the model's: does it at least keep the operands in order?
        i, text = bad_model[0]
        term = outs[i].split(" term=", 1)[1]
        if not det_in_order(term, meta[i][1]):
            ck.counterexample("det:order", "deterministic reduce term does not list the range in order: %s" % term[:200],
                              {"engine": "E-REAL", "harness": H + "real.cpp", "stdin": lines[i], "repeat": 5, "monitor": "det-order",
                               "n": meta[i][1]})


# ---------------------------------------------------------------------------------------------
# E-REAL: parallel_scan
# ---------------------------------------------------------------------------------------------
def scan_monitor(evs, n):
    fin = sorted((e[2], e[3], e[4], e[5]) for e in evs if e[0] == "F")
    pos = 0
    for lo, hi, ok, ln in fin:
        if lo != pos:
            if lo < pos:
                return ("twice", "elements [%d,%d) get a second final scan" % (lo, min(pos, hi)))
            return ("missed", "elements [%d,%d) never get a final scan" % (pos, lo))
        if not ok:
            return ("prefix", "final scan of [%d,%d) starts from a wrong prefix (length %d, expected the reduction of [0,%d))" % (lo, hi, ln, lo))
        pos = hi
    if pos != n:
        return ("missed", "elements [%d,%d) never get a final scan" % (pos, n))
    return None


def canon_scan(evs, model_side):
    """name bodies structurally (u = user's body, t = temp_body, z<lo> by the first range they scan)"""
    first = {}
    order = []
    for e in evs:
        if e[0] == "S":
            order.append(e[1])
        if e[0] in ("P", "F"):
            first.setdefault(e[1], e[2])
    name = {0: "u"}
    if order:
        name[order[0]] = "t"
    for b in order[1:]:
        name[b] = "z%d" % first[b] if b in first else "z?"
    out = []
    for e in evs:
        k = e[0]
        if k == "S":
            out.append(("S", name.get(e[2], "?")))
        elif k == "P":
            out.append(("P", name.get(e[1], "?"), e[2], e[3]))
        elif k == "F":
            out.append(("F", name.get(e[1], "?"), e[2], e[3], e[4], e[5]))
        elif k in ("J", "A"):
            out.append((k, name.get(e[1], "?"), name.get(e[2], "?")))
    return sorted(out, key=lambda t: tuple(str(x) for x in t))


def scan_oracle(evs, g, reentrant=False):
    """what the real run read: the right children that were treated as stolen — split into those that started while a
    leaf body was active on the same thread (re-entrant body: popped by their owner inside the body's nested wait,
    `early` in the model) and the others (`stolen`) — and divisible ranges that should_execute_range kept whole"""
    stolen, early, dset, xset = [], [], [], set()
    depth = {}
    first_s = True
    for i, e in enumerate(evs):
        if reentrant and e[0] in ("P", "F"):
            depth[e[-1]] = depth.get(e[-1], 0) + 1
        elif reentrant and e[0] == "E":
            depth[e[-1]] = depth.get(e[-1], 0) - 1
        if e[0] == "S":
            if first_s:
                first_s = False
                continue
            for f in evs[i + 1:]:
                if f[-1] == e[-1]:
                    if f[0] == "D":
                        (early if reentrant and depth.get(e[-1], 0) > 0 else stolen).append((f[1], f[2]))
                    break
        elif e[0] == "D":
            dset.append((e[1], e[2]))
        elif e[0] == "X":
            xset.add((e[1], e[3]))
    execs = [r for r in dset if r[1] - r[0] > g and r not in xset]
    return stolen, execs, early


def steal_discipline(evs):
    """pass 1: a right child [mid,hi) that starts on another thread than the one that spawned it was REALLY stolen; its left
    sibling may be running concurrently, so it must begin by splitting a fresh body (S, then is_divisible D) and must not
    continue on its parent's body.  The first X lo mid hi is the pass-1 split (pass 2 repeats it); the child's first
    action is looked for before that repetition.  Returns None or (kind, text)."""
    seen = set()
    for i, e in enumerate(evs):
        if e[0] != "X":
            continue
        lo, mid, hi, ts = e[1], e[2], e[3], e[-1]
        if (lo, mid, hi) in seen:
            continue
        seen.add((lo, mid, hi))
        for j in range(i + 1, len(evs)):
            f = evs[j]
            if f[0] == "X" and (f[1], f[2], f[3]) == (lo, mid, hi):
                break
            if (f[0] == "D" and (f[1], f[2]) == (mid, hi)) or (f[0] in ("P", "F") and (f[2], f[3]) == (mid, hi)):
                if f[-1] != ts:
                    prev = next((evs[k] for k in range(j - 1, -1, -1) if evs[k][-1] == f[-1]), None)
                    if f[0] != "D" or prev is None or prev[0] != "S":
                        return ("stolen-child-shares-body", "right child [%d,%d) was spawned by thread %d and runs on thread %d (really stolen) "
                                "but does not split a fresh body: it %s-scans on body %s, its parent's" % (
                                    mid, hi, ts, f[-1], "final" if f[0] == "F" else "pre", f[1] if f[0] != "D" else "?"))
                break
    return None


def scan_verdict(o, n):
    """all implementation-side monitors on one scan output line: None or (kind, text)"""
    d = parse_kv(o)
    if o is None or "value" not in d:
        return ("crash", "harness crashed / no output")
    evs = d.get("log", [])
    m = scan_monitor(evs, n)
    if m:
        return m
    want = "e" if n == 0 else "0-%d" % (n - 1)
    if d.get("value") != want:
        return ("total", "returned total %s, expected %s" % (d.get("value"), want))
    return steal_discipline(evs)



def sp_commands(evs, g, n):
    """observed event log of one parallel_scan over LRange [0,n) grain g -> commands for the task-protocol replay (drv c06sp)"""
    ids = {0: 0}
    for e in evs:
        if e[0] == "S":
            ids[e[1]] = len(ids)
    cmds = ["init %d 0 %d" % (g, n)]
    seen_x = {}
    first_s = first_j = True
    for i, e in enumerate(evs):
        k = e[0]
        if k == "S":
            if first_s:
                first_s = False
                continue
            rng_ = None
            for f in evs[i + 1:]:
                if f[-1] == e[-1]:
                    if f[0] == "D":
                        rng_ = (f[1], f[2])
                    break
            if rng_ is None:
                cmds.append("S %d %d 0 0 0" % (ids[e[1]], ids.get(e[2], 99999)))
                continue
            spawner = seen_x.get(rng_)
            cmds.append("S %d %d %d %d %d" % (ids[e[1]], ids.get(e[2], 99999), rng_[0], rng_[1], 0 if spawner == e[-1] else 1))
        elif k == "X":
            if (e[1], e[2], e[3]) in seen_x:
                continue
            seen_x[(e[1], e[2], e[3])] = e[-1]
            seen_x.setdefault((e[2], e[3]), e[-1])        # the thread that spawned the right child [mid,hi)
            cmds.append("X %d %d %d" % (e[1], e[2], e[3]))
        elif k == "P":
            cmds.append("P %d %d %d" % (ids.get(e[1], 99999), e[2], e[3]))
        elif k == "F":
            cmds.append("F %d %d %d %d %d" % (ids.get(e[1], 99999), e[2], e[3], e[4], e[5]))
        elif k == "J":
            if first_j:
                first_j = False
                continue
            cmds.append("J %d %d" % (ids.get(e[1], 99999), ids.get(e[2], 99999)))
        elif k == "A":
            cmds.append("A %d %d" % (ids.get(e[1], 99999), ids.get(e[2], 99999)))
    cmds.append("end")
    return cmds


def scan_line(sc):
    return "scan %s %d %d %d %d %d" % sc[:6] + (" re=%d" % sc[6] if sc[6] else "")


def run_scan(ck):
    rng = ck.rng
    quick = ck.tier == "quick"
    sc = []
    for n in ([0, 1, 2, 3, 4, 7, 8, 16, 33, 100] if quick else list(range(0, 34)) + [64, 100, 257, 1000]):
        for g in ([1, 2, 5] if quick else [1, 2, 3, 5, 16]):
            for part in ("simple", "auto"):
                sc.append((part, n, g, 1, 0, 0, 0))
    for _ in range(3000 if quick else 60000):
        n = rng.choice([2, 3, 4, 5, 8, 13, 16, 33, 64, 100, 257, 1000, rng.randrange(2, 600)])
        g = rng.choice([1, 2, 3, 7, 16, 50])
        if n // g > 500:
            g = max(g, n // 250)
        sc.append((rng.choice(["simple", "auto"]), n, g, rng.choice([2, 3, 4, 8, 16]), rng.randrange(1 << 30), rng.choice([0, 30, 100, 400]), 0))
    # re-entrant bodies: leaf bodies wait on a task_group inside operator(); with ONE thread nothing is ever stolen and every
    # right child is popped by its owner inside a left leaf's body (deterministic); also with real threads
    for n in ([2, 3, 4, 5, 8, 13, 16, 33] if quick else list(range(2, 34)) + [64, 100]):
        for g in ([1, 2, 3] if quick else [1, 2, 3, 5]):
            if g >= n:
                continue
            for re_mode in ([1, 2, 3, 4, 7, 8, 13, 14] if quick else range(1, 19)):
                sc.append(("simple", n, g, 1, rng.randrange(1 << 30), 0, re_mode))
            sc.append(("auto", n, g, 1, rng.randrange(1 << 30), 0, rng.choice([1, 2, 7, 8])))
    for _ in range(1000 if quick else 10000):
        n = rng.choice([2, 3, 4, 5, 8, 13, 16, 33, 64])
        sc.append((rng.choice(["simple", "auto"]), n, rng.choice([1, 2, 3]), rng.choice([2, 3, 4, 8]), rng.randrange(1 << 30),
                   rng.choice([0, 30, 100]), rng.randrange(1, 19)))
    sc.sort(key=lambda x: 0 if x[6] and x[3] == 1 else 1)       # the deterministic one-thread re-entrant scenarios first
    lines = [scan_line(x) for x in sc]
    # forced real steal AFTER the left sibling has completed (the case that only `is_stolen(ed)` decides)
    fs = [(n, g) for n in (4, 6, 8, 16) for g in (1, 2) if g * 2 < n] * (3 if quick else 10)
    flines = ["fsteal %d %d 300" % x for x in fs]
    fouts, fcr = run_lines(ck.exe_real, flines, timeout=600)
    outs, crashes = run_lines(ck.exe_real, lines, timeout=1800)
    crashes = crashes + [(len(lines) + k, rc, e) for k, rc, e in fcr]
    bad_mon, bad_val, bad_corr, bad_steal = [], [], [], []
    q, qi = [], []
    sp_txt, sp_ix = [], []
    nzomb = nearly = 0
    not_run(ck, "scan", outs + fouts, crashes, lines + flines)
    for i, (x, o) in enumerate(zip(sc, outs)):
        part, n, g, T, seed, delay, re_mode = x
        if o == SKIPPED:
            continue
        d = parse_kv(o)
        if o is None or "value" not in d:
            bad_val.append((i, "harness crashed / no output"))
            continue
        evs = d.get("log", [])
        want = "e" if n == 0 else "0-%d" % (n - 1)
        if d.get("value") != want:
            bad_val.append((i, "returned total %s, expected %s" % (d.get("value"), want)))
        m = scan_monitor(evs, n)
        if m:
            bad_mon.append((i, m))
        sd = steal_discipline(evs) if T > 1 else None
        if sd:
            bad_steal.append((i, sd))
        if d.get("overflow") == "1":
            continue
        stolen, execs, early = scan_oracle(evs, g, bool(re_mode))
        nzomb += len(stolen)
        nearly += len(early)
        ck.count(1, ("scan", part, min(n, 40), g, T, min(len(stolen), 5), min(len(execs), 3), min(len(early), 5), re_mode))
        q.append("scan %d 0 %d S %s E %s Y %s" % (g, n, " ".join("%d %d" % r for r in stolen), " ".join("%d %d" % r for r in execs),
                                                 " ".join("%d %d" % r for r in early)))
        qi.append((i, evs))
        cm = sp_commands(evs, g, n)
        sp_txt += cm
        sp_ix.append((lines[i], n, len(cm)))
        if i % 83 == 0 or (re_mode and i % 37 == 0):
            ck.sample({"engine": "E-REAL", "scenario": lines[i], "stolen_right_children": stolen[:6], "kept_whole": execs[:6],
                       "right_children_run_inside_a_left_leaf_body": early[:6],
                       "final_scans": sorted((e[2], e[3]) for e in evs if e[0] == "F")[:8]}, cap=14)
    mo = drv("c06", "\n".join(q) + "\n", timeout=1800) if q else []
    for (i, evs), line in zip(qi, mo):
        md = parse_kv(line)
        mev = []
        for e in md.get("log", []):
            mev.append(e)
        a = canon_scan([tuple(e[:-1]) for e in evs if e[0] not in ("D", "X", "E")], False)
        b = canon_scan([tuple(e) for e in mev], True)
        if a != b or md.get("err") != "0":
            k = first_diff(a, b)
            bad_corr.append((i, "err=%s; first difference: observed %s, model %s" % (
                md.get("err"), a[k] if k is not None and k < len(a) else None, b[k] if k is not None and k < len(b) else None)))
        else:
            ck.traces_validated += 1
    # forced steals
    nforced = 0
    fbad = []
    for i, ((n, g), o) in enumerate(zip(fs, fouts)):
        if o == SKIPPED:
            continue
        d = parse_kv(o)
        v = scan_verdict(o, n)
        nforced += d.get("forced") == "1"
        ck.count(1, ("fsteal", n, g, d.get("forced")))
        if v:
            fbad.append((i, v))
        if d.get("overflow") == "0" and "log" in d:
            cm = sp_commands(d["log"], g, n)
            sp_txt += cm
            sp_ix.append((flines[i], n, len(cm)))
    # every observed log must be a run of the task-protocol model (small-step; the theorems quantify over all its runs)
    bad_sp = []
    if sp_txt:
        mo2 = drv("c06sp", "\n".join(sp_txt) + "\n", timeout=1800)
        pos = 0
        for ln, n, k in sp_ix:
            seg = mo2[pos:pos + k]
            pos += k
            fails = [x for x in seg[:-1] if x != "ok"]
            last = seg[-1] if seg else ""
            good_end = last.startswith("done phase=3 wait=0 err=0 value=%s " % ("e" if n == 0 else "0..%d" % (n - 1)))
            if fails or not good_end:
                bad_sp.append((ln, fails[0] if fails else "final state: " + last))
            else:
                ck.traces_validated += 1
    ck.extra["scan_protocol_replays"] = len(sp_ix)
    ck.oblige("corr:observed parallel_scan event log (body splits, pre/final scans, reverse_joins, assigns, range splits, per thread) is a run "
              "of the task-protocol model SP (every event an enabled step emitting exactly it; unobservable steps placed lazily)",
              "correspondence", not bad_sp, "" if not bad_sp else "%s: %s" % (bad_sp[0][0], bad_sp[0][1]))
    ck.extra["scan_runs"] = len(sc)
    ck.extra["scan_stolen_right_children_observed"] = nzomb
    ck.extra["scan_right_children_run_inside_a_left_leaf_body"] = nearly
    ck.extra["scan_reentrant_runs"] = sum(1 for x in sc if x[6])
    ck.extra["scan_forced_steal_runs"] = "%d of %d runs had the right child stolen while the spawner was held after completing the left half" % (nforced, len(fs))
    ck.oblige("monitor:parallel_scan final pass exactly once per element with the in-order prefix of everything to its left "
              "(also with re-entrant bodies and forced steals)",
              "correspondence", not bad_mon and not crashes and not [f for f in fbad if f[1][0] in ("twice", "missed", "prefix", "crash")],
              "" if not bad_mon else "%s: %s" % (lines[bad_mon[0][0]], bad_mon[0][1][1]))
    ck.oblige("monitor:parallel_scan returns the full reduction", "correspondence", not bad_val and not [f for f in fbad if f[1][0] == "total"],
              "" if not bad_val else "%s: %s" % (lines[bad_val[0][0]], bad_val[0][1]))
    ck.oblige("monitor:a really stolen right child (runs on another thread than its spawner) starts on a fresh body, never on its parent's",
              "correspondence", not bad_steal and not [f for f in fbad if f[1][0] == "stolen-child-shares-body"],
              "" if not (bad_steal or fbad) else ("%s: %s" % (lines[bad_steal[0][0]], bad_steal[0][1][1]) if bad_steal else "%s: %s" % (flines[fbad[0][0]], fbad[0][1][1])))
    ck.oblige("corr:observed pre-scan/final-scan/reverse_join/assign events == Scan model run under the observed oracle "
              "(stolen / run early inside a left leaf body / kept whole)",
              "correspondence", not bad_corr, "" if not bad_corr else "%s: %s" % (lines[bad_corr[0][0]], bad_corr[0][1]))
    fails = [(i, m[0], m[1]) for i, m in bad_mon] + [(i, "total", w) for i, w in bad_val]
    re_fails = [f for f in fails if sc[f[0]][6]]
    if re_fails:
        # smallest re-entrant scenario: one thread first (deterministic), then small n
        i, kind, text = min(re_fails, key=lambda f: (sc[f[0]][3], sc[f[0]][1], sc[f[0]][2], sc[f[0]][6]))
        part, n, g, T, seed, delay, re_mode = sc[i]
        # is re-entrance needed at all?  the same scenario with an ordinary body
        plain = scan_line(sc[i][:6] + (0,))
        po, _ = run_lines(ck.exe_real, [plain] * 3, timeout=120, max_crashes=1)
        pv = [v for v in (scan_verdict(o, n) for o in po if o != SKIPPED) if v]
        if pv:
            ck.counterexample("scan:%s:%s:n=%d:grain=%d:threads=%d" % (pv[0][0], part, n, g, T),
                              "parallel_scan: %s (scenario `%s`)" % (pv[0][1], plain),
                              {"engine": "E-REAL", "harness": H + "real.cpp", "stdin": plain, "repeat": 5, "monitor": "scan", "n": n, "observed": pv[0][1]})
            return
        ck.counterexample("scan:reentrant-body:%s:n=%d:grain=%d:threads=%d:re=%d:%s" % (part, n, g, T, re_mode, kind),
                          "parallel_scan whose leaf bodies wait on a task_group inside operator() (the nested wait runs the sibling right child "
                          "on the same thread, not stolen, while the left sibling is unfinished): %s (scenario `%s`)" % (text, lines[i]),
                          {"engine": "E-REAL", "harness": H + "real.cpp", "stdin": lines[i], "repeat": 20 if T == 1 else 200, "monitor": "scan", "n": n,
                           "observed": text})
    elif fails:
        report_real_failure(ck, "scan", lines, fails)
    if fbad or bad_steal:
        if fbad:
            i, v = min(fbad, key=lambda f: fs[f[0]])
            line, n = flines[i], fs[i][0]
            shape = "forced:n=%d:grain=%d" % fs[i]
        else:
            i, v = min(bad_steal, key=lambda f: (sc[f[0]][1], sc[f[0]][3]))
            line, n = lines[i], sc[i][1]
            shape = "%s:n=%d:grain=%d:threads=%d" % (sc[i][0], sc[i][1], sc[i][2], sc[i][3])
        ck.counterexample("scan:%s:%s" % (v[0] if v[0] != "stolen-child-shares-body" else "stolen-child-shares-body", shape),
                          "parallel_scan, right child really stolen after its left sibling completed: %s (scenario `%s`)" % (v[1], line),
                          {"engine": "E-REAL", "harness": H + "real.cpp", "stdin": line, "repeat": 40, "monitor": "scan", "n": n, "observed": v[1]})


# ---------------------------------------------------------------------------------------------
# E-REAL: parallel_sort
# ---------------------------------------------------------------------------------------------
def sort_inputs(ck, c):
    rng = ck.rng
    quick = ck.tier == "quick"
    res = []
    szs = [0, 1, 2, 9, 10, 11, 100, 490, 498, 499, 500, 501, 502, 510, 520, 1000, 1999] if quick else \
        list(range(0, 13)) + list(range(490, 521)) + [100, 999, 1000, 1001, 2048, 5000]
    for n in szs:
        s = sorted_for(c, n)
        res.append(("sorted", s))
        res.append(("reverse", s[::-1]))
        res.append(("few-keys", [rng.randrange(0, 5) for _ in range(n)]))
        res.append(("random", [rng.randrange(0, 4 * n + 1) for _ in range(n)]))
    for n in ([500, 513] if quick else [500, 501, 513, 520, 777]):
        s = sorted_for(c, n)
        ps = range(n - 1) if (not quick or c in ("lt", "div3")) else sorted(set(list(range(0, 24)) + [n - 2, n - 3, n // 2] + [rng.randrange(0, n - 1) for _ in range(40)]))
        for p in ps:
            a = list(s)
            a[p], a[p + 1] = a[p + 1], a[p]
            res.append(("one-inversion", a))
    if c in ("lt", "gt", "div3") or not quick:
        for fam, pos, a in prefix_families(ck, c, nrandom=4 if quick else 30):
            res.append(("%s:pos=%d" % (fam, pos), a))
    for n in ([20000] if quick else [20000, 100000, 300000]):
        s = sorted_for(c, n)
        res.append(("sorted", s))
        res.append(("random", [rng.randrange(0, 1 << 40) for _ in range(n)]))
        res.append(("few-keys", [rng.randrange(0, 9) for _ in range(n)]))
        for p in [0, 8, 9, 10, 11, 63, 64, 73, 74, n // 2, n - 2] + [rng.randrange(0, n - 1) for _ in range(3)]:
            a = list(s)
            a[p], a[p + 1] = a[p + 1], a[p]
            res.append(("one-inversion", a))
    return res


def is_sorted_wrt(c, a):
    lt = cmp_fn(c)
    return all(not lt(a[i + 1], a[i]) for i in range(len(a) - 1))


def run_sort(ck):
    rng = ck.rng
    lines, meta = [], []
    for c in CMPS:
        for cls, a in sort_inputs(ck, c):
            T = rng.choice([1, 2, 4, 8, 16])
            lines.append("sort %s %d %d %s" % (c, T, len(a), " ".join(map(str, a))))
            meta.append((cls, c, a, T))
    outs, crashes = run_lines(ck.exe_real, lines, timeout=1800)
    bad, uncovered = [], []
    dist = {}
    not_run(ck, "sort", outs, crashes, [x[:80] for x in lines])
    for i, (m, o) in enumerate(zip(meta, outs)):
        cls, c, a, T = m
        if o == SKIPPED:
            continue
        d = parse_kv(o)
        dist[cls.split(":")[0]] = dist.get(cls.split(":")[0], 0) + 1
        ck.count(1, ("sort", cls, c, min(len(a), 600), d.get("moved")))
        if o is None or "sorted" not in d:
            bad.append((i, "parallel_sort crashed or did not return (rc/timeouts: %s)" % [cr[1] for cr in crashes[:2]]))
            continue
        if d["sorted"] != "1" or d["perm"] != "1":
            bad.append((i, "result %s (first unsorted index %s)" % ("is not sorted" if d["sorted"] != "1" else "is not a permutation of the input", d.get("first_unsorted"))))
        elif d.get("moved") == "0" and len(a) >= ck.consts.get("minParallelSize", 500) and is_sorted_wrt(c, a) and int(d.get("uncovered", "0")) > 0:
            uncovered.append((i, int(d["first_uncovered"])))
    ck.extra["sort_input_distribution"] = dist
    # which path did parallel_sort take?  On an already sorted input of >= 32 elements std::sort compares
    # non-adjacent elements (median-of-three), the probe + pretest path compares adjacent pairs only.
    pq, pobs = [], []
    for i, (m, o) in enumerate(zip(meta, outs)):
        cls, c, a, T = m
        d = parse_kv(o)
        if cls == "sorted" and len(a) >= 32 and "nonadj" in d:
            pq.append("path %d" % len(a))
            pobs.append((i, "1" if int(d["nonadj"]) > 0 else "0"))
    pm = drv("c06", "\n".join(pq) + "\n") if pq else []
    bad_path = [(i, ob, mo) for (i, ob), mo in zip(pobs, pm) if ob != mo]
    ck.oblige("corr:parallel_sort takes the serial std::sort path iff n < min_parallel_size (observed through the comparison "
              "pattern on sorted inputs) == model", "correspondence", not bad_path,
              "" if not bad_path else "n=%d cmp %s: observed serial=%s, model serial=%s" % (
                  len(meta[bad_path[0][0]][2]), meta[bad_path[0][0]][1], bad_path[0][1], bad_path[0][2]))
    # memory safety of the algorithm on its input: the same code under AddressSanitizer, exact-size buffers
    alines, ameta = [], []
    for c in CMPS:
        for n in list(range(0, 14)) + [499, 500, 501, 1000]:
            for a in (sorted_for(c, n), sorted_for(c, n)[::-1], [rng.randrange(0, 3 * n + 1) for _ in range(n)]):
                alines.append("sort %s %d %d %s" % (c, rng.choice([1, 4]), n, " ".join(map(str, a))))
                ameta.append((c, a))
    aouts, acr = run_lines(ck.exe_asan, alines, timeout=900, env={"ASAN_OPTIONS": "detect_leaks=0:halt_on_error=1"})
    abad = [(i, "rc=%s %s" % (rc, e[:200])) for i, rc, e in acr]
    abad += [(i, "wrong result " + (o or "")[:60]) for i, o in enumerate(aouts) if o is not None and not o.startswith("sorted=1 first_unsorted=-1 perm=1 ")]
    ck.count(len(alines), ("sort-asan", len(acr)))
    ck.oblige("monitor:parallel_sort only touches [begin,end) (AddressSanitizer build, exact-size buffers, n = 0..13 and around 500)",
              "correspondence", not abad, "" if not abad else "%s: %s" % (alines[abad[0][0]][:80], abad[0][1]))
    if abad and not bad:
        i, text = min(abad, key=lambda t: len(alines[t[0]]))
        ck.counterexample("sort:memory:%s:n=%d" % (ameta[i][0], len(ameta[i][1])), "parallel_sort on %d elements: %s" % (len(ameta[i][1]), text),
                          {"engine": "E-REAL", "harness": H + "real.cpp", "exe": "real_asan", "stdin": alines[i], "repeat": 3,
                           "env": {"ASAN_OPTIONS": "detect_leaks=0:halt_on_error=1"}, "expect_regex": r"^sorted=1 first_unsorted=-1 perm=1 "})
    ck.oblige("monitor:parallel_sort leaves a sorted permutation (sorted / one inversion anywhere / many equal keys / random, "
              "sizes around the 500 cutoff, 5 comparators)", "correspondence", not bad,
              "" if not bad else "class %s cmp %s n=%d threads=%d: %s" % (meta[bad[0][0]][0], meta[bad[0][0]][1], len(meta[bad[0][0]][2]), meta[bad[0][0]][3], bad[0][1]))
    ck.oblige("monitor:a presorted input is accepted only after every adjacent pair was compared (probe + pretest cover all pairs)",
              "correspondence", not uncovered,
              "" if not uncovered else "cmp %s n=%d: pair (%d,%d) never compared" % (meta[uncovered[0][0]][1], len(meta[uncovered[0][0]][2]), uncovered[0][1] - 1, uncovered[0][1]))
    cex = None
    pbad = [b for b in bad if meta[b[0]][0].startswith("prefix-")]
    if pbad:
        # a descent confined to the first ten elements: report the smallest size / earliest family / position as it is
        i, text = min(pbad, key=lambda b: (len(meta[b[0]][2]), CMPS.index(meta[b[0]][1]), meta[b[0]][0]))
        cls, c, a, T = meta[i]
        fam, pos = cls.split(":pos=")
        ck.counterexample("sort:%s:n=%d:pos=%s:cmp=%s" % (fam, len(a), pos, CMP_NAME[c]),
                          "parallel_sort(%s, n=%d, %d threads) on an input whose only descent lies in the first ten elements (%s, position %s): %s; "
                          "first 14 keys %s" % (CMP_NAME[c], len(a), T, fam, pos, text, a[:14]),
                          {"engine": "E-REAL", "harness": H + "real.cpp", "stdin": "sort %s %d %d %s" % (c, T, len(a), " ".join(map(str, a))),
                           "repeat": 20, "expect_regex": r"^sorted=1 first_unsorted=-1 perm=1 "})
        ck.extra["sort_prefix_family_failures"] = sorted({"%s n=%d cmp=%s" % (meta[b[0]][0], len(meta[b[0]][2]), meta[b[0]][1]) for b in pbad})[:40]
    elif bad:
        i, text = min(bad, key=lambda b: len(meta[b[0]][2]))
        cex = (meta[i], text)
    elif uncovered:
        # build the input the skipped pair makes fail: sorted except an inversion at that pair
        i, k = uncovered[0]
        cls, c, a, T = meta[i]
        b = list(a)
        b[k - 1], b[k] = b[k], b[k - 1]
        o2, _ = run_lines(ck.exe_real, ["sort %s %d %d %s" % (c, T, len(b), " ".join(map(str, b)))], timeout=300)
        d2 = parse_kv(o2[0])
        if d2.get("sorted") != "1":
            cex = (("one-inversion", c, b, T), "sorted input with one inversion at pair (%d,%d) is returned unsorted" % (k - 1, k))
    if cex:
        (cls, c, a, T), text = cex
        a = shrink_sort(ck, c, a, T)
        ck.counterexample("sort:%s:%s:n=%d" % (cls, c, len(a)), "parallel_sort(%s, n=%d, class %s): %s" % (c, len(a), cls, text),
                          {"engine": "E-REAL", "harness": H + "real.cpp", "stdin": "sort %s %d %d %s" % (c, T, len(a), " ".join(map(str, a))),
                           "repeat": 20, "expect_regex": r"^sorted=1 first_unsorted=-1 perm=1 "})


def sort_fails(ck, c, a, T, tries=3):
    outs, _ = run_lines(ck.exe_real, ["sort %s %d %d %s" % (c, T, len(a), " ".join(map(str, a)))] * tries, timeout=120)
    return any(o is None or not o.startswith("sorted=1 first_unsorted=-1 perm=1 ") for o in outs)


def shrink_sort(ck, c, a, T):
    """delta-debug the array (remove blocks while the sort still fails)"""
    blk = max(1, len(a) // 2)
    budget = 60
    while blk >= 1 and budget > 0:
        i, changed = 0, False
        while i < len(a) and budget > 0:
            b = a[:i] + a[i + blk:]
            budget -= 1
            if len(b) >= 1 and sort_fails(ck, c, b, T):
                a, changed = b, True
            else:
                i += blk
        if not changed:
            blk //= 2
    return a


# ---------------------------------------------------------------------------------------------
def pure_counterexamples(ck):
    """a broken E-PURE obligation: look for an end-to-end failure first (done by run_sort); otherwise report
    the smallest array on which the split postcondition itself fails on the implementation"""
    pq = getattr(ck, "pqs_failures", None)
    if pq and not ck.counterexamples:
        line, why, meta = min(pq, key=lambda t: (len(t[2][3]), CMPS.index(t[2][2]), t[2][1]))
        fam, _, pos = meta[1].partition(":pos=")
        ck.counterexample("sort:%s:n=%d:pos=%s:cmp=%s" % (fam, len(meta[3]), pos, CMP_NAME[meta[2]]),
                          "parallel_quick_sort (one thread) on class %s: %s; first 14 keys %s" % (meta[1], why, meta[3][:14]),
                          {"engine": "E-PURE", "harness": H + "pure.cpp", "stdin": line, "monitor": "pqs-sorted"})
    pf = getattr(ck, "pure_failures", None)
    if not pf or ck.counterexamples:
        return
    if pf["post"]:
        line, why, meta = min(pf["post"], key=lambda t: len(t[0]))
        ck.counterexample("split:%s:n=%d" % (meta[2], len(meta[3])), "quick_sort_range split constructor: %s (input class %s)" % (why, meta[1]),
                          {"engine": "E-PURE", "harness": H + "pure.cpp", "stdin": line, "monitor": "split-post"})
    elif pf["crashes"]:
        line, rc = pf["crashes"][0]
        ck.counterexample("split:crash", "white-box call crashed (rc=%s): %s" % (rc, line[:200]),
                          {"engine": "E-PURE", "harness": H + "pure.cpp", "stdin": line, "monitor": "no-crash"})


def run_overloads(ck):
    """every public overload of parallel_reduce (body / functional form x default, simple, auto, static, affinity x with / without a user
    context) must return the in-order fold; (the deterministic-reduce overloads are compared tree by tree in run_det)"""
    rng = ck.rng
    quick = ck.tier == "quick"
    lines, meta = [], []
    for n in ([1, 7, 64, 257, 1000] if quick else [0, 1, 2, 7, 64, 100, 257, 1000, 4099]):
        for g in ([1, 16] if quick else [1, 3, 16, 100]):
            for ov in range(20):
                for T in ([1, 4] if quick else [1, 2, 4, 8]):
                    lines.append("redov %d %d %d %d %d %d" % (ov, n, g, T, rng.randrange(1 << 30), rng.choice([0, 30, 100])))
                    meta.append((ov, n, g, T))
    outs, crashes = run_lines(ck.exe_real, lines, timeout=1800)
    not_run(ck, "reduce overloads", outs, crashes, lines)
    bad = []
    for i, (m, o) in enumerate(zip(meta, outs)):
        ov, n, g, T = m
        if o == SKIPPED:
            continue
        want = "e" if n == 0 else "0-%d" % (n - 1)
        d = parse_kv(o) if o else {}
        ck.count(1, ("redov", ov, min(n, 64), g, T))
        if d.get("value") != want:
            bad.append((i, "value=%s expected %s" % (d.get("value"), want)))
        else:
            ck.traces_validated += 1
    # parallel_scan (body / functional form x default, simple, auto) and parallel_sort (iterator / range form x with / without comparator)
    l2, m2 = [], []
    for n in ([1, 2, 7, 64, 257, 1000] if quick else [0, 1, 2, 3, 7, 64, 100, 257, 1000, 3000]):
        for g in ([1, 16] if quick else [1, 3, 16, 100]):
            for ov in range(6):
                for T in ([1, 4] if quick else [1, 2, 4, 8]):
                    l2.append("scanov %d %d %d %d %d %d" % (ov, n, g, T, rng.randrange(1 << 30), rng.choice([0, 30, 100])))
                    m2.append(("scan", ov, n, g, T))
    for n in ([0, 1, 2, 9, 499, 500, 501, 2048] if quick else [0, 1, 2, 3, 9, 100, 499, 500, 501, 777, 2048, 10000]):
        for cls in range(3):
            keys = list(range(n)) if cls == 0 else [rng.randrange(max(1, n // 3 + 1)) for _ in range(n)] if cls == 1 else \
                [i if i != min(7, n - 1) else 0 for i in range(n)]
            for ov in range(4):
                for T in ([1, 4] if quick else [1, 2, 4, 8]):
                    l2.append("sortov %d %d %d %s" % (ov, T, n, " ".join(map(str, keys))))
                    m2.append(("sort", ov, n, cls, T))
    o2, cr2 = run_lines(ck.exe_real, l2, timeout=1800)
    not_run(ck, "scan / sort overloads", o2, cr2, l2)
    bad2 = []
    for i, (m, o) in enumerate(zip(m2, o2)):
        if o == SKIPPED:
            continue
        d = parse_kv(o) if o else {}
        ck.count(1, ("ov",) + m[:2] + (min(m[2], 64),) + m[3:])
        good = (d.get("ok") == "1" and d.get("total_ok") == "1") if m[0] == "scan" else (d.get("sorted") == "1" and d.get("perm") == "1")
        if not good:
            bad2.append((i, o))
        else:
            ck.traces_validated += 1
    ck.oblige("monitor:all 6 parallel_scan overloads give every element the in-order prefix and return the full reduction; all 4 parallel_sort "
              "overloads leave a sorted permutation", "correspondence", not bad2 and not cr2, "" if not bad2 else "%s: %s" % (l2[bad2[0][0]][:200], bad2[0][1]))
    if bad2:
        i, o = bad2[0]
        ck.counterexample("%s:overload-%d:n=%d" % (m2[i][0], m2[i][1], m2[i][2]), "%s overload %d: %s (scenario `%s`)" % (m2[i][0], m2[i][1], o, l2[i][:300]),
                          {"engine": "E-REAL", "harness": H + "real.cpp", "stdin": l2[i], "repeat": 20, "monitor": "overload-ok", "observed": o})
    ck.extra["reduce_overload_runs"] = len(lines)
    ck.extra["scan_sort_overload_runs"] = len(l2)
    ck.oblige("monitor:all 20 parallel_reduce overloads (body/functional x 5 partitioner choices x context) return the in-order fold (free monoid)",
              "correspondence", not bad and not crashes, "" if not bad else "%s: %s" % (lines[bad[0][0]], bad[0][1]))
    if bad:
        i, text = bad[0]
        ck.counterexample("reduce:overload-%d:n=%d:grain=%d:threads=%d" % meta[i], "parallel_reduce overload %d: %s (scenario `%s`)" % (meta[i][0], text, lines[i]),
                          {"engine": "E-REAL", "harness": H + "real.cpp", "stdin": lines[i], "repeat": 20, "monitor": "reduce", "n": meta[i][1], "observed": text})


def run(ck):
    ck.rule = ("E-PURE: arrays for split_range in classes sorted / reverse / all-equal / one inversion at every position / few distinct keys / "
               "random / organ-pipe, sizes 1-65, 490-520, 1000-4097 (thorough to 30011), comparators <, >, x/3, x/100, x%7; median_of_three and "
               "pseudo_median_of_nine on random arrays; is_divisible for sizes 0-40, 480-530 and large; pretest body on single chunks with one "
               "inversion at each position; parallel_quick_sort (one thread) on inputs whose descents are confined to the first ten elements "
               "(one smaller key / step down / step + rising tail at every position 0..11, random non-increasing heads; sizes 500-2048; <, >, key/3) "
               "and one inversion at positions 0..12. E-REAL: reduce over sizes x grains x {simple,auto,static,affinity} x {LRange,blocked_range} x "
               "1-16 threads x seeds (seed-dependent busy waits perturb the steal pattern); deterministic reduce x {simple,static} x thread counts; "
               "scan x {simple,auto}; reduce / deterministic reduce / scan with RE-ENTRANT leaf bodies (task_group::wait inside operator(), before / in the "
               "middle of / after the body's work, task_group tasks placed under every 1st/2nd/3rd right child, optionally a nested parallel_for) on one "
               "thread (deterministic: every right child runs nested inside a left leaf) and on 2-8 threads; scan with a forced real steal of the "
               "root's right child after the left half completed; sort x input classes (incl. the first-ten-elements families, sizes 499/500/501/777/2048) "
               "x comparators x sizes around 500 and large. distinct = distinct (operation, class, comparator/partitioner, size bucket, threads, "
               "number of observed body splits / stolen / nested right children / outcome prefix, re-entrance mode)")
    ck.assumptions += [
        "reduce model: task tree with per-node ref count / left_body / zombie, one step per atomic action; the schedule (positions x actions) "
        "is the oracle and subsumes every steal pattern, partitioner and grain size — and re-entrant bodies: a right child that its owner pops "
        "inside a left leaf's body call is a right child that starts while the parent's ref count is still 2; the lazy-split guard is the "
        "generated one (must be `is_right_child && ref == 2` whatever is_stolen says); values in the free monoid",
        "deterministic reduce model: eager split, free-magma values; static_partitioner's proportional split is the binary32 model of C05 "
        "(C05.propRightPart: round-to-nearest-even after every operation) for every size and divisor; its tree depends on the partition divisor "
        "(= max_concurrency() of the arena at entry): theorems are parametric in it, and the dependence is proved "
        "(det_reduce_static_depends_on_concurrency) and demonstrated on the real library as a known finding",
        "scan model: big-step over the task tree with an oracle per right child: `stolen` (is_stolen(ed)), `exec` (should_execute_range) and `early` "
        "(the child is popped by its owner inside a leaf body of its left sibling — re-entrant body — i.e. not stolen, left sibling unfinished, "
        "m_left_sum still null; it is evaluated BEFORE the left subtree); the theorem holds for every oracle, over the generated treat_as_stolen "
        "guard.  A late, unstolen right child is evaluated after the left subtree (it runs on the thread that finished the left task; `m_left_sum == "
        "&m_body` can only have been written by a leaf that ran sequentially on that body); an `early` child is modelled at the start of the left "
        "part rather than in the middle of one of its leaf body calls (the body call is atomic in the model); a really stolen task that would read "
        "m_left_sum is flagged (err) instead of modelling the race; the two children of a sum_node in pass 2 are evaluated right-then-left, the "
        "model flags (err) and the theorem excludes that they share a body",
        "scan TASK-PROTOCOL model SP (Model/C06Scan.lean): small-step over the task tree of start_scan / finish_scan+sum_node / final_sum with the code's "
        "own state words (ref counts, m_right_zombie, m_left_sum, m_left_is_final, phases, pass-2 leaf tasks), stealing = a Bool chosen by the schedule at every "
        "start_scan entry, tasks in any order the reference counts allow; statement skeleton (join conditions, operand order of both reverse_join sites, keep "
        "condition, m_left_is_final reset, leaf condition, leaf dispatch, slot write, is_final cleared on steal) GENERATED from the source text; theorems "
        "scan_protocol_* hold for every schedule; every observed event log is replayed as a run of SP (unobservable steps placed lazily). A body call is "
        "one atomic model step at its START stamp (a right child nested inside it appears after it); memory orders are not modelled; "
        "'never pre-scanned after an earlier (pre or final) scan' is a theorem for every schedule (scan_prescan_never_after_final)",
        "sort model: the partition loop is proved in bounds for every ASYMMETRIC comparator (strict partial orders included); a non-asymmetric comparator such "
        "as <= is outside the quantifier (and outside the C++ requirements): the real split_range then reads below begin on all-equal input (probe, ASan); "
        "sort model: split_range / medians / is_divisible / serial probe (generated loop range and argument order) / pretest body (generated argument "
        "order); std::sort on leaves is a hypothesis (sorted permutation); parallel_for's tiling of the pretest range and its split decisions are "
        "taken from C05 (hypothesis `tiles`, oracle `Dec`)",
        "not modelled: cancellation and exceptions inside reduce/scan bodies (join skipped when cancelled), affinity replay, memory orders "
        "(the acquire on m_ref_count / release on m_right_zombie are assumed to publish the body), lambda_reduce_body/lambda_scan_body wrappers",
        "E-REAL samples schedules of real threads; monitors flag only what the property forbids, plus one discipline monitor: a right child of "
        "parallel_scan that runs on another thread than its spawner must start on a fresh body (on x86-TSO continuing on the parent's body after the "
        "left sibling completed gives the right values; it is a data race on the body in the C++ model, which is what the code's own comment excludes)"]
    ck.trusted += ["checks/c06.py (guard / probe translators, event canonicalisation, oracle reconstruction, monitors)",
                   "harness/c06/*.cpp (recording bodies, LRange, re-entrant bodies, forced steal)",
                   "correspondence is sampled (differential), not proved"]
    import time
    times = ck.extra["stage_seconds"] = {}

    def stage(name, f):
        t0 = time.time()
        f(ck)
        times[name] = round(time.time() - t0, 1)
    ck.consts = gen(ck)
    stage("lean", lambda ck: ck.lean_stage())
    stage("build", build_all)
    stage("pure", run_pure)
    stage("partition", run_partition)
    stage("sort", run_sort)
    pure_counterexamples(ck)
    stage("reduce", run_reduce)
    stage("det", run_det)
    stage("overloads", run_overloads)
    stage("scan", run_scan)


def replay(ck, obj):
    r = obj["replay"]
    build_all(ck)
    exe = (ck.exe_pure_asan if r.get("exe") == "pure_asan" else ck.exe_pure) if r["harness"].endswith("pure.cpp") else (ck.exe_asan if r.get("exe") == "real_asan" else ck.exe_real)
    if "stdin_pair" in r:
        terms = set()
        for _ in range(r.get("repeat", 20)):
            outs, _ = run_lines(exe, r["stdin_pair"], timeout=300)
            for o in outs:
                terms.add((o or "crash").split(" term=", 1)[-1])
        print("replay of %s: %d distinct split/join trees" % (obj.get("key"), len(terms)))
        for t in list(terms)[:3]:
            print("  " + t[:200])
        return 0 if len(terms) == 1 else 1
    line = r["stdin"]
    if r.get("monitor") == "split-post":
        outs, cr = run_lines(exe, [line], timeout=300)
        w = line.split()
        a = [int(x) for x in w[3:]]
        bad = "crash" if outs[0] is None else check_split_post(w[1], a, outs[0])
        print("replay of %s: %s -> %s" % (obj.get("key"), line[:120], bad or "split postcondition holds now"))
        return 1 if bad else 0
    if r.get("monitor") in ("scan", "reduce"):
        rep = r.get("repeat", 20)
        outs, cr = run_lines(exe, [line] * rep, timeout=900)
        vs = [scan_verdict(o, r["n"]) if r["monitor"] == "scan" else reduce_verdict(o, r["n"]) for o in outs]
        bad = [v for v in vs if v]
        print("replay of %s: `%s` x %d: %d failing runs" % (obj.get("key"), line[:160], rep, len(bad)))
        if bad:
            print("  e.g. %s: %s" % bad[0])
        return 1 if bad else 0
    if r.get("monitor") == "pqs-sorted":
        outs, cr = run_lines(exe, [line], timeout=300)
        d = parse_kv(outs[0])
        bad = outs[0] is None or d.get("sorted") != "1" or d.get("perm") != "1"
        print("replay of %s: parallel_quick_sort on %s… -> %s" % (obj.get("key"), line[:80], (outs[0] or "crash")[:120]))
        return 1 if bad else 0
    if r.get("monitor") == "det-order":
        outs, cr = run_lines(exe, [line] * r.get("repeat", 5), timeout=300)
        bad = [o for o in outs if o is None or not det_in_order(o.split(" term=", 1)[-1], r["n"])]
        print("replay of %s: `%s`: %d runs with operands out of order%s" % (obj.get("key"), line, len(bad), (": " + str(bad[0])[:200]) if bad else ""))
        return 1 if bad else 0
    if r.get("monitor") == "overload-ok":
        outs, cr = run_lines(exe, [line] * r.get("repeat", 20), timeout=900)
        def good(o):
            d = parse_kv(o) if o else {}
            return (d.get("ok") == "1" and d.get("total_ok") == "1") or (d.get("sorted") == "1" and d.get("perm") == "1")
        bad = [o for o in outs if not good(o)]
        print("replay of %s: `%s`: %d failing runs%s" % (obj.get("key"), line[:120], len(bad), (": " + str(bad[0])[:200]) if bad else ""))
        return 1 if bad else 0
    if r.get("monitor") == "no-crash":
        outs, cr = run_lines(exe, [line], timeout=300)
        print("replay of %s: %s" % (obj.get("key"), "STILL CRASHES" if cr else "no crash now"))
        return 1 if cr else 0
    rep = r.get("repeat", 50)
    outs, cr = run_lines(exe, [line] * rep, timeout=900, env=r.get("env"))
    rx = re.compile(r.get("expect_regex", ".*"))
    bad = [o for o in outs if o is None or not rx.search(o)]
    print("replay of %s: `%s` x %d: %d failing runs" % (obj.get("key"), line[:160], rep, len(bad)))
    if bad:
        print("  e.g. " + str(bad[0])[:300])
        if w_is_reduce(line):
            d = parse_kv(bad[0])
            m = bim_monitor(canon_reduce(d.get("log", [])), int(line.split()[3]))
            if m:
                print("  monitor: " + m[1])
    return 1 if bad else 0


def w_is_reduce(line):
    return line.startswith("reduce ")
