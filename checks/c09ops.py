"""C09 — the non-concurrent / rarely used operations: differential of the real containers (harness/c09/seq.cpp, ASan + UBSan, page ledger
with a poisoning, quarantining allocator) against the Lean model `Seq` (driver `c09seq`), on scripted and seeded random operation
sequences over several queue objects with equal and unequal allocators."""
import os

import common
from common import REPO, cxx_build, drv, sh

SIZES_Q = [8, 128, 200]
SIZES_T = [8, 16, 32, 64, 128, 200]
IPP = {8: 32, 16: 16, 32: 8, 64: 4, 128: 2, 200: 1}


def build(size):
    return cxx_build("C09", "seq%d" % size,
                     ["harness/c09/seq.cpp", "harness/c09/stubs.cpp", os.path.join(REPO, "src/tbb/concurrent_bounded_queue.cpp")],
                     flags=["-O1", "-g", "-fno-access-control", "-D__TBB_BUILD", "-DELEM_SIZE=%d" % size, "-I" + os.path.join(REPO, "src"),
                            "-fsanitize=address,undefined", "-fno-sanitize-recover=all", "-pthread"])


class Gen:
    """generates (harness line, model line) pairs; tracks kinds, allocator ids and approximate sizes so that every line is applicable"""

    def __init__(self, rng, ipp):
        self.rng, self.ipp = rng, ipp
        self.kind, self.aid, self.n = {}, {}, {}
        self.next_id, self.val, self.fresh_aid = 0, 0, 1000
        self.lines = []

    def emit(self, h, m=None):
        self.lines.append((h, m if m is not None else h))

    def new(self, kind=None, aid=None):
        i = self.next_id
        self.next_id += 1
        kind = kind or self.rng.choice("ub")
        aid = self.rng.choice([0, 0, 1]) if aid is None else aid
        self.kind[i], self.aid[i], self.n[i] = kind, aid, 0
        self.emit("new %d %s %d" % (i, kind, aid), "new %d %s" % (i, kind))
        return i

    def push(self, i, count=1):
        for _ in range(count):
            self.val += 1
            if self.rng.random() < 0.07:
                self.emit(("pushf %d" if self.kind[i] == "u" else "trypushf %d 0") % i)
            else:
                self.emit(("push %d %d" if self.kind[i] == "u" else "trypush %d %d") % (i, self.val))
            self.n[i] += 1

    def pop(self, i, count=1):
        for _ in range(count):
            self.emit("trypop %d" % i)
            self.n[i] = max(0, self.n[i] - 1)

    def observe(self, i):
        for o in self.rng.sample(["size", "empty", "iter", "cap"], self.rng.randrange(1, 4)):
            self.emit("%s %d" % (o, i))

    def step(self):
        rng = self.rng
        ids = list(self.kind)
        if not ids or (len(ids) < 4 and rng.random() < 0.08):
            self.new()
            return
        i = rng.choice(ids)
        r = rng.random()
        burst = rng.choice([1, 1, 2, 3, self.ipp, 8 * self.ipp + rng.randrange(3), 8 * self.ipp * 2 + 1])
        if r < 0.30:
            self.push(i, min(burst, 600))
        elif r < 0.52:
            self.pop(i, min(rng.choice([1, 2, burst, self.n[i] + 1]), 700))
        elif r < 0.64:
            self.observe(i)
        elif r < 0.69:
            self.emit("clear %d" % i)
            self.n[i] = 0
        elif r < 0.74 and self.kind[i] == "b":
            self.emit("setcap %d %d" % (i, rng.choice([-1, -5, 0, 1, 2, self.n[i], max(0, self.n[i] - 2), self.n[i] + 3, 1 << 40])))
        elif r < 0.80:
            j = self.next_id
            self.next_id += 1
            self.kind[j], self.aid[j], self.n[j] = self.kind[i], self.aid[i], self.n[i]
            self.emit("copy %d %d" % (j, i))
            self.observe(j)
        elif r < 0.86:
            j = self.next_id
            self.next_id += 1
            eq = rng.random() < 0.5
            self.kind[j], self.n[j] = self.kind[i], self.n[i]
            if eq:
                self.aid[j] = self.aid[i]
            else:
                self.fresh_aid += 1
                self.aid[j] = self.fresh_aid
            self.n[i] = 0
            self.emit("move %d %d %s" % (j, i, "eq" if eq else "ne"))
            self.observe(j)
            self.observe(i)
        elif r < 0.95:
            same = [k for k in ids if self.kind[k] == self.kind[i]]
            j = rng.choice(same)
            o = rng.choice(["copyassign", "moveassign", "swap"])
            if o == "swap":
                cand = [k for k in same if self.aid[k] == self.aid[i]]
                j = rng.choice(cand)
                self.emit("swap %d %d" % (i, j))
                self.n[i], self.n[j] = self.n[j], self.n[i]
            elif o == "copyassign":
                self.emit("copyassign %d %d" % (i, j))
                self.n[i], self.aid[i] = self.n[j], self.aid[j]
            else:
                eq = self.aid[i] == self.aid[j]
                self.emit("moveassign %d %d %s" % (i, j, "eq" if eq else "ne"))
                if i != j:
                    if eq:
                        self.n[i], self.n[j] = self.n[j], 0
                    else:
                        self.n[i], self.n[j], self.aid[i] = self.n[j], 0, self.aid[j]
            self.observe(i)
            self.observe(j)
        elif len(ids) > 1:
            self.emit("del %d" % i)
            del self.kind[i], self.aid[i], self.n[i]

    def finish(self):
        for i in list(self.kind):
            self.observe(i)
        self.emit("final")


def corpus(ipp):
    """hand-written sequences: page boundaries in copies, iteration across pages and lanes, capacity changes, invalid tickets"""
    out = []
    full = 8 * ipp
    for shape in range(6):
        g = Gen(__import__("random").Random(shape), ipp)
        a = g.new("u" if shape % 2 == 0 else "b", 0)
        g.push(a, [full + 3, 2 * full, full - 1, 3, full + 1, 2 * full + 5][shape])
        g.pop(a, [2, full, 0, 1, full, full + 2][shape])
        g.emit("iter %d" % a)
        g.emit("size %d" % a)
        b = g.next_id
        g.next_id += 1
        g.kind[b], g.aid[b], g.n[b] = g.kind[a], 0, g.n[a]
        g.emit("copy %d %d" % (b, a))
        g.emit("iter %d" % b)
        g.pop(b, 3)
        g.push(b, 2)
        g.emit("iter %d" % b)
        c = g.new(g.kind[a], 7)
        g.push(c, 5)
        g.emit("copyassign %d %d" % (c, a))
        g.emit("iter %d" % c)
        g.emit("moveassign %d %d ne" % (c, b)) if g.aid[c] != g.aid[b] else g.emit("moveassign %d %d eq" % (c, b))
        g.emit("iter %d" % c)
        g.emit("iter %d" % b)
        g.emit("size %d" % b)
        d = g.next_id
        g.next_id += 1
        g.kind[d], g.aid[d], g.n[d] = g.kind[a], 2000 + shape, 0
        g.emit("move %d %d ne" % (d, a))
        g.emit("iter %d" % d)
        g.emit("iter %d" % a)
        g.emit("empty %d" % a)
        if g.kind[a] == "b":
            for cap in (2, 0, -1, 1):
                g.emit("setcap %d %d" % (d, cap))
                g.emit("cap %d" % d)
                g.emit("trypush %d %d" % (d, 9000 + cap + 1))
                g.emit("size %d" % d)
        g.emit("clear %d" % d)
        g.emit("size %d" % d)
        g.emit("final")
        out.append(g.lines)
    return out


def run_one(exe, lines, ipp, size):
    text_h = "".join(h + "\n" for h, _ in lines)
    text_m = "reset %d %d\n" % (ipp, size) + "".join(m + "\n" for _, m in lines)
    rc, out, err = sh([exe], input=text_h, timeout=300)
    impl = out.split("\n")[:-1] if out.endswith("\n") else out.split("\n")
    mod = drv("c09seq", text_m)[1:]
    for k, (h, _) in enumerate(lines):
        a = impl[k] if k < len(impl) else "<no output: the real container faulted: %s>" % (err.strip().split("\n")[0][:200] if err else "rc=%d" % rc)
        b = mod[k] if k < len(mod) else "<no model output>"
        if " ".join(a.split()) != " ".join(b.split()):
            return k, a, b
    if rc != 0:
        return len(lines), "harness rc=%d %s" % (rc, err[-300:]), ""
    return None


def stage(ck):
    quick = ck.tier == "quick"
    from concurrent.futures import ThreadPoolExecutor
    sizes = SIZES_Q if quick else SIZES_T
    with ThreadPoolExecutor(max_workers=len(sizes)) as ex:
        exes = dict(zip(sizes, ex.map(build, sizes)))
    bad = []
    nops = nseq = 0
    for size in sizes:
        ipp = IPP[size]
        seqs = corpus(ipp)
        for r in range(4 if quick else 30):
            g = Gen(__import__("random").Random(ck.seed * 7919 + size * 31 + r), ipp)
            for _ in range(60 if quick else 160):
                g.step()
            g.finish()
            seqs.append(g.lines)
        for lines in seqs:
            nseq += 1
            nops += len(lines)
            d = run_one(exes[size], lines, ipp, size)
            ck.count(len(lines), ("seqops", size, nseq % 7))
            if d:
                k, a, b = d
                bad.append((size, lines[:k + 1], a, b))
                break
    ck.oblige("corr:copy / move (equal and unequal allocators) / assignment / swap / clear / size / empty / iteration / set_capacity / try_emplace of the real "
              "containers = Lean `Seq` (results, FIFO iteration order, live page count after every operation; ASan + UBSan, poisoning allocator; "
              "%d sequences, %d operations)" % (nseq, nops), "correspondence", not bad,
              "" if not bad else "sizeof(T)=%d after %d operations, `%s`: implementation `%s`, model `%s`" % (bad[0][0], len(bad[0][1]), bad[0][1][-1][0], bad[0][2][:300], bad[0][3][:200]))
    for size, pref, a, b in bad[:1]:
        # shrink: drop operations from the front / middle while the same line still differs
        cur = pref
        budget = 80
        chunk = max(1, (len(cur) - 1) // 2)
        while chunk >= 1 and budget > 0:
            pos, changed = 0, False
            while pos < len(cur) - 1 and budget > 0:
                cand = cur[:pos] + cur[min(pos + chunk, len(cur) - 1):]
                budget -= 1
                d = run_one(exes[size], cand, IPP[size], size)
                if d and d[0] == len(cand) - 1 and not d[2].startswith("bad-op") and not d[1].startswith("bad-op"):
                    cur, changed = cand, True
                else:
                    pos += chunk
            if not changed or chunk == 1:
                chunk //= 2
        d = run_one(exes[size], cur, IPP[size], size) or (0, a, b)
        ck.counterexample("seq-ops:" + cur[-1][0].split()[0], "sizeof(T)=%d: after %s the operation `%s` gives `%s` on the real container, the FIFO model says `%s`" % (
            size, [h for h, _ in cur[:-1]][-14:], cur[-1][0], d[1][:300], d[2][:200]),
            {"engine": "E-PURE-SEQ", "sizeof_T": size, "ops": [list(x) for x in cur]})
    ck.extra["seq_ops"] = {"sequences": nseq, "operations": nops, "sizes": sizes}
    return exes


def replay(ck, r):
    exe = build(r["sizeof_T"])
    d = run_one(exe, [tuple(x) for x in r["ops"]], IPP[r["sizeof_T"]], r["sizeof_T"])
    print("first difference:", d)
    print("replay:", "still fails" if d else "no longer fails")
    return 1 if d else 0
